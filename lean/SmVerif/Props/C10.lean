/-
C10 — every collection format returns what was stored, with a truthful manifest.

Statement.  Saving a set of signatures to any supported output (.sig, .sig.gz, directory, zip, SQLite, SBT,
LCA database) and loading it back with the generic loader yields the same signatures, limited only by the
documented restrictions of the format.  A collection's manifest always lists exactly the signatures it
contains, with correct md5, size, k, molecule type, num/scaled, abundance flag, name and internal
location, including after more signatures are appended to an existing zip or SQLite file.

Model: `Model/Storage.lean` (signatures are abstract records, JSON/gzip/zip/sqlite/csv bytes are trusted;
names are structured).  The theorems quantify over ALL lists of sessions and ALL signature records
(arbitrary md5 fields: equal md5 under different names, equal records saved twice, empty sketches, hashes
up to 2^64-1 are all inside the quantifier).

Three places of the code were repaired after this check found them wrong (D10 zip append name search,
C10.2 SQLite seed, D11 LCA empty sketches).  The model keeps BOTH variants of each; the translator reports
which one the source has (`Gen.zipNameConsultsBuffer`, `Gen.sqliteRecordsSeed`, `Gen.lcaYieldsEmpty`) and
`source_has_the_repaired_variants` pins that.  The main theorems are about the repaired variants (the
current source); the theorems named `old_variant_…` are regression theorems about the code before the
repairs (what goes wrong there, kernel-checked).
-/
import SmVerif.Lemmas.StorageSql
import SmVerif.Lemmas.StorageLca
import SmVerif.Lemmas.StorageZipDedup
import SmVerif.Model.Generated

namespace Sm.C10

open Sm.Storage

/-! ## manifest rows -/

/-- every column of a manifest row is the corresponding attribute of the signature -/
theorem manifest_row_correct (ss : Sig) (loc : Option Name) :
    (mkRow ss loc).md5 = ss.md5 ∧ (mkRow ss loc).md5short = ss.md5 / 16 ^ 24 ∧
    (mkRow ss loc).ksize = ss.ksize ∧ (mkRow ss loc).mol = ss.mol ∧ (mkRow ss loc).num = ss.num ∧
    (mkRow ss loc).scaled = ss.scaled ∧ (mkRow ss loc).nHashes = ss.hashes.length ∧
    (mkRow ss loc).abund = ss.track ∧ (mkRow ss loc).name = ss.name ∧
    (mkRow ss loc).filename = ss.filename ∧ (mkRow ss loc).loc = loc := by
  simp [mkRow, md5short]

/-- the model's row has exactly the columns `required_keys` lists, and `mkRow` transcribes exactly the
    assignments `make_manifest_row` makes (both re-extracted from manifest.py on every run) -/
theorem manifest_columns_match_source :
    Row.columns = Sm.Gen.manifestRequiredKeys ∧ Row.sources = Sm.Gen.manifestRowSources := by
  decide

/-- a row determines the signature's identity columns: rows of different signatures can only coincide
    if md5, name, file name, k, molecule, num, scaled, size and abundance flag all coincide -/
theorem manifest_row_injective_on_columns (a b : Sig) (la lb : Option Name) (h : mkRow a la = mkRow b lb) :
    a.md5 = b.md5 ∧ a.name = b.name ∧ a.filename = b.filename ∧ a.ksize = b.ksize ∧ a.mol = b.mol ∧
    a.num = b.num ∧ a.scaled = b.scaled ∧ a.hashes.length = b.hashes.length ∧ a.track = b.track ∧ la = lb := by
  simp only [mkRow, Row.mk.injEq] at h
  obtain ⟨h1, h2, _, h4, h5, h6, h7, h8, h9, h10, h11⟩ := h
  exact ⟨h2, h10, h11, h4, h5, h6, h7, h8, h9, h1⟩

/-! ## zip collections over create-then-append sessions -/

/-- `z` holds exactly `saved` (in this order) with a truthful manifest:
    * the manifest has one row per saved signature, in order, each row = `mkRow` of the signature at the
      member name it was given (an `<md5>` / `<md5>_n` name for the signature's own md5);
    * the member a row points to holds exactly that signature;
    * there is no signature member the manifest does not list;
    * reloading yields exactly the saved signatures as a set; and when no signature was saved twice, it
      yields the saved list itself, in order, and rows and members are in bijection. -/
structure Faithful (z : Zip) (saved : List Sig) : Prop where
  rows_members : ∃ placed : Placed, placed.map (·.2) = saved ∧
    zipManifest z = some (placed.map fun p => mkRow p.2 (some (.sig p.1))) ∧
    (∀ p ∈ placed, read z (.sig p.1) = some (.sigs [p.2]) ∧ p.1.md5 = p.2.md5) ∧
    (∀ m c, read z (.sig m) = some c → ∃ p ∈ placed, p.1 = m) ∧
    (saved.Nodup → (placed.map (·.1)).Nodup)
  load_set : ∃ out, zipLoad z = .ok out ∧ ∀ s, s ∈ out ↔ s ∈ saved
  load_exact : saved.Nodup → zipLoad z = .ok saved

theorem faithful_of_good (z : Zip) (placed : Placed) (saved : List Sig) (hg : Good z placed)
    (hs : placed.map (·.2) = saved) : Faithful z saved := by
  subst hs
  refine ⟨⟨placed, rfl, ?_, hg.holds, hg.noOrphan, placed_locs_nodup z placed hg⟩,
    zipLoad_good_mem z placed hg, zipLoad_good_nodup z placed hg⟩
  simp only [zipManifest, hg.manifest]
  rfl

/-- the source, as read by the translator on this run, has the repaired variant in all three places -/
theorem source_has_the_repaired_variants :
    Sm.Gen.zipNameConsultsBuffer = true ∧ Sm.Gen.sqliteRecordsSeed = true ∧ Sm.Gen.lcaYieldsEmpty = true ∧
    Sm.Gen.manifestPicklistFullKey = true := by
  decide

/-- MAIN STATEMENT for zip collections (current source: `_content_matches` also looks into `bufferzip`).
    EVERY sequence of create-then-append sessions is stored faithfully: manifest rows in save order with
    every column from the signature and the member actually holding it, no unlisted member, reload = the
    saved signatures as a set, and = the saved list, in order, when no signature was saved twice. -/
theorem zip_sessions_faithful (s0 : List Sig) (rest : List (List Sig)) :
    ∃ z, zipSessions none (s0 :: rest) = .ok (some z) ∧ Faithful z (s0 :: rest).flatten := by
  obtain ⟨z0, p0, h0, hg0, hm0⟩ := zipSession_create s0
  obtain ⟨z, placed, h1, hg, hm⟩ := zipSessions_from_good rest z0 p0 hg0
  refine ⟨z, by simp [zipSessions, h0, h1], faithful_of_good z placed _ hg ?_⟩
  rw [hm, hm0]; simp

/-- the structure behind the statements below: the zip written by any session sequence is `Good` for a
    placement of the saved signatures and has contiguous, content-unique name chains (`GoodX`) -/
theorem zip_sessions_structure (s0 : List Sig) (rest : List (List Sig)) :
    ∃ z placed, zipSessions none (s0 :: rest) = .ok (some z) ∧ placed.map (·.2) = (s0 :: rest).flatten ∧
      Good z placed ∧ GoodX z := by
  obtain ⟨z0, p0, h0, hg0, hm0⟩ := zipSession_create s0
  obtain ⟨z, placed, h1, hg, hm⟩ := zipSessions_from_good rest z0 p0 hg0
  have hrun : zipSessions none (s0 :: rest) = .ok (some z) := by simp [zipSessions, h0, h1]
  refine ⟨z, placed, hrun, by rw [hm, hm0]; simp, hg, ?_⟩
  exact zipSessions_goodX (s0 :: rest) none (fun z hz => by cases hz) z hrun

/-- LIST-level statement with exact duplicates allowed: reloading yields the saved signatures in save
    order with every LATER exact duplicate removed (`dedup`: first occurrences; `mem_dedup`,
    `nodup_dedup`).  Together with the manifest part of `Faithful` (one row per save) this is the precise
    content of finding C10.1: a signature saved n times has n rows, one member, and is returned once. -/
theorem zip_sessions_load_eq_dedup (s0 : List Sig) (rest : List (List Sig)) :
    ∃ z, zipSessions none (s0 :: rest) = .ok (some z) ∧ zipLoad z = .ok (dedup (s0 :: rest).flatten) := by
  obtain ⟨z, placed, hrun, hm, hg, hx⟩ := zip_sessions_structure s0 rest
  exact ⟨z, hrun, by rw [← hm]; exact zipLoad_good_dedup z placed hg hx⟩

/-- what `get_manifest(rebuild=True)` (`sourmash sig manifest`) lists for a zip written by any session
    sequence, exactly (given C10.4): the rows of the signatures stored under a bare `<md5>.sig.gz` name,
    with correct columns and location.  Hence: every md5 that was saved is represented by exactly one
    row; a saved signature is missing iff it sits in a `_k` member, which happens only next to a
    DIFFERENT saved signature with the same md5; so if signatures with equal md5 are equal, the rebuilt
    manifest lists every saved signature. -/
theorem zip_rebuilt_manifest_spec (s0 : List Sig) (rest : List (List Sig)) :
    ∃ (z : Zip) (placed : Placed), zipSessions none (s0 :: rest) = .ok (some z) ∧ placed.map (·.2) = (s0 :: rest).flatten ∧
      (∀ r, r ∈ zipRebuildManifest z ↔ ∃ p ∈ placed, p.1.suffix = none ∧ r = mkRow p.2 (some (.sig p.1))) ∧
      (∀ s ∈ (s0 :: rest).flatten, ∃ r ∈ zipRebuildManifest z, r.md5 = s.md5) ∧
      (∀ r1 ∈ zipRebuildManifest z, ∀ r2 ∈ zipRebuildManifest z, r1.md5 = r2.md5 → r1 = r2) ∧
      (∀ p ∈ placed, mkRow p.2 (some (.sig p.1)) ∉ zipRebuildManifest z →
        ∃ t ∈ (s0 :: rest).flatten, t.md5 = p.2.md5 ∧ t ≠ p.2) ∧
      ((∀ a ∈ (s0 :: rest).flatten, ∀ b ∈ (s0 :: rest).flatten, a.md5 = b.md5 → a = b) →
        ∀ p ∈ placed, mkRow p.2 (some (.sig p.1)) ∈ zipRebuildManifest z) := by
  obtain ⟨z, placed, hrun, hm, hg, hx⟩ := zip_sessions_structure s0 rest
  have hmem := mem_zipRebuildManifest z placed hg hx
  have hmissing : ∀ p ∈ placed, mkRow p.2 (some (.sig p.1)) ∉ zipRebuildManifest z →
      ∃ t ∈ (s0 :: rest).flatten, t.md5 = p.2.md5 ∧ t ≠ p.2 := by
    intro p hp hnot
    cases hk : p.1.suffix with
    | none => exact absurd ((hmem _).2 ⟨p, hp, hk, rfl⟩) hnot
    | some k =>
      obtain ⟨q, hq, _, h2, h3⟩ := suffix_needs_twin z placed hg hx p hp k hk
      exact ⟨q.2, by rw [← hm]; exact List.mem_map_of_mem hq, h2, h3⟩
  refine ⟨z, placed, hrun, hm, fun r => by rw [hmem r]; rfl, ?_, ?_, hmissing, ?_⟩
  · intro s hs
    rw [← hm] at hs
    simp only [List.mem_map] at hs
    obtain ⟨p, hp, rfl⟩ := hs
    cases hk : p.1.suffix with
    | none => exact ⟨rowOf p, (hmem _).2 ⟨p, hp, hk, rfl⟩, rfl⟩
    | some k =>
      obtain ⟨q, hq, h1, h2, _⟩ := suffix_needs_twin z placed hg hx p hp k hk
      exact ⟨rowOf q, (hmem _).2 ⟨q, hq, by rw [h1], rfl⟩, h2⟩
  · intro r1 h1 r2 h2 e
    obtain ⟨p1, hp1, k1, rfl⟩ := (hmem r1).1 h1
    obtain ⟨p2, hp2, k2, rfl⟩ := (hmem r2).1 h2
    have e' : p1.2.md5 = p2.2.md5 := e
    have hn : p1.1 = p2.1 := by
      have m1 := (hg.holds p1 hp1).2
      have m2 := (hg.holds p2 hp2).2
      obtain ⟨⟨a1, b1⟩, s1⟩ := p1
      obtain ⟨⟨a2, b2⟩, s2⟩ := p2
      simp only at k1 k2 m1 m2 e' ⊢
      subst k1; subst k2
      rw [m1, m2, e']
    have hs : p1.2 = p2.2 := by
      have r1 := (hg.holds p1 hp1).1
      have r2 := (hg.holds p2 hp2).1
      rw [hn, r2] at r1
      simpa using r1.symm
    simp [rowOf, hn, hs]
  · intro hall p hp
    apply Classical.byContradiction
    intro hnot
    obtain ⟨t, ht, h1, h2⟩ := hmissing p hp hnot
    exact h2 (hall t ht p.2 (by rw [← hm]; exact List.mem_map_of_mem hp) h1)

/-! ### reloading through a standalone manifest or a path list (modelled explicitly: manifest rows →
    picklist and distinct locations → `load_file_as_index(location).select(picklist)` → signatures) -/

/-- a `sig collect`-style standalone manifest over a zip written by any session sequence (all rows of the
    zip's manifest, internal_location := the zip): reloading through it equals the generic reload -/
theorem standalone_manifest_reload_faithful (s0 : List Sig) (rest : List (List Sig)) (k : Nat) :
    ∃ z rows, zipSessions none (s0 :: rest) = .ok (some z) ∧ zipManifest z = some rows ∧
      standaloneLoadFs true [(k, z)] (relocate k rows) = .ok (dedup (s0 :: rest).flatten) ∧
      standaloneLoadFs true [(k, z)] (relocate k rows) = zipLoad z := by
  obtain ⟨z, placed, hrun, hm, hg, hx⟩ := zip_sessions_structure s0 rest
  have hload := zipLoad_good_dedup z placed hg hx
  refine ⟨z, placed.map rowOf, hrun, by simp [zipManifest, hg.manifest], ?_, ?_⟩
  · cases hp : placed with
    | nil =>
      rw [← hm, hp]
      rfl
    | cons a t =>
      have := standalone_zip_part true z placed hg hx k (fun _ => true) (fun _ _ _ _ _ _ => rfl)
        (by rw [hp]; simp)
      have hft : placed.filter (fun _ => true) = placed := List.filter_eq_self.2 (fun _ _ => rfl)
      rw [hft] at this
      rw [← hp, this, hm]
  · cases hp : placed with
    | nil =>
      rw [hload, hp]
      rfl
    | cons a t =>
      have := standalone_zip_part true z placed hg hx k (fun _ => true) (fun _ _ _ _ _ _ => rfl)
        (by rw [hp]; simp)
      have hft : placed.filter (fun _ => true) = placed := List.filter_eq_self.2 (fun _ _ => rfl)
      rw [hft] at this
      rw [← hp, this, hload]

/-- a standalone manifest listing only a PART of the zip (e.g. after a selection).  Current source (the
    manifest-derived picklist compares the rows' full (name, md5)): exactly the listed signatures come back,
    provided no UNLISTED signature of the zip has the same name AND the same md5 as a listed one (same
    hashes and name, differing in abundances / file name / scaled ...: the residue of C12.3).
    `P` says which placed signatures are listed. -/
theorem standalone_manifest_part_faithful (s0 : List Sig) (rest : List (List Sig)) (k : Nat) :
    ∃ (z : Zip) (placed : Placed), zipSessions none (s0 :: rest) = .ok (some z) ∧
      placed.map (·.2) = (s0 :: rest).flatten ∧ zipManifest z = some (placed.map rowOf) ∧
      ∀ P : MName × Sig → Bool,
        (∀ p ∈ placed, ∀ q ∈ placed, P q = true → q.2.name = p.2.name → q.2.md5 = p.2.md5 → P p = true) →
        placed.filter P ≠ [] →
        standaloneLoadFs true [(k, z)] (relocate k ((placed.filter P).map rowOf)) =
          .ok (dedup ((placed.filter P).map (·.2))) := by
  obtain ⟨z, placed, hrun, hm, hg, hx⟩ := zip_sessions_structure s0 rest
  refine ⟨z, placed, hrun, hm, by simp [zipManifest, hg.manifest], ?_⟩
  intro P hexcl hne
  apply standalone_zip_part true z placed hg hx k P _ hne
  intro p hp q hq hPq e
  simp only [pickKey, sigKey, if_true, Prod.mk.injEq] at e
  exact hexcl p hp q hq hPq e.1 e.2

/-- regression, OLD variant of `to_picklist()` (before cff7217: (identifier, md5[:8])): the exclusion had to
    cover every unlisted signature sharing the name and the FIRST 8 md5 DIGITS with a listed one (C12.3) -/
theorem old_variant_standalone_manifest_part_faithful (s0 : List Sig) (rest : List (List Sig)) (k : Nat) :
    ∃ (z : Zip) (placed : Placed), zipSessions none (s0 :: rest) = .ok (some z) ∧
      placed.map (·.2) = (s0 :: rest).flatten ∧
      ∀ P : MName × Sig → Bool,
        (∀ p ∈ placed, ∀ q ∈ placed, P q = true → q.2.name = p.2.name →
          q.2.md5 / 16 ^ 24 = p.2.md5 / 16 ^ 24 → P p = true) →
        placed.filter P ≠ [] →
        standaloneLoadFs false [(k, z)] (relocate k ((placed.filter P).map rowOf)) =
          .ok (dedup ((placed.filter P).map (·.2))) := by
  obtain ⟨z, placed, hrun, hm, hg, hx⟩ := zip_sessions_structure s0 rest
  refine ⟨z, placed, hrun, hm, ?_⟩
  intro P hexcl hne
  apply standalone_zip_part false z placed hg hx k P _ hne
  intro p hp q hq hPq e
  simp only [pickKey, sigKey, Bool.false_eq_true, if_false, Prod.mk.injEq, md5short] at e
  exact hexcl p hp q hq hPq e.1 e.2

/-- a path list naming the zip (or two different zips): the generic reload(s), concatenated -/
theorem pathlist_reload_faithful (s0 : List Sig) (rest : List (List Sig)) (k : Nat) :
    ∃ z, zipSessions none (s0 :: rest) = .ok (some z) ∧
      pathlistLoadFs [(k, z)] [k] = .ok (dedup (s0 :: rest).flatten) ∧
      ∀ (z2 : Zip) (k2 : Nat) (o2 : List Sig), k ≠ k2 → zipLoad z2 = .ok o2 →
        pathlistLoadFs [(k, z), (k2, z2)] [k, k2] = .ok (dedup (s0 :: rest).flatten ++ o2) := by
  obtain ⟨z, placed, hrun, hm, hg, hx⟩ := zip_sessions_structure s0 rest
  have hload := zipLoad_good_dedup z placed hg hx
  rw [hm] at hload
  exact ⟨z, hrun, pathlist_single z k _ hload, fun z2 k2 o2 hk h2 => pathlist_pair z z2 k k2 hk _ o2 hload h2⟩

/-- collections that are not zips answer `select(picklist)` row by row: through a complete standalone
    manifest the reload is the generic one -/
theorem standalone_nonzip_complete (loaded : List Sig) (k : Nat) :
    standaloneLoad true (relocate k (loaded.map fun s => mkRow s none)) loaded = loaded := by
  unfold standaloneLoad
  rw [List.filter_eq_self]
  intro s hs
  simp only [picklistOf, relocate, List.map_map, List.contains_eq_mem, List.mem_map, Function.comp,
    decide_eq_true_eq]
  exact ⟨s, hs, rfl⟩

/-- `_generate_filename`: the `_n` search terminates (the fuel is never exhausted), returns a name for this
    md5, "don't write" only when the very content is already there, "write" only on a name that is free in
    everything the search can see (`rd`; `N` lists the names `rd` knows) -/
theorem generate_filename_spec (rd : Name → Option Content) (N : List Name) (hN : ∀ n, rd n ≠ none → n ∈ N)
    (fuel : Nat) (hfuel : N.length < fuel) (md5 : Nat) (c : Content) :
    (∃ sfx, (genNameR rd fuel md5 c).1 = .sig ⟨md5, sfx⟩) ∧
    ((genNameR rd fuel md5 c).2 = false → rd (genNameR rd fuel md5 c).1 = some c) ∧
    ((genNameR rd fuel md5 c).2 = true → rd (genNameR rd fuel md5 c).1 = none) :=
  genNameR_spec rd N hN fuel hfuel md5 c

/-- the two instances the saver uses: writable zip (sees its own writes) and on-disk zip + buffer -/
theorem generate_filename_instances (zf b : Zip) (md5 : Nat) (c : Content) :
    ((genName zf md5 c).2 = true → read zf (genName zf md5 c).1 = none) ∧
    ((genNameR (readBoth zf b) (zf.length + b.length + 1) md5 c).2 = true →
      readBoth zf b (genNameR (readBoth zf b) (zf.length + b.length + 1) md5 c).1 = none) :=
  ⟨(genName_spec zf md5 c).2.2, (genNameBoth_spec zf b md5 c).2.2⟩

/-
FULL STATEMENT (not proved / false): multiset equality

  ∀ sessions, ∃ out, zipLoad (result) = .ok out ∧ out.Perm sessions.flatten ∧ rows ↔ members bijection

fails for a signature that is saved TWICE (finding C10.1): the storage is content-addressed, the second
save returns the existing member, the manifest gets a second row: one member, two rows, one signature
returned (`zip_exact_duplicate_counterexample`).  `zip_sessions_faithful` gives the set equality for all
inputs and the list equality when nothing is saved twice.
-/

/-! ### regression theorems about the OLD variant (before commit 44244bd: name search blind to the buffer) -/

/-- old variant: faithful only if no append session adds two DIFFERENT signatures with one md5 -/
theorem old_variant_zip_sessions_faithful_partial (s0 : List Sig) (rest : List (List Sig))
    (happ : ∀ l ∈ rest, ∀ a ∈ l, ∀ b ∈ l, a.md5 = b.md5 → a = b) :
    ∃ z, zipSessionsOld none (s0 :: rest) = .ok (some z) ∧ Faithful z (s0 :: rest).flatten := by
  obtain ⟨z0, p0, h0, hg0, hm0⟩ := zipSessionOld_create s0
  obtain ⟨z, placed, h1, hg, hm⟩ := zipSessionsOld_from_good rest z0 p0 hg0 happ
  refine ⟨z, by simp [zipSessionsOld, h0, h1], faithful_of_good z placed _ hg ?_⟩
  rw [hm, hm0]; simp

def sigA : Sig := { name := 1, filename := 0, md5 := 100, ksize := 21, mol := 0, num := 0, scaled := 1,
                    seed := 42, track := false, hashes := [(1, 1), (2, 1), (3, 1)] }
def sigB : Sig := { sigA with name := 2 }
def sigC : Sig := { name := 3, filename := 0, md5 := 200, ksize := 21, mol := 0, num := 0, scaled := 1,
                    seed := 42, track := false, hashes := [(5, 1), (9223372036854775813, 1)] }

/-- D10 (fixed by 44244bd), kernel-checked on the OLD variant: create a zip holding C; reopen it and add A and B (equal md5, different names).
    The file then holds members for C and B only, reloading yields [C, B], A is lost — while the manifest
    has three rows, the one for A pointing at the member that holds B. -/
theorem old_variant_zip_append_same_md5_counterexample :
    ∃ z, zipSessionsOld none [[sigC], [sigA, sigB]] = .ok (some z) ∧
      zipLoad z = .ok [sigC, sigB] ∧
      zipManifest z = some [mkRow sigC (some (.sig ⟨200, none⟩)), mkRow sigA (some (.sig ⟨100, none⟩)),
                            mkRow sigB (some (.sig ⟨100, none⟩))] ∧
      read z (.sig ⟨100, none⟩) = some (.sigs [sigB]) ∧ (sigMembers z).length = 2 := by
  refine ⟨_, rfl, ?_, ?_, ?_, ?_⟩ <;> decide

/-- hence the main statement was false for the old variant -/
theorem old_variant_zip_sessions_faithful_is_false :
    ¬ ∀ sessions : List (List Sig), ∀ z, zipSessionsOld none sessions = .ok (some z) →
        ∃ out, zipLoad z = .ok out ∧ ∀ s, s ∈ sessions.flatten → s ∈ out := by
  intro h
  obtain ⟨out, ho, hall⟩ := h [[sigC], [sigA, sigB]] _ rfl
  have hA := hall sigA (by decide)
  have : zipLoad ((zipSessionsOld none [[sigC], [sigA, sigB]]).rec (fun o => o.getD []) (fun _ => [])) = .ok [sigC, sigB] := by decide
  have e : out = [sigC, sigB] := by
    have h2 : zipLoad ((zipSessionsOld none [[sigC], [sigA, sigB]]).rec (fun o => o.getD []) (fun _ => [])) = .ok out := ho
    rw [this] at h2
    cases h2; rfl
  rw [e] at hA
  revert hA; decide

/-- the same input with the current source: B gets `<md5>_0`, all three come back, in order -/
theorem zip_append_same_md5_regression :
    ∃ z, zipSessions none [[sigC], [sigA, sigB]] = .ok (some z) ∧
      zipLoad z = .ok [sigC, sigA, sigB] ∧ (sigMembers z).length = 3 := by
  refine ⟨_, rfl, ?_, ?_⟩ <;> decide

/-- C10.1, kernel-checked (current source): the same signature saved twice in a create session is ONE member
    and TWO manifest rows; one signature is returned (the multiset is not preserved, the set is) -/
theorem zip_exact_duplicate_counterexample :
    ∃ z, zipSessions none [[sigA, sigA]] = .ok (some z) ∧ zipLoad z = .ok [sigA] ∧
      (zipManifest z).map List.length = some 2 ∧ (sigMembers z).length = 1 := by
  refine ⟨_, rfl, ?_, ?_, ?_⟩ <;> decide

/-- C10.4, kernel-checked: A and B (equal md5, different names) saved to a zip.  Reloading is faithful, but
    the manifest REBUILT from the members (`get_manifest(rebuild=True)`, what `sourmash sig manifest`
    does) lists A only: B lives in `<md5>.sig.gz_0`, a name that does not end in `.sig`/`.sig.gz` -/
theorem zip_rebuilt_manifest_counterexample :
    ∃ z, zipSessions none [[sigA, sigB]] = .ok (some z) ∧ zipLoad z = .ok [sigA, sigB] ∧
      zipRebuildManifest z = [mkRow sigA (some (.sig ⟨100, none⟩))] := by
  refine ⟨_, rfl, ?_, ?_⟩ <;> decide

/-- ... while for signatures with pairwise different md5 every member is `<md5>.sig.gz` (the rebuilt
    manifest of the example is the stored one) -/
theorem zip_rebuilt_manifest_example :
    ∃ z, zipSessions none [[sigA], [sigC]] = .ok (some z) ∧
      zipRebuildManifest z = [mkRow sigA (some (.sig ⟨100, none⟩)), mkRow sigC (some (.sig ⟨200, none⟩))] ∧
      zipManifest z = some (zipRebuildManifest z) := by
  refine ⟨_, rfl, ?_, ?_⟩ <;> decide

/-- C10.5, kernel-checked: a standalone manifest in SQLite format over that zip keeps one row per
    (location, md5); reloading through it returns A only, through a CSV manifest both -/
theorem sql_manifest_counterexample :
    let rows := [mkRow sigA (some (.other 0)), mkRow sigB (some (.other 0)), mkRow sigC (some (.other 0))]
    sqlManifestKeep rows = [mkRow sigA (some (.other 0)), mkRow sigC (some (.other 0))] ∧
    standaloneLoad true (sqlManifestKeep rows) [sigA, sigB, sigC] = [sigA, sigC] ∧
    standaloneLoad true rows [sigA, sigB, sigC] = [sigA, sigB, sigC] := by
  refine ⟨?_, ?_, ?_⟩ <;> decide

def sigX : Sig := { name := 1, filename := 0, md5 := 100 * 16 ^ 24 + 1, ksize := 21, mol := 0, num := 0, scaled := 1,
                    seed := 42, track := false, hashes := [(7, 1)] }
def sigY : Sig := { sigX with md5 := 100 * 16 ^ 24 + 2, hashes := [(8, 1)] }

/-- kernel-checked: X and Y share the name and the first 8 md5 digits.  A manifest listing X only returns
    X only with the current picklist key, X and Y with the old one (C12.3); a manifest listing A of the
    same-md5 pair {A, B} (different names) returns A only under both -/
def zipXYAB : Zip :=
  match zipSessions none [[sigX, sigY, sigA, sigB]] with
  | .ok (some z) => z
  | _ => []

theorem standalone_partial_example :
    zipLoad zipXYAB = .ok [sigX, sigY, sigA, sigB] ∧
    standaloneLoadFs true [(0, zipXYAB)] (relocate 0 [mkRow sigX none]) = .ok [sigX] ∧
    standaloneLoadFs false [(0, zipXYAB)] (relocate 0 [mkRow sigX none]) = .ok [sigX, sigY] ∧
    standaloneLoadFs true [(0, zipXYAB)] (relocate 0 [mkRow sigA none]) = .ok [sigA] ∧
    standaloneLoadFs false [(0, zipXYAB)] (relocate 0 [mkRow sigA none]) = .ok [sigA] := by
  refine ⟨?_, ?_, ?_, ?_, ?_⟩ <;> decide

/-! ## SBT leaves: a freshly created zip, same name search -/

theorem sbtLoad_good (z : Zip) (placed : Placed) (hg : Good z placed) (hnd : (placed.map (·.2)).Nodup) :
    sbtLoad z = .ok (placed.map (·.2)) := by
  have hlocs : locations (placed.map rowOf) = placed.map (fun p => some (Name.sig p.1)) := by
    have e : (placed.map rowOf).map (·.loc) = placed.map (fun p => some (Name.sig p.1)) := by
      simp [List.map_map, Function.comp, rowOf, mkRow]
    rw [locations, e]
    apply dedup_of_nodup
    have := placed_locs_nodup z placed hg hnd
    rw [List.Nodup, List.pairwise_map] at this ⊢
    apply List.Pairwise.imp _ this
    intro p q hne e
    apply hne
    simpa using e
  simp only [sbtLoad, hg.manifest, hlocs]
  have : ∀ (l : Placed), (∀ p ∈ l, p ∈ placed) →
      (l.map (fun p => some (Name.sig p.1))).foldr (fun loc acc =>
        match loc, acc with
        | some n, .ok more =>
          match read z n with
          | some (.sigs (s :: _)) => .ok (s :: more)
          | _ => .err .fileNotFound
        | _, .err e => .err e
        | none, _ => .err .fileNotFound) (.ok []) = Res.ok (l.map (·.2)) := by
    intro l
    induction l with
    | nil => intro _; rfl
    | cons p t ih =>
      intro hsub
      simp only [List.map_cons, List.foldr_cons]
      rw [ih (fun q hq => hsub q (by simp [hq]))]
      simp [(hg.holds p (hsub p (by simp))).1]
  exact this placed (fun p hp => hp)

/-- the leaves of a saved SBT come back exactly (no signature saved twice; otherwise as for zips: one
    member, two rows) -/
theorem sbt_leaves_roundtrip_partial (sigs : List Sig) (hnd : sigs.Nodup) : sbtLoad (sbtSave sigs) = .ok sigs := by
  obtain ⟨ho, inv⟩ := sinv_open_none
  obtain ⟨new, inv', hmap⟩ := sinv_fold sigs _ [] [] inv
  have hg := good_close _ _ _ inv'
  simp only [List.nil_append, List.map_nil] at hg hmap
  have := sbtLoad_good _ new hg (by rw [hmap]; exact hnd)
  rw [hmap] at this
  exact this

/-! ## directory output: full strength (every `add` is a new file, duplicates of every kind included) -/

theorem dir_sessions_faithful (sessions : List (List Sig)) :
    ∃ placed : Placed, dirSessions [] sessions = placed.map (fun p => (Name.sig p.1, Content.sigs [p.2])) ∧
      placed.map (·.2) = sessions.flatten ∧ (placed.map (·.1)).Nodup ∧ (∀ p ∈ placed, p.1.md5 = p.2.md5) ∧
      dirLoad (dirSessions [] sessions) = sessions.flatten ∧
      dirManifest (dirSessions [] sessions) = placed.map fun p => mkRow p.2 (some (.sig p.1)) := by
  obtain ⟨new, h1, h2, h3, h4⟩ := dir_fold sessions.flatten [] (by simp)
  simp only [List.map_nil, List.nil_append] at h1 h3
  refine ⟨new, h1, h2, h3, h4, ?_, ?_⟩
  · unfold dirSessions; rw [h1, dirLoad_placed, h2]
  · unfold dirSessions; rw [h1, dirManifest_placed]; rfl

/-- a single JSON file holds what the last session wrote (a second session on the same path truncates) -/
theorem sigfile_roundtrip (l : List Sig) (earlier : List (List Sig)) : sigfileSessions (earlier ++ [l]) = l := by
  simp [sigfileSessions]

/-- ... and an EMPTY set saved to a JSON file or a directory cannot be reloaded: the generic loader
    refuses it (loudly).  Recorded as a finding: the statement asks for the empty set back. -/
theorem empty_collection_refused : multiIndexLoad [] = .err .valueError ∧
    ∀ l : List Sig, l ≠ [] → multiIndexLoad l = .ok l := by
  refine ⟨rfl, ?_⟩
  intro l hl
  cases l with
  | nil => exact absurd rfl hl
  | cons a t => rfl

/-! ## SQLite -/

theorem sqlite_max_int_matches_source : maxSqliteInt = Sm.Gen.maxSqliteInt := by decide

/-- `convert_hash_from ∘ convert_hash_to = id` on u64 -/
theorem sqlite_convert_roundtrip (x : Nat) (h : x < 2 ^ 64) : convertHashFrom (convertHashTo x) = x :=
  convert_roundtrip x h

/-- the stored value fits SQLite's signed 64-bit INTEGER -/
theorem sqlite_convert_range (x : Nat) (h : x < 2 ^ 64) :
    -(2 : Int) ^ 63 ≤ convertHashTo x ∧ convertHashTo x < (2 : Int) ^ 63 := convert_range x h

/-- order facts: the mapping is monotone on each half, the halves are swapped, and "stored value ≥ 0" is
    exactly "hash ≤ MAX_SQLITE_INT" (what the `hashval >= 0 AND hashval <= max_hash` constraints rely on) -/
theorem sqlite_convert_order (x y : Nat) (hx : x < 2 ^ 64) (hy : y < 2 ^ 64) :
    (x ≤ maxSqliteInt → y ≤ maxSqliteInt → (convertHashTo x ≤ convertHashTo y ↔ x ≤ y)) ∧
    (maxSqliteInt < x → maxSqliteInt < y → (convertHashTo x ≤ convertHashTo y ↔ x ≤ y)) ∧
    (x ≤ maxSqliteInt → maxSqliteInt < y → convertHashTo y < 0 ∧ 0 ≤ convertHashTo x) ∧
    (0 ≤ convertHashTo x ↔ x ≤ maxSqliteInt) ∧
    (convertHashTo x = convertHashTo y → x = y) :=
  ⟨convert_mono_low x y, convert_mono_high x y, fun h1 h2 => convert_cross x y h1 h2 hy,
   convert_nonneg_iff x hx, convert_injective x y hx hy⟩

/-- the general statement, for either variant of the seed column (`rs` = is the sketch's seed recorded?):
    the tables hold exactly the signatures the documented restriction admits (`sqlOk`: flat, scaled, at the
    scaled value of the first one accepted), every other `add` is refused with ValueError (flag `false`)
    and leaves the tables unchanged; reloading yields the accepted signatures in order, every field intact
    except that the seed is whatever was recorded; one correct manifest row per accepted signature -/
theorem sqlite_roundtrip_any_variant (rs : Bool) (sessions : List (List Sig))
    (hw : ∀ s ∈ sessions.flatten, s.num = 0 → s.track = false →
      FlatSorted s.hashes ∧ ∀ h ∈ s.hashes, h.1 < 2 ^ 64) :
    ∃ db, sqlSessions rs SqlDb.empty sessions = .ok (db, (sqlSpecSessions [] sessions).2) ∧
      sqlLoad db = (sqlSpecSessions [] sessions).1.map (sqlNorm rs) ∧
      sqlManifest db = (sqlSpecSessions [] sessions).1.map (mkRow · none) := by
  have h0 : SameScaled ([] : List Sig) := by intro f hf; cases hf
  have hs := sqlSessions_eq rs sessions [] h0
  refine ⟨_, hs, ?_, sqlManifest_dbOf rs _⟩
  apply sqlLoad_dbOf
  intro s hs'
  rcases sqlSpecSessions_mem sessions [] s hs' with h | ⟨hmem, hn, ht⟩
  · cases h
  · obtain ⟨h1, h2⟩ := hw s hmem hn ht
    exact ⟨hn, ht, h1, h2⟩

/-- MAIN STATEMENT for SQLite (current source: the seed is recorded).  Over any sequence of
    create-then-append sessions: exactly the admitted signatures are stored, all others are refused
    loudly, and reloading yields the accepted signatures THEMSELVES, in order -- every field including the
    seed, hashes up to 2^64-1 through the signed mapping -- with one correct manifest row each. -/
theorem sqlite_roundtrip (sessions : List (List Sig))
    (hw : ∀ s ∈ sessions.flatten, s.num = 0 → s.track = false →
      FlatSorted s.hashes ∧ ∀ h ∈ s.hashes, h.1 < 2 ^ 64) :
    ∃ db, sqlSessions true SqlDb.empty sessions = .ok (db, (sqlSpecSessions [] sessions).2) ∧
      sqlLoad db = (sqlSpecSessions [] sessions).1 ∧
      sqlManifest db = (sqlSpecSessions [] sessions).1.map (mkRow · none) := by
  obtain ⟨db, h1, h2, h3⟩ := sqlite_roundtrip_any_variant true sessions hw
  refine ⟨db, h1, ?_, h3⟩
  rw [h2]
  have : ∀ l : List Sig, l.map (sqlNorm true) = l := by
    intro l; induction l with
    | nil => rfl
    | cons a t ih => simp [sqlNorm, ih]
  exact this _

/-- corollary, spelled out for the case the md5-keyed bookkeeping would get wrong: the i-th accepted
    sketch is reloaded from the i-th `sourmash_sketches` row with ITS OWN hashes (and name, k, molecule,
    seed), whatever the md5 columns say -- several sketches with one md5 (same hashes under different names,
    a DNA k=21 and a protein k=7 sketch with the same hash values, ...) do not share hash rows.  This is
    because the hash rows are keyed by the rowid `last_insert_rowid()` reports for the row just inserted
    (`insertRowOrIgnore`: with a NULL location the insert is never ignored), not by md5. -/
theorem sqlite_same_md5_sketches_keep_their_own_hashes (sessions : List (List Sig))
    (hw : ∀ s ∈ sessions.flatten, s.num = 0 → s.track = false →
      FlatSorted s.hashes ∧ ∀ h ∈ s.hashes, h.1 < 2 ^ 64) :
    ∃ db fl, sqlSessions true SqlDb.empty sessions = .ok (db, fl) ∧
      (sqlLoad db).length = (sqlSpecSessions [] sessions).1.length ∧
      ∀ i (h1 : i < (sqlLoad db).length) (h2 : i < (sqlSpecSessions [] sessions).1.length),
        (sqlLoad db)[i] = (sqlSpecSessions [] sessions).1[i] ∧
        (sqlLoad db)[i].hashes = ((sqlSpecSessions [] sessions).1[i]).hashes := by
  obtain ⟨db, h1, h2, _⟩ := sqlite_roundtrip sessions hw
  refine ⟨db, _, h1, by rw [h2], ?_⟩
  intro i hi1 hi2
  have : (sqlLoad db)[i] = (sqlSpecSessions [] sessions).1[i] := by simp [h2]
  exact ⟨this, by rw [this]⟩

def sigP : Sig := { name := 6, filename := 0, md5 := 100, ksize := 7, mol := 1, num := 0, scaled := 1,
                    seed := 42, track := false, hashes := [(1, 1), (2, 1), (3, 1)] }
def sigQ : Sig := { name := 7, filename := 0, md5 := 100, ksize := 21, mol := 0, num := 0, scaled := 1,
                    seed := 42, track := false, hashes := [(4, 1), (9223372036854775813, 1)] }

/-- kernel-checked instance: A, B (same hashes, two names), P (protein k=7, same hash values, same md5) and
    Q (a record carrying the same md5 with OTHER hashes: md5 is an arbitrary field in the model), over two
    sessions; ids 1..4, every sketch comes back with its own hashes -/
theorem sqlite_same_md5_example :
    ∃ db fl, sqlSessions true SqlDb.empty [[sigA, sigB], [sigP, sigQ]] = .ok (db, fl) ∧
      sqlLoad db = [sigA, sigB, sigP, sigQ] ∧ db.sketches.map (·.id) = [1, 2, 3, 4] ∧
      (db.hashes.filter (·.2 = 4)).map (·.1) = [4, -9223372036854775803] := by
  refine ⟨_, _, rfl, ?_, ?_, ?_⟩ <;> decide

/-- the `UNIQUE(internal_location, md5sum)` + `INSERT OR IGNORE` trap, made explicit: had the index row
    carried a NON-NULL location, the second same-md5 insert would be ignored, `last_insert_rowid()` would
    still report the first sketch's id and the second sketch's hashes would be filed under the first
    (kernel-checked on the table operation; `SqliteIndex.insert` always passes location None) -/
theorem sqlite_insert_or_ignore_trap :
    let r1 := insertRowOrIgnore SqlDb.empty 0 (mkRow sigA (some (.other 0))) 42
    let r2 := insertRowOrIgnore r1.1 r1.2 (mkRow sigB (some (.other 0))) 42
    r1.2 = 1 ∧ r2.2 = 1 ∧ r2.1.sketches.length = 1 ∧
    (insertRowOrIgnore r1.1 r1.2 (mkRow sigB none) 42).2 = 2 := by
  refine ⟨?_, ?_, ?_, ?_⟩ <;> decide

/-- append sessions never disturb what is already stored: after any further sessions the reload starts
    with exactly the signatures reloaded before, followed by newly accepted ones drawn from the new
    sessions -/
theorem sqlite_append_sessions (before after : List (List Sig))
    (hw : ∀ s ∈ (before ++ after).flatten, s.num = 0 → s.track = false →
      FlatSorted s.hashes ∧ ∀ h ∈ s.hashes, h.1 < 2 ^ 64) :
    ∃ db1 fl1 db2 fl2 new, sqlSessions true SqlDb.empty before = .ok (db1, fl1) ∧
      sqlSessions true SqlDb.empty (before ++ after) = .ok (db2, fl2) ∧
      sqlLoad db2 = sqlLoad db1 ++ new ∧ (∀ s ∈ new, s ∈ after.flatten) ∧
      sqlManifest db2 = sqlManifest db1 ++ new.map (mkRow · none) := by
  have hw1 : ∀ s ∈ before.flatten, s.num = 0 → s.track = false →
      FlatSorted s.hashes ∧ ∀ h ∈ s.hashes, h.1 < 2 ^ 64 := by
    intro s hs; exact hw s (by simp only [List.flatten_append, List.mem_append]; exact Or.inl hs)
  obtain ⟨db1, e1, l1, m1⟩ := sqlite_roundtrip before hw1
  obtain ⟨db2, e2, l2, m2⟩ := sqlite_roundtrip (before ++ after) hw
  obtain ⟨new, hn, hmem⟩ := sqlSpecSessions_prefix after (sqlSpecSessions [] before).1
  refine ⟨db1, _, db2, _, new, e1, e2, ?_, hmem, ?_⟩
  · rw [l2, l1, sqlSpecSessions_append, hn]
  · rw [m2, m1, sqlSpecSessions_append, hn]; simp

/-- what is refused and what is kept, spelled out for one `add` -/
theorem sqlite_refusal_spec (acc : List Sig) (ss : Sig) :
    sqlOk acc ss = true ↔ ss.num = 0 ∧ ss.track = false ∧ ∀ f, acc.head? = some f → f.scaled = ss.scaled := by
  unfold sqlOk
  cases acc with
  | nil => simp
  | cons g t => simp [and_assoc]

/-- regression, current source: a seed-43 sketch comes back as a seed-43 sketch -/
theorem sqlite_seed_regression :
    ∃ db fl, sqlSessions true SqlDb.empty [[{ sigA with seed := 43 }]] = .ok (db, fl) ∧
      sqlLoad db = [{ sigA with seed := 43 }] := by
  refine ⟨_, _, rfl, ?_⟩; decide

/-- C10.2 (fixed by 005b230), kernel-checked on the OLD variant: the row carried no seed, 42 was recorded -/
theorem old_variant_sqlite_seed_counterexample :
    ∃ db fl, sqlSessions false SqlDb.empty [[{ sigA with seed := 43 }]] = .ok (db, fl) ∧ fl = [[true]] ∧
      sqlLoad db = [sigA] ∧ sigA ≠ { sigA with seed := 43 } := by
  refine ⟨_, _, rfl, ?_, ?_, ?_⟩ <;> decide

/-! ## LCA databases -/

theorem lcaInserts_len (l : List Sig) : ∀ db : LcaDb,
    (lcaInserts db l).1.len = db.len + ((lcaInserts db l).2.filter id).length := by
  induction l with
  | nil => intro db; simp [lcaInserts]
  | cons s t ih =>
    intro db
    simp only [lcaInserts]
    cases h : db.insert s with
    | ok db' =>
      simp only [ih db', List.filter_cons, id, if_true, List.length_cons]
      have : db'.len = db.len + 1 := by
        unfold LcaDb.insert at h
        split at h
        · cases h
        · split at h
          · cases h
          · split at h
            · cases h
            · split at h
              · cases h
              · cases h; rfl
      omega
    | err e =>
      simp only [ih db]
      simp

/-- `len(db)` counts every accepted insert ... -/
theorem lca_len_counts_accepted (ksize scaled maxHash mol : Nat) (l : List Sig) :
    (lcaInserts (LcaDb.new ksize scaled maxHash mol) l).1.len =
      ((lcaInserts (LcaDb.new ksize scaled maxHash mol) l).2.filter id).length := by
  rw [lcaInserts_len]; simp [LcaDb.new, LcaDb.len]

def sigE : Sig := { name := 4, filename := 0, md5 := 300, ksize := 21, mol := 0, num := 0, scaled := 1,
                    seed := 42, track := false, hashes := [] }
def sigG : Sig := { name := 5, filename := 0, md5 := 400, ksize := 21, mol := 0, num := 0, scaled := 1,
                    seed := 42, track := false, hashes := [(9223372036854775815, 1)] }

/-- what an LCA database hands back for an accepted signature: its name, flat, at the database's k /
    molecule / scaled, with exactly the hash values the database keeps (`lcaKept`: the downsampled sketch,
    possibly empty), in strictly ascending order without repetition; and when the input's hashes are
    ascending (every well-formed sketch) the hash list IS the kept list, abundance 1 -/
def LcaImage (k sc M mol : Nat) (s : Sig) (s' : Sig) : Prop :=
  s'.name = s.name ∧ (∀ x, x ∈ s'.hashes.map (·.1) ↔ x ∈ lcaKept M s) ∧ (∀ p ∈ s'.hashes, p.2 = 1) ∧
  s'.track = false ∧ s'.num = 0 ∧ s'.scaled = sc ∧ s'.ksize = k ∧ s'.mol = mol ∧
  FlatSorted s'.hashes ∧
  ((s.hashes.map (·.1)).Pairwise (· < ·) → s'.hashes = (lcaKept M s).map fun h => (h, 1))

/-- MAIN STATEMENT for LCA databases (current source: `_signatures` creates an entry for every idx).
    For every list of inserts: an insert is accepted iff `lcaOk` (same k and molecule, a scaled sketch no
    coarser than the database, a name not yet present; every other insert raises ValueError); `len` counts
    the accepted inserts; and `signatures()` is, up to order, exactly one `LcaImage` per accepted insert --
    including the sketches that are empty at the database's scaled. -/
theorem lca_roundtrip (k sc M mol : Nat) (l : List Sig) :
    let db := (lcaInserts (LcaDb.new k sc M mol) l).1
    let acc := (lcaSpec (LcaDb.new k sc M mol) l).1
    (lcaInserts (LcaDb.new k sc M mol) l).2 = (lcaSpec (LcaDb.new k sc M mol) l).2 ∧
    db.len = acc.length ∧ db.saveLoad = db ∧
    ∃ imgs : List Sig, (db.signatures true).Perm imgs ∧ imgs.length = acc.length ∧
      ∀ i (h1 : i < imgs.length) (h2 : i < acc.length), LcaImage k sc M mol (acc[i]).2 (imgs[i]) := by
  intro db acc
  obtain ⟨inv, hfl, hM, hk, hmol, hsc⟩ := lcaInserts_inv l (LcaDb.new k sc M mol) [] (lcaInv_new k sc M mol)
  simp only [List.nil_append] at inv
  have hM' : db.maxHash = M := hM
  refine ⟨hfl, inv.len, saveLoad_eq db acc inv, acc.map (fun e => lcaSigOf db e.1 e.2.name),
    signatures_perm db acc inv, by simp, ?_⟩
  intro i h1 h2
  simp only [List.getElem_map]
  have he : acc[i] ∈ acc := List.getElem_mem h2
  have hset : ∀ x, x ∈ (lcaSigOf db acc[i].1 acc[i].2.name).hashes.map (·.1) ↔ x ∈ lcaKept M acc[i].2 := by
    intro x
    rw [lcaSigOf_hashes, inv.owns]
    constructor
    · rintro ⟨e', he', e1, e2⟩
      have : e' = acc[i] := inj_of_nodup_map acc (·.1) inv.idxNodup e' acc[i] he' he e1
      subst this
      rw [hM'] at e2; exact e2
    · intro hx
      exact ⟨acc[i], he, rfl, by rw [hM']; exact hx⟩
  exact ⟨rfl, hset, foldl_insertHash_abund _ [] (by intro p hp; cases hp), rfl, rfl, hsc, hk, hmol,
    lcaSigOf_flatSorted _ _ _, fun hasc => lcaSigOf_exact _ _ _ _ (lcaKept_pairwise M _ hasc) hset⟩

/-- the acceptance test of `lcaSpec`, spelled out -/
theorem lca_refusal_spec (db : LcaDb) (ss : Sig) :
    (∃ db', db.insert ss = .ok db') ↔
      ss.ksize = db.ksize ∧ ss.mol = db.mol ∧ ss.num = 0 ∧ ss.scaled ≠ 0 ∧ ss.scaled ≤ db.scaled ∧
        ss.name ∉ db.identToName.map (·.1) := by
  constructor
  · rintro ⟨db', h⟩
    cases hok : lcaOk db ss with
    | false => rw [lca_insert_err db ss hok] at h; cases h
    | true =>
      simp only [lcaOk, Bool.and_eq_true, decide_eq_true_eq, Bool.not_eq_eq_eq_not, Bool.not_true] at hok
      obtain ⟨⟨⟨⟨⟨h1, h2⟩, h3⟩, h4⟩, h5⟩, h6⟩ := hok
      exact ⟨h1, h2, h3, h4, h5, by simpa using h6⟩
  · rintro ⟨h1, h2, h3, h4, h5, h6⟩
    refine ⟨_, lca_insert_ok db ss ?_⟩
    simp only [lcaOk, Bool.and_eq_true, decide_eq_true_eq, Bool.not_eq_eq_eq_not, Bool.not_true]
    exact ⟨⟨⟨⟨⟨h1, h2⟩, h3⟩, h4⟩, h5⟩, by simpa using h6⟩

/-
`lca_roundtrip` covers the JSON save/load (`saveLoad` changes nothing: the recomputed `_next_index` is the
old one), the order of the returned hash lists (strictly ascending, no repetition) and, for ascending
input, the hash list itself.  The loaded md5 is a function of (k, hashes) and is recomputed by the harness.
-/

/-! ### regression theorems about the OLD variant of `_signatures` (before commit 74325d9) -/

/-- old variant, every list of inserts: what is returned is an accepted signature that is NON-EMPTY at the
    database's scaled; every such signature is returned; an accepted signature that is EMPTY at the
    database's scaled is never returned (D11) although `len` counts it -/
theorem old_variant_lca_roundtrip_partial (k sc M mol : Nat) (l : List Sig) :
    let db := (lcaInserts (LcaDb.new k sc M mol) l).1
    let acc := (lcaSpec (LcaDb.new k sc M mol) l).1
    db.len = acc.length ∧
    (∀ s' ∈ db.signatures false, ∃ e ∈ acc, lcaKept M e.2 ≠ [] ∧ LcaImage k sc M mol e.2 s') ∧
    (∀ e ∈ acc, lcaKept M e.2 ≠ [] → ∃ s' ∈ db.signatures false, s'.name = e.2.name) ∧
    (∀ e ∈ acc, lcaKept M e.2 = [] → ∀ s' ∈ db.signatures false, s'.name ≠ e.2.name) := by
  intro db acc
  obtain ⟨inv, hfl, hM, hk, hmol, hsc⟩ := lcaInserts_inv l (LcaDb.new k sc M mol) [] (lcaInv_new k sc M mol)
  simp only [List.nil_append] at inv
  have hM' : db.maxHash = M := hM
  have hown : ∀ e ∈ acc, (∃ h, Owns db.hashvalToIdx h e.1) ↔ lcaKept M e.2 ≠ [] := by
    intro e he
    constructor
    · rintro ⟨h, ho⟩
      obtain ⟨e', he', e1, e2⟩ := (inv.owns h e.1).1 ho
      have : e' = e := inj_of_nodup_map acc (·.1) inv.idxNodup e' e he' he e1
      subst this
      rw [hM'] at e2
      intro hnil; rw [hnil] at e2; cases e2
    · intro hne
      cases hkept : lcaKept M e.2 with
      | nil => exact absurd hkept hne
      | cons h t =>
        exact ⟨h, (inv.owns h e.1).2 ⟨e, he, rfl, by rw [hM', hkept]; simp⟩⟩
  have hmem : ∀ s', s' ∈ db.signatures false ↔
      ∃ e ∈ acc, (∃ h, Owns db.hashvalToIdx h e.1) ∧ s' = lcaSigOf db e.1 e.2.name := by
    intro s'
    rw [mem_signatures false db acc inv s']
    constructor
    · rintro ⟨e, he, (h | h), hs⟩
      · exact ⟨e, he, h, hs⟩
      · cases h
    · rintro ⟨e, he, h, hs⟩
      exact ⟨e, he, Or.inl h, hs⟩
  refine ⟨inv.len, ?_, ?_, ?_⟩
  · intro s' hs'
    obtain ⟨e, he, hex, rfl⟩ := (hmem s').1 hs'
    have hset : ∀ x, x ∈ (lcaSigOf db e.1 e.2.name).hashes.map (·.1) ↔ x ∈ lcaKept M e.2 := by
      intro x
      rw [lcaSigOf_hashes, inv.owns]
      constructor
      · rintro ⟨e', he', e1, e2⟩
        have : e' = e := inj_of_nodup_map acc (·.1) inv.idxNodup e' e he' he e1
        subst this
        rw [hM'] at e2; exact e2
      · intro hx
        exact ⟨e, he, rfl, by rw [hM']; exact hx⟩
    exact ⟨e, he, (hown e he).1 hex, rfl, hset, foldl_insertHash_abund _ [] (by intro p hp; cases hp),
      rfl, rfl, hsc, hk, hmol, lcaSigOf_flatSorted _ _ _,
      fun hasc => lcaSigOf_exact _ _ _ _ (lcaKept_pairwise M _ hasc) hset⟩
  · intro e he hne
    exact ⟨lcaSigOf db e.1 e.2.name, (hmem _).2 ⟨e, he, (hown e he).2 hne, rfl⟩, rfl⟩
  · intro e he hnil s' hs' hname
    obtain ⟨e', he', hex, rfl⟩ := (hmem s').1 hs'
    have : e' = e := inj_of_nodup_map acc (·.2.name) inv.nameNodup e' e he' he hname
    subst this
    exact (hown e' he').1 hex hnil

/-- D11 (fixed by 74325d9), kernel-checked on the OLD variant: into a scaled=2 database (max_hash 2^63) insert
    A (3 hashes), E (empty) and G (one hash above 2^63): all three inserts succeed, `len` is 3, and
    `signatures()` yields A only -/
theorem old_variant_lca_empty_sketch_vanishes_counterexample :
    ((lcaInserts (LcaDb.new 21 2 9223372036854775808 0) [sigA, sigE, sigG]).2 = [true, true, true]) ∧
    ((lcaInserts (LcaDb.new 21 2 9223372036854775808 0) [sigA, sigE, sigG]).1.saveLoad.len = 3) ∧
    (((lcaInserts (LcaDb.new 21 2 9223372036854775808 0) [sigA, sigE, sigG]).1.saveLoad.signatures false).map (·.name) = [1]) := by
  refine ⟨?_, ?_, ?_⟩ <;> decide

/-- the same input with the current source: A, E and G all come back, E and G as empty sketches -/
theorem lca_empty_sketch_regression :
    ((lcaInserts (LcaDb.new 21 2 9223372036854775808 0) [sigA, sigE, sigG]).1.saveLoad.signatures true).map
      (fun s => (s.name, s.hashes)) = [(1, [(1, 1), (2, 1), (3, 1)]), (4, []), (5, [])] := by
  decide

/-- an instance with refusals (other k, num sketch, name already present), abundances flattened and a
    sketch downsampled, checked in the kernel -/
theorem lca_roundtrip_example :
    let r := lcaInserts (LcaDb.new 21 2 9223372036854775808 0)
      [sigC, { sigA with track := true, hashes := [(1, 5), (2, 7), (3, 9)] }, sigB, { sigB with md5 := 7 },
       { sigA with name := 9, ksize := 31 }, { sigA with name := 8, num := 5, scaled := 0 }]
    r.2 = [true, true, true, false, false, false] ∧
    (r.1.saveLoad.signatures true).map (fun s => (s.name, s.hashes)) =
      [(3, [(5, 1)]), (1, [(1, 1), (2, 1), (3, 1)]), (2, [(1, 1), (2, 1), (3, 1)])] := by
  refine ⟨?_, ?_⟩ <;> decide

/-! ## the command-line routes (`sig cat`, `sig split`, `sig collect`, `sig manifest`): compositions of the
    loaders and savers above -/

/-- `sourmash sig cat <collections> -o out`: the signatures read from the inputs (in order) are saved in ONE
    create session.  Into a zip the output reloads as the input list without later exact duplicates, with
    one manifest row per input signature; into a directory, as the input list itself; into a .sqldb either
    every input is admitted and the output reloads as the input list, or `cat` fails loudly. -/
theorem cli_cat_roundtrip (inputs : List Sig) :
    (∃ z, zipSession none inputs = .ok z ∧ zipLoad z = .ok (dedup inputs) ∧
      (zipManifest z).map List.length = some inputs.length) ∧
    dirLoad (dirSessions [] [inputs]) = inputs ∧
    ((∀ s ∈ inputs, s.num = 0 → s.track = false → FlatSorted s.hashes ∧ ∀ h ∈ s.hashes, h.1 < 2 ^ 64) →
      ∃ db fl, sqlSessions true SqlDb.empty [inputs] = .ok (db, fl) ∧
        (fl.flatten.all id = true → sqlLoad db = inputs)) := by
  refine ⟨?_, ?_, ?_⟩
  · obtain ⟨z, placed, hrun, hm, hg, hx⟩ := zip_sessions_structure inputs []
    have hz : zipSession none inputs = .ok z := by
      simp only [zipSessions] at hrun
      cases h : zipSession none inputs with
      | ok z1 => rw [h] at hrun; simp only at hrun; injection hrun with hrun; injection hrun with hrun; rw [hrun]
      | err e => rw [h] at hrun; cases hrun
    have hm' : placed.map (·.2) = inputs := by simpa using hm
    refine ⟨z, hz, by rw [← hm']; exact zipLoad_good_dedup z placed hg hx, ?_⟩
    simp [zipManifest, hg.manifest, ← hm']
  · obtain ⟨placed, h1, h2, _, _, h5, _⟩ := dir_sessions_faithful [inputs]
    simpa using h5
  · intro hw
    obtain ⟨db, h1, h2, _⟩ := sqlite_roundtrip [inputs] (by simpa using hw)
    refine ⟨db, _, h1, ?_⟩
    intro hall
    rw [h2]
    -- every add accepted: the accepted list is the input list
    have : ∀ (l acc : List Sig), (sqlSpecAdds acc l).2.all id = true → (sqlSpecAdds acc l).1 = acc ++ l := by
      intro l
      induction l with
      | nil => intro acc _; simp [sqlSpecAdds]
      | cons x t ih =>
        intro acc h
        simp only [sqlSpecAdds] at h ⊢
        by_cases hok : sqlOk acc x = true
        · simp only [hok, if_true, List.all_cons, id, Bool.true_and] at h ⊢
          rw [ih _ h]; simp
        · simp [hok] at h
    have h3 := this inputs [] (by simpa [sqlSpecSessions] using hall)
    simpa [sqlSpecSessions] using h3

/-- `--unique` keeps, per md5, the first signature read: nothing invented, one per md5, every md5 kept -/
theorem cli_cat_unique_spec (inputs : List Sig) :
    (∀ s ∈ catUnique inputs, s ∈ inputs) ∧ ((catUnique inputs).map (·.md5)).Nodup ∧
    (∀ s ∈ inputs, ∃ t ∈ catUnique inputs, t.md5 = s.md5) :=
  ⟨mem_catUnique inputs, catUnique_md5_nodup inputs, catUnique_covers inputs⟩

/-- the command line reads a directory in file-name order: the same signatures as any other traversal -/
theorem cli_directory_order (d : Dir) : (dirLoadSorted d).Perm (dirLoad d) := dirLoadSorted_perm d

/-! ## which loader / which saver -/

/-- every function registered with `@add_loader` in save_load.py is one the model knows -/
theorem loader_table_recognised : (resolveLoaders Sm.Gen.loaderPriorities).isSome = true := by decide

/-- the registered priorities are pairwise distinct (so `sorted(...)` never compares function objects) -/
theorem loader_priorities_distinct : (Sm.Gen.loaderPriorities.map (·.1)).Nodup := by decide

def loaderTable : List (Nat × Loader) := (resolveLoaders Sm.Gen.loaderPriorities).getD []

def expectedWinner : FileKind → Res IndexClass
  | .sigJson => .ok .multiIndex
  | .sigGz => .ok .multiIndex
  | .directory => .ok .multiIndex
  | .zipColl => .ok .zipFileLinearIndex
  | .sqldbIndex => .ok .sqliteIndex
  | .sqlManifest => .ok .standaloneManifestIndex
  | .csvManifest => .ok .standaloneManifestIndex
  | .pathlist => .ok .multiIndex
  | .sbtZip => .ok .sbt
  | .sbtJson => .ok .sbt
  | .lcaJson => .ok .lcaDatabase
  | .lcaSqldb => .ok .lcaSqliteDatabase
  | .fasta => .err .exception
  | .emptyText => .err .valueError
  | .missing => .err .valueError

/-- with the priorities found in the source, every kind of file is opened by the loader that understands
    it fully: in particular an `.sbt.zip` is an SBT (not an empty ZipFileLinearIndex, which the zip loader
    would also return), a `.sqldb` index is a SqliteIndex and an LCA `.sqldb` an LCA database (not the
    bare StandaloneManifestIndex the manifest loader would also return) -/
theorem loader_choice (k : FileKind) : loadChain loaderTable k = expectedWinner k := by
  cases k <;> decide

/-- the savers, in the priority order of `_save_classes`, with the predicates of their `matches` -/
def saverFor (table : List (Nat × String × String)) (isNone : Bool) (suffix : String) : Option String :=
  let sorted := table.foldr (fun x acc =>
    let rec ins : List (Nat × String × String) → List (Nat × String × String)
      | [] => [x]
      | y :: t => if x.1 < y.1 then x :: y :: t else y :: ins t
    ins acc) []
  (sorted.find? fun e =>
    match e.2.2 with
    | "none" => isNone
    | "any" => !isNone
    | p => !isNone && p = "suffix:" ++ suffix).map (·.2.1)

/-- `SaveSignaturesToLocation`: `None` -> no output, `x/` -> directory, `.zip` -> zip, `.sqldb` -> SQLite,
    anything else -> one JSON file -/
theorem save_choice :
    saverFor Sm.Gen.saveClasses true "" = some "SaveSignatures_NoOutput" ∧
    saverFor Sm.Gen.saveClasses false "/" = some "SaveSignatures_Directory" ∧
    saverFor Sm.Gen.saveClasses false ".zip" = some "SaveSignatures_ZipFile" ∧
    saverFor Sm.Gen.saveClasses false ".sqldb" = some "SaveSignatures_SqliteIndex" ∧
    saverFor Sm.Gen.saveClasses false ".sig" = some "SaveSignatures_SigFile" ∧
    saverFor Sm.Gen.saveClasses false ".sig.gz" = some "SaveSignatures_SigFile" := by
  decide

/-! ## non-vacuity -/

-- the hypotheses of `zip_sessions_faithful_partial` are satisfiable by a non-trivial history with equal
-- md5 under different names (in the create session and across sessions) and a duplicate
example : ∃ z, zipSessionsOld none [[sigA, sigB, sigA], [sigC, sigA], [sigB]] = .ok (some z) ∧
    Faithful z [sigA, sigB, sigA, sigC, sigA, sigB] :=
  old_variant_zip_sessions_faithful_partial [sigA, sigB, sigA] [[sigC, sigA], [sigB]] (by decide)

example : zipLoad ((zipSessions none [[sigA, sigB], [sigC, sigB, { sigA with name := 7 }]]).rec (fun o => o.getD []) (fun _ => [])) =
    .ok [sigA, sigB, sigC, { sigA with name := 7 }] := by decide

example : zipLoad ((zipSessionsOld none [[sigA, sigB], [sigC]]).rec (fun o => o.getD []) (fun _ => [])) =
    .ok [sigA, sigB, sigC] := by decide

-- SQLite: a session history with refusals and hashes above 2^63
example : ∃ db, sqlSessions true SqlDb.empty [[sigC, { sigA with num := 5 }], [sigA, { sigB with scaled := 2 }]] =
      .ok (db, [[true, false], [true, false]]) ∧ sqlLoad db = [sigC, sigA] := by
  refine ⟨_, rfl, ?_⟩; decide

example : FlatSorted sigC.hashes ∧ ∀ h ∈ sigC.hashes, h.1 < 2 ^ 64 := by
  refine ⟨by simp [FlatSorted, sigC], by decide⟩

example : convertHashTo 9223372036854775813 = -9223372036854775803 := by decide

end Sm.C10
