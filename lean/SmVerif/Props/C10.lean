/-
C10 — every collection format returns what was stored, with a truthful manifest.

Statement.  Saving a set of signatures to any supported output (.sig, .sig.gz, directory, zip, SQLite, SBT,
LCA database) and loading it back with the generic loader yields the same signatures, limited only by the
documented restrictions of the format.  A collection's manifest always lists exactly the signatures it
contains, with correct md5, size, k, molecule type, num/scaled, abundance flag, name and internal
location, including after more signatures are appended to an existing zip or SQLite file.

Model: `Model/Storage.lean` (signatures are abstract records, JSON/gzip/zip/sqlite/csv bytes are trusted;
names are structured).  The theorems quantify over ALL lists of sessions and ALL signature records
(arbitrary md5 fields: equal md5 under different names, equal records saved twice, empty sketches, hashes
up to 2^64-1 are all inside the quantifier).

Three places of the code were repaired after this check found them wrong (D10 zip append name search,
C10.2 SQLite seed, D11 LCA empty sketches).  The model keeps BOTH variants of each; the translator reports
which one the source has (`Gen.zipNameConsultsBuffer`, `Gen.sqliteRecordsSeed`, `Gen.lcaYieldsEmpty`) and
`source_has_the_repaired_variants` pins that.  The main theorems are about the repaired variants (the
current source); the theorems named `old_variant_…` are regression theorems about the code before the
repairs (what goes wrong there, kernel-checked).
-/
import SmVerif.Lemmas.StorageSql
import SmVerif.Lemmas.StorageLca
import SmVerif.Model.Generated

namespace Sm.C10

open Sm.Storage

/-! ## manifest rows -/

/-- every column of a manifest row is the corresponding attribute of the signature -/
theorem manifest_row_correct (ss : Sig) (loc : Option Name) :
    (mkRow ss loc).md5 = ss.md5 ∧ (mkRow ss loc).md5short = ss.md5 / 16 ^ 24 ∧
    (mkRow ss loc).ksize = ss.ksize ∧ (mkRow ss loc).mol = ss.mol ∧ (mkRow ss loc).num = ss.num ∧
    (mkRow ss loc).scaled = ss.scaled ∧ (mkRow ss loc).nHashes = ss.hashes.length ∧
    (mkRow ss loc).abund = ss.track ∧ (mkRow ss loc).name = ss.name ∧
    (mkRow ss loc).filename = ss.filename ∧ (mkRow ss loc).loc = loc := by
  simp [mkRow, md5short]

/-- the model's row has exactly the columns `required_keys` lists, and `mkRow` transcribes exactly the
    assignments `make_manifest_row` makes (both re-extracted from manifest.py on every run) -/
theorem manifest_columns_match_source :
    Row.columns = Sm.Gen.manifestRequiredKeys ∧ Row.sources = Sm.Gen.manifestRowSources := by
  decide

/-- a row determines the signature's identity columns: rows of different signatures can only coincide
    if md5, name, file name, k, molecule, num, scaled, size and abundance flag all coincide -/
theorem manifest_row_injective_on_columns (a b : Sig) (la lb : Option Name) (h : mkRow a la = mkRow b lb) :
    a.md5 = b.md5 ∧ a.name = b.name ∧ a.filename = b.filename ∧ a.ksize = b.ksize ∧ a.mol = b.mol ∧
    a.num = b.num ∧ a.scaled = b.scaled ∧ a.hashes.length = b.hashes.length ∧ a.track = b.track ∧ la = lb := by
  simp only [mkRow, Row.mk.injEq] at h
  obtain ⟨h1, h2, _, h4, h5, h6, h7, h8, h9, h10, h11⟩ := h
  exact ⟨h2, h10, h11, h4, h5, h6, h7, h8, h9, h1⟩

/-! ## zip collections over create-then-append sessions -/

/-- `z` holds exactly `saved` (in this order) with a truthful manifest:
    * the manifest has one row per saved signature, in order, each row = `mkRow` of the signature at the
      member name it was given (an `<md5>` / `<md5>_n` name for the signature's own md5);
    * the member a row points to holds exactly that signature;
    * there is no signature member the manifest does not list;
    * reloading yields exactly the saved signatures as a set; and when no signature was saved twice, it
      yields the saved list itself, in order, and rows and members are in bijection. -/
structure Faithful (z : Zip) (saved : List Sig) : Prop where
  rows_members : ∃ placed : Placed, placed.map (·.2) = saved ∧
    zipManifest z = some (placed.map fun p => mkRow p.2 (some (.sig p.1))) ∧
    (∀ p ∈ placed, read z (.sig p.1) = some (.sigs [p.2]) ∧ p.1.md5 = p.2.md5) ∧
    (∀ m c, read z (.sig m) = some c → ∃ p ∈ placed, p.1 = m) ∧
    (saved.Nodup → (placed.map (·.1)).Nodup)
  load_set : ∃ out, zipLoad z = .ok out ∧ ∀ s, s ∈ out ↔ s ∈ saved
  load_exact : saved.Nodup → zipLoad z = .ok saved

theorem faithful_of_good (z : Zip) (placed : Placed) (saved : List Sig) (hg : Good z placed)
    (hs : placed.map (·.2) = saved) : Faithful z saved := by
  subst hs
  refine ⟨⟨placed, rfl, ?_, hg.holds, hg.noOrphan, placed_locs_nodup z placed hg⟩,
    zipLoad_good_mem z placed hg, zipLoad_good_nodup z placed hg⟩
  simp only [zipManifest, hg.manifest]
  rfl

/-- the source, as read by the translator on this run, has the repaired variant in all three places -/
theorem source_has_the_repaired_variants :
    Sm.Gen.zipNameConsultsBuffer = true ∧ Sm.Gen.sqliteRecordsSeed = true ∧ Sm.Gen.lcaYieldsEmpty = true := by
  decide

/-- MAIN STATEMENT for zip collections (current source: `_content_matches` also looks into `bufferzip`).
    EVERY sequence of create-then-append sessions is stored faithfully: manifest rows in save order with
    every column from the signature and the member actually holding it, no unlisted member, reload = the
    saved signatures as a set, and = the saved list, in order, when no signature was saved twice. -/
theorem zip_sessions_faithful (s0 : List Sig) (rest : List (List Sig)) :
    ∃ z, zipSessions none (s0 :: rest) = .ok (some z) ∧ Faithful z (s0 :: rest).flatten := by
  obtain ⟨z0, p0, h0, hg0, hm0⟩ := zipSession_create s0
  obtain ⟨z, placed, h1, hg, hm⟩ := zipSessions_from_good rest z0 p0 hg0
  refine ⟨z, by simp [zipSessions, h0, h1], faithful_of_good z placed _ hg ?_⟩
  rw [hm, hm0]; simp

/-- `_generate_filename`: the `_n` search terminates (the fuel is never exhausted), returns a name for this
    md5, "don't write" only when the very content is already there, "write" only on a name that is free in
    everything the search can see (`rd`; `N` lists the names `rd` knows) -/
theorem generate_filename_spec (rd : Name → Option Content) (N : List Name) (hN : ∀ n, rd n ≠ none → n ∈ N)
    (fuel : Nat) (hfuel : N.length < fuel) (md5 : Nat) (c : Content) :
    (∃ sfx, (genNameR rd fuel md5 c).1 = .sig ⟨md5, sfx⟩) ∧
    ((genNameR rd fuel md5 c).2 = false → rd (genNameR rd fuel md5 c).1 = some c) ∧
    ((genNameR rd fuel md5 c).2 = true → rd (genNameR rd fuel md5 c).1 = none) :=
  genNameR_spec rd N hN fuel hfuel md5 c

/-- the two instances the saver uses: writable zip (sees its own writes) and on-disk zip + buffer -/
theorem generate_filename_instances (zf b : Zip) (md5 : Nat) (c : Content) :
    ((genName zf md5 c).2 = true → read zf (genName zf md5 c).1 = none) ∧
    ((genNameR (readBoth zf b) (zf.length + b.length + 1) md5 c).2 = true →
      readBoth zf b (genNameR (readBoth zf b) (zf.length + b.length + 1) md5 c).1 = none) :=
  ⟨(genName_spec zf md5 c).2.2, (genNameBoth_spec zf b md5 c).2.2⟩

/-
FULL STATEMENT (not proved / false): multiset equality

  ∀ sessions, ∃ out, zipLoad (result) = .ok out ∧ out.Perm sessions.flatten ∧ rows ↔ members bijection

fails for a signature that is saved TWICE (finding C10.1): the storage is content-addressed, the second
save returns the existing member, the manifest gets a second row: one member, two rows, one signature
returned (`zip_exact_duplicate_counterexample`).  `zip_sessions_faithful` gives the set equality for all
inputs and the list equality when nothing is saved twice.
-/

/-! ### regression theorems about the OLD variant (before commit 44244bd: name search blind to the buffer) -/

/-- old variant: faithful only if no append session adds two DIFFERENT signatures with one md5 -/
theorem old_variant_zip_sessions_faithful_partial (s0 : List Sig) (rest : List (List Sig))
    (happ : ∀ l ∈ rest, ∀ a ∈ l, ∀ b ∈ l, a.md5 = b.md5 → a = b) :
    ∃ z, zipSessionsOld none (s0 :: rest) = .ok (some z) ∧ Faithful z (s0 :: rest).flatten := by
  obtain ⟨z0, p0, h0, hg0, hm0⟩ := zipSessionOld_create s0
  obtain ⟨z, placed, h1, hg, hm⟩ := zipSessionsOld_from_good rest z0 p0 hg0 happ
  refine ⟨z, by simp [zipSessionsOld, h0, h1], faithful_of_good z placed _ hg ?_⟩
  rw [hm, hm0]; simp

def sigA : Sig := { name := 1, filename := 0, md5 := 100, ksize := 21, mol := 0, num := 0, scaled := 1,
                    seed := 42, track := false, hashes := [(1, 1), (2, 1), (3, 1)] }
def sigB : Sig := { sigA with name := 2 }
def sigC : Sig := { name := 3, filename := 0, md5 := 200, ksize := 21, mol := 0, num := 0, scaled := 1,
                    seed := 42, track := false, hashes := [(5, 1), (9223372036854775813, 1)] }

/-- D10 (fixed by 44244bd), kernel-checked on the OLD variant: create a zip holding C; reopen it and add A and B (equal md5, different names).
    The file then holds members for C and B only, reloading yields [C, B], A is lost — while the manifest
    has three rows, the one for A pointing at the member that holds B. -/
theorem old_variant_zip_append_same_md5_counterexample :
    ∃ z, zipSessionsOld none [[sigC], [sigA, sigB]] = .ok (some z) ∧
      zipLoad z = .ok [sigC, sigB] ∧
      zipManifest z = some [mkRow sigC (some (.sig ⟨200, none⟩)), mkRow sigA (some (.sig ⟨100, none⟩)),
                            mkRow sigB (some (.sig ⟨100, none⟩))] ∧
      read z (.sig ⟨100, none⟩) = some (.sigs [sigB]) ∧ (sigMembers z).length = 2 := by
  refine ⟨_, rfl, ?_, ?_, ?_, ?_⟩ <;> decide

/-- hence the main statement was false for the old variant -/
theorem old_variant_zip_sessions_faithful_is_false :
    ¬ ∀ sessions : List (List Sig), ∀ z, zipSessionsOld none sessions = .ok (some z) →
        ∃ out, zipLoad z = .ok out ∧ ∀ s, s ∈ sessions.flatten → s ∈ out := by
  intro h
  obtain ⟨out, ho, hall⟩ := h [[sigC], [sigA, sigB]] _ rfl
  have hA := hall sigA (by decide)
  have : zipLoad ((zipSessionsOld none [[sigC], [sigA, sigB]]).rec (fun o => o.getD []) (fun _ => [])) = .ok [sigC, sigB] := by decide
  have e : out = [sigC, sigB] := by
    have h2 : zipLoad ((zipSessionsOld none [[sigC], [sigA, sigB]]).rec (fun o => o.getD []) (fun _ => [])) = .ok out := ho
    rw [this] at h2
    cases h2; rfl
  rw [e] at hA
  revert hA; decide

/-- the same input with the current source: B gets `<md5>_0`, all three come back, in order -/
theorem zip_append_same_md5_regression :
    ∃ z, zipSessions none [[sigC], [sigA, sigB]] = .ok (some z) ∧
      zipLoad z = .ok [sigC, sigA, sigB] ∧ (sigMembers z).length = 3 := by
  refine ⟨_, rfl, ?_, ?_⟩ <;> decide

/-- C10.1, kernel-checked (current source): the same signature saved twice in a create session is ONE member
    and TWO manifest rows; one signature is returned (the multiset is not preserved, the set is) -/
theorem zip_exact_duplicate_counterexample :
    ∃ z, zipSessions none [[sigA, sigA]] = .ok (some z) ∧ zipLoad z = .ok [sigA] ∧
      (zipManifest z).map List.length = some 2 ∧ (sigMembers z).length = 1 := by
  refine ⟨_, rfl, ?_, ?_, ?_⟩ <;> decide

/-- C10.4, kernel-checked: A and B (equal md5, different names) saved to a zip.  Reloading is faithful, but
    the manifest REBUILT from the members (`get_manifest(rebuild=True)`, what `sourmash sig manifest`
    does) lists A only: B lives in `<md5>.sig.gz_0`, a name that does not end in `.sig`/`.sig.gz` -/
theorem zip_rebuilt_manifest_counterexample :
    ∃ z, zipSessions none [[sigA, sigB]] = .ok (some z) ∧ zipLoad z = .ok [sigA, sigB] ∧
      zipRebuildManifest z = [mkRow sigA (some (.sig ⟨100, none⟩))] := by
  refine ⟨_, rfl, ?_, ?_⟩ <;> decide

/-- ... while for signatures with pairwise different md5 every member is `<md5>.sig.gz` (the rebuilt
    manifest of the example is the stored one) -/
theorem zip_rebuilt_manifest_example :
    ∃ z, zipSessions none [[sigA], [sigC]] = .ok (some z) ∧
      zipRebuildManifest z = [mkRow sigA (some (.sig ⟨100, none⟩)), mkRow sigC (some (.sig ⟨200, none⟩))] ∧
      zipManifest z = some (zipRebuildManifest z) := by
  refine ⟨_, rfl, ?_, ?_⟩ <;> decide

/-- C10.5, kernel-checked: a standalone manifest in SQLite format over that zip keeps one row per
    (location, md5); reloading through it returns A only, through a CSV manifest both -/
theorem sql_manifest_counterexample :
    let rows := [mkRow sigA (some (.other 0)), mkRow sigB (some (.other 0)), mkRow sigC (some (.other 0))]
    sqlManifestKeep rows = [mkRow sigA (some (.other 0)), mkRow sigC (some (.other 0))] ∧
    standaloneLoad (sqlManifestKeep rows) [sigA, sigB, sigC] = [sigA, sigC] ∧
    standaloneLoad rows [sigA, sigB, sigC] = [sigA, sigB, sigC] := by
  refine ⟨?_, ?_, ?_⟩ <;> decide

/-! ## SBT leaves: a freshly created zip, same name search -/

theorem sbtLoad_good (z : Zip) (placed : Placed) (hg : Good z placed) (hnd : (placed.map (·.2)).Nodup) :
    sbtLoad z = .ok (placed.map (·.2)) := by
  have hlocs : locations (placed.map rowOf) = placed.map (fun p => some (Name.sig p.1)) := by
    have e : (placed.map rowOf).map (·.loc) = placed.map (fun p => some (Name.sig p.1)) := by
      simp [List.map_map, Function.comp, rowOf, mkRow]
    rw [locations, e]
    apply dedup_of_nodup
    have := placed_locs_nodup z placed hg hnd
    rw [List.Nodup, List.pairwise_map] at this ⊢
    apply List.Pairwise.imp _ this
    intro p q hne e
    apply hne
    simpa using e
  simp only [sbtLoad, hg.manifest, hlocs]
  have : ∀ (l : Placed), (∀ p ∈ l, p ∈ placed) →
      (l.map (fun p => some (Name.sig p.1))).foldr (fun loc acc =>
        match loc, acc with
        | some n, .ok more =>
          match read z n with
          | some (.sigs (s :: _)) => .ok (s :: more)
          | _ => .err .fileNotFound
        | _, .err e => .err e
        | none, _ => .err .fileNotFound) (.ok []) = Res.ok (l.map (·.2)) := by
    intro l
    induction l with
    | nil => intro _; rfl
    | cons p t ih =>
      intro hsub
      simp only [List.map_cons, List.foldr_cons]
      rw [ih (fun q hq => hsub q (by simp [hq]))]
      simp [(hg.holds p (hsub p (by simp))).1]
  exact this placed (fun p hp => hp)

/-- the leaves of a saved SBT come back exactly (no signature saved twice; otherwise as for zips: one
    member, two rows) -/
theorem sbt_leaves_roundtrip_partial (sigs : List Sig) (hnd : sigs.Nodup) : sbtLoad (sbtSave sigs) = .ok sigs := by
  obtain ⟨ho, inv⟩ := sinv_open_none
  obtain ⟨new, inv', hmap⟩ := sinv_fold sigs _ [] [] inv
  have hg := good_close _ _ _ inv'
  simp only [List.nil_append, List.map_nil] at hg hmap
  have := sbtLoad_good _ new hg (by rw [hmap]; exact hnd)
  rw [hmap] at this
  exact this

/-! ## directory output: full strength (every `add` is a new file, duplicates of every kind included) -/

theorem dir_sessions_faithful (sessions : List (List Sig)) :
    ∃ placed : Placed, dirSessions [] sessions = placed.map (fun p => (Name.sig p.1, Content.sigs [p.2])) ∧
      placed.map (·.2) = sessions.flatten ∧ (placed.map (·.1)).Nodup ∧ (∀ p ∈ placed, p.1.md5 = p.2.md5) ∧
      dirLoad (dirSessions [] sessions) = sessions.flatten ∧
      dirManifest (dirSessions [] sessions) = placed.map fun p => mkRow p.2 (some (.sig p.1)) := by
  obtain ⟨new, h1, h2, h3, h4⟩ := dir_fold sessions.flatten [] (by simp)
  simp only [List.map_nil, List.nil_append] at h1 h3
  refine ⟨new, h1, h2, h3, h4, ?_, ?_⟩
  · unfold dirSessions; rw [h1, dirLoad_placed, h2]
  · unfold dirSessions; rw [h1, dirManifest_placed]; rfl

/-- a single JSON file holds what the last session wrote (a second session on the same path truncates) -/
theorem sigfile_roundtrip (l : List Sig) (earlier : List (List Sig)) : sigfileSessions (earlier ++ [l]) = l := by
  simp [sigfileSessions]

/-- ... and an EMPTY set saved to a JSON file or a directory cannot be reloaded: the generic loader
    refuses it (loudly).  Recorded as a finding: the statement asks for the empty set back. -/
theorem empty_collection_refused : multiIndexLoad [] = .err .valueError ∧
    ∀ l : List Sig, l ≠ [] → multiIndexLoad l = .ok l := by
  refine ⟨rfl, ?_⟩
  intro l hl
  cases l with
  | nil => exact absurd rfl hl
  | cons a t => rfl

/-! ## SQLite -/

theorem sqlite_max_int_matches_source : maxSqliteInt = Sm.Gen.maxSqliteInt := by decide

/-- `convert_hash_from ∘ convert_hash_to = id` on u64 -/
theorem sqlite_convert_roundtrip (x : Nat) (h : x < 2 ^ 64) : convertHashFrom (convertHashTo x) = x :=
  convert_roundtrip x h

/-- the stored value fits SQLite's signed 64-bit INTEGER -/
theorem sqlite_convert_range (x : Nat) (h : x < 2 ^ 64) :
    -(2 : Int) ^ 63 ≤ convertHashTo x ∧ convertHashTo x < (2 : Int) ^ 63 := convert_range x h

/-- order facts: the mapping is monotone on each half, the halves are swapped, and "stored value ≥ 0" is
    exactly "hash ≤ MAX_SQLITE_INT" (what the `hashval >= 0 AND hashval <= max_hash` constraints rely on) -/
theorem sqlite_convert_order (x y : Nat) (hx : x < 2 ^ 64) (hy : y < 2 ^ 64) :
    (x ≤ maxSqliteInt → y ≤ maxSqliteInt → (convertHashTo x ≤ convertHashTo y ↔ x ≤ y)) ∧
    (maxSqliteInt < x → maxSqliteInt < y → (convertHashTo x ≤ convertHashTo y ↔ x ≤ y)) ∧
    (x ≤ maxSqliteInt → maxSqliteInt < y → convertHashTo y < 0 ∧ 0 ≤ convertHashTo x) ∧
    (0 ≤ convertHashTo x ↔ x ≤ maxSqliteInt) ∧
    (convertHashTo x = convertHashTo y → x = y) :=
  ⟨convert_mono_low x y, convert_mono_high x y, fun h1 h2 => convert_cross x y h1 h2 hy,
   convert_nonneg_iff x hx, convert_injective x y hx hy⟩

/-- the general statement, for either variant of the seed column (`rs` = is the sketch's seed recorded?):
    the tables hold exactly the signatures the documented restriction admits (`sqlOk`: flat, scaled, at the
    scaled value of the first one accepted), every other `add` is refused with ValueError (flag `false`)
    and leaves the tables unchanged; reloading yields the accepted signatures in order, every field intact
    except that the seed is whatever was recorded; one correct manifest row per accepted signature -/
theorem sqlite_roundtrip_any_variant (rs : Bool) (sessions : List (List Sig))
    (hw : ∀ s ∈ sessions.flatten, s.num = 0 → s.track = false →
      FlatSorted s.hashes ∧ ∀ h ∈ s.hashes, h.1 < 2 ^ 64) :
    ∃ db, sqlSessions rs SqlDb.empty sessions = .ok (db, (sqlSpecSessions [] sessions).2) ∧
      sqlLoad db = (sqlSpecSessions [] sessions).1.map (sqlNorm rs) ∧
      sqlManifest db = (sqlSpecSessions [] sessions).1.map (mkRow · none) := by
  have h0 : SameScaled ([] : List Sig) := by intro f hf; cases hf
  have hs := sqlSessions_eq rs sessions [] h0
  refine ⟨_, hs, ?_, sqlManifest_dbOf rs _⟩
  apply sqlLoad_dbOf
  intro s hs'
  rcases sqlSpecSessions_mem sessions [] s hs' with h | ⟨hmem, hn, ht⟩
  · cases h
  · obtain ⟨h1, h2⟩ := hw s hmem hn ht
    exact ⟨hn, ht, h1, h2⟩

/-- MAIN STATEMENT for SQLite (current source: the seed is recorded).  Over any sequence of
    create-then-append sessions: exactly the admitted signatures are stored, all others are refused
    loudly, and reloading yields the accepted signatures THEMSELVES, in order -- every field including the
    seed, hashes up to 2^64-1 through the signed mapping -- with one correct manifest row each. -/
theorem sqlite_roundtrip (sessions : List (List Sig))
    (hw : ∀ s ∈ sessions.flatten, s.num = 0 → s.track = false →
      FlatSorted s.hashes ∧ ∀ h ∈ s.hashes, h.1 < 2 ^ 64) :
    ∃ db, sqlSessions true SqlDb.empty sessions = .ok (db, (sqlSpecSessions [] sessions).2) ∧
      sqlLoad db = (sqlSpecSessions [] sessions).1 ∧
      sqlManifest db = (sqlSpecSessions [] sessions).1.map (mkRow · none) := by
  obtain ⟨db, h1, h2, h3⟩ := sqlite_roundtrip_any_variant true sessions hw
  refine ⟨db, h1, ?_, h3⟩
  rw [h2]
  have : ∀ l : List Sig, l.map (sqlNorm true) = l := by
    intro l; induction l with
    | nil => rfl
    | cons a t ih => simp [sqlNorm, ih]
  exact this _

/-- what is refused and what is kept, spelled out for one `add` -/
theorem sqlite_refusal_spec (acc : List Sig) (ss : Sig) :
    sqlOk acc ss = true ↔ ss.num = 0 ∧ ss.track = false ∧ ∀ f, acc.head? = some f → f.scaled = ss.scaled := by
  unfold sqlOk
  cases acc with
  | nil => simp
  | cons g t => simp [and_assoc]

/-- regression, current source: a seed-43 sketch comes back as a seed-43 sketch -/
theorem sqlite_seed_regression :
    ∃ db fl, sqlSessions true SqlDb.empty [[{ sigA with seed := 43 }]] = .ok (db, fl) ∧
      sqlLoad db = [{ sigA with seed := 43 }] := by
  refine ⟨_, _, rfl, ?_⟩; decide

/-- C10.2 (fixed by 005b230), kernel-checked on the OLD variant: the row carried no seed, 42 was recorded -/
theorem old_variant_sqlite_seed_counterexample :
    ∃ db fl, sqlSessions false SqlDb.empty [[{ sigA with seed := 43 }]] = .ok (db, fl) ∧ fl = [[true]] ∧
      sqlLoad db = [sigA] ∧ sigA ≠ { sigA with seed := 43 } := by
  refine ⟨_, _, rfl, ?_, ?_, ?_⟩ <;> decide

/-! ## LCA databases -/

theorem lcaInserts_len (l : List Sig) : ∀ db : LcaDb,
    (lcaInserts db l).1.len = db.len + ((lcaInserts db l).2.filter id).length := by
  induction l with
  | nil => intro db; simp [lcaInserts]
  | cons s t ih =>
    intro db
    simp only [lcaInserts]
    cases h : db.insert s with
    | ok db' =>
      simp only [ih db', List.filter_cons, id, if_true, List.length_cons]
      have : db'.len = db.len + 1 := by
        unfold LcaDb.insert at h
        split at h
        · cases h
        · split at h
          · cases h
          · split at h
            · cases h
            · split at h
              · cases h
              · cases h; rfl
      omega
    | err e =>
      simp only [ih db]
      simp

/-- `len(db)` counts every accepted insert ... -/
theorem lca_len_counts_accepted (ksize scaled maxHash mol : Nat) (l : List Sig) :
    (lcaInserts (LcaDb.new ksize scaled maxHash mol) l).1.len =
      ((lcaInserts (LcaDb.new ksize scaled maxHash mol) l).2.filter id).length := by
  rw [lcaInserts_len]; simp [LcaDb.new, LcaDb.len]

def sigE : Sig := { name := 4, filename := 0, md5 := 300, ksize := 21, mol := 0, num := 0, scaled := 1,
                    seed := 42, track := false, hashes := [] }
def sigG : Sig := { name := 5, filename := 0, md5 := 400, ksize := 21, mol := 0, num := 0, scaled := 1,
                    seed := 42, track := false, hashes := [(9223372036854775815, 1)] }

/-- what an LCA database hands back for an accepted signature: its name, flat, at the database's k /
    molecule / scaled, with exactly the hash values the database keeps (`lcaKept`: the downsampled sketch,
    possibly empty) -/
def LcaImage (k sc M mol : Nat) (s : Sig) (s' : Sig) : Prop :=
  s'.name = s.name ∧ (∀ x, x ∈ s'.hashes.map (·.1) ↔ x ∈ lcaKept M s) ∧ (∀ p ∈ s'.hashes, p.2 = 1) ∧
  s'.track = false ∧ s'.num = 0 ∧ s'.scaled = sc ∧ s'.ksize = k ∧ s'.mol = mol

/-- MAIN STATEMENT for LCA databases (current source: `_signatures` creates an entry for every idx).
    For every list of inserts: an insert is accepted iff `lcaOk` (same k and molecule, a scaled sketch no
    coarser than the database, a name not yet present; every other insert raises ValueError); `len` counts
    the accepted inserts; and `signatures()` is, up to order, exactly one `LcaImage` per accepted insert --
    including the sketches that are empty at the database's scaled. -/
theorem lca_roundtrip (k sc M mol : Nat) (l : List Sig) :
    let db := (lcaInserts (LcaDb.new k sc M mol) l).1
    let acc := (lcaSpec (LcaDb.new k sc M mol) l).1
    (lcaInserts (LcaDb.new k sc M mol) l).2 = (lcaSpec (LcaDb.new k sc M mol) l).2 ∧
    db.len = acc.length ∧
    ∃ imgs : List Sig, (db.signatures true).Perm imgs ∧ imgs.length = acc.length ∧
      ∀ i (h1 : i < imgs.length) (h2 : i < acc.length), LcaImage k sc M mol (acc[i]).2 (imgs[i]) := by
  intro db acc
  obtain ⟨inv, hfl, hM, hk, hmol, hsc⟩ := lcaInserts_inv l (LcaDb.new k sc M mol) [] (lcaInv_new k sc M mol)
  simp only [List.nil_append] at inv
  have hM' : db.maxHash = M := hM
  refine ⟨hfl, inv.len, acc.map (fun e => lcaSigOf db e.1 e.2.name), signatures_perm db acc inv, by simp, ?_⟩
  intro i h1 h2
  simp only [List.getElem_map]
  have he : acc[i] ∈ acc := List.getElem_mem h2
  refine ⟨rfl, ?_, foldl_insertHash_abund _ [] (by intro p hp; cases hp), rfl, rfl, hsc, hk, hmol⟩
  intro x
  rw [lcaSigOf_hashes, inv.owns]
  constructor
  · rintro ⟨e', he', e1, e2⟩
    have : e' = acc[i] := inj_of_nodup_map acc (·.1) inv.idxNodup e' acc[i] he' he e1
    subst this
    rw [hM'] at e2; exact e2
  · intro hx
    exact ⟨acc[i], he, rfl, by rw [hM']; exact hx⟩

/-- the acceptance test of `lcaSpec`, spelled out -/
theorem lca_refusal_spec (db : LcaDb) (ss : Sig) :
    (∃ db', db.insert ss = .ok db') ↔
      ss.ksize = db.ksize ∧ ss.mol = db.mol ∧ ss.num = 0 ∧ ss.scaled ≠ 0 ∧ ss.scaled ≤ db.scaled ∧
        ss.name ∉ db.identToName.map (·.1) := by
  constructor
  · rintro ⟨db', h⟩
    cases hok : lcaOk db ss with
    | false => rw [lca_insert_err db ss hok] at h; cases h
    | true =>
      simp only [lcaOk, Bool.and_eq_true, decide_eq_true_eq, Bool.not_eq_eq_eq_not, Bool.not_true] at hok
      obtain ⟨⟨⟨⟨⟨h1, h2⟩, h3⟩, h4⟩, h5⟩, h6⟩ := hok
      exact ⟨h1, h2, h3, h4, h5, by simpa using h6⟩
  · rintro ⟨h1, h2, h3, h4, h5, h6⟩
    refine ⟨_, lca_insert_ok db ss ?_⟩
    simp only [lcaOk, Bool.and_eq_true, decide_eq_true_eq, Bool.not_eq_eq_eq_not, Bool.not_true]
    exact ⟨⟨⟨⟨⟨h1, h2⟩, h3⟩, h4⟩, h5⟩, by simpa using h6⟩

/-
Not proved in `lca_roundtrip` (covered by the `store` stream only): that the hash list handed back is in
ascending order (only its set of values and the abundances are), and the `_next_index` recomputation on
JSON load (`saveLoad`).  The loaded md5 is a function of (k, hashes) and is recomputed by the harness.
-/

/-! ### regression theorems about the OLD variant of `_signatures` (before commit 74325d9) -/

/-- old variant, every list of inserts: what is returned is an accepted signature that is NON-EMPTY at the
    database's scaled; every such signature is returned; an accepted signature that is EMPTY at the
    database's scaled is never returned (D11) although `len` counts it -/
theorem old_variant_lca_roundtrip_partial (k sc M mol : Nat) (l : List Sig) :
    let db := (lcaInserts (LcaDb.new k sc M mol) l).1
    let acc := (lcaSpec (LcaDb.new k sc M mol) l).1
    db.len = acc.length ∧
    (∀ s' ∈ db.signatures false, ∃ e ∈ acc, lcaKept M e.2 ≠ [] ∧ LcaImage k sc M mol e.2 s') ∧
    (∀ e ∈ acc, lcaKept M e.2 ≠ [] → ∃ s' ∈ db.signatures false, s'.name = e.2.name) ∧
    (∀ e ∈ acc, lcaKept M e.2 = [] → ∀ s' ∈ db.signatures false, s'.name ≠ e.2.name) := by
  intro db acc
  obtain ⟨inv, hfl, hM, hk, hmol, hsc⟩ := lcaInserts_inv l (LcaDb.new k sc M mol) [] (lcaInv_new k sc M mol)
  simp only [List.nil_append] at inv
  have hM' : db.maxHash = M := hM
  have hown : ∀ e ∈ acc, (∃ h, Owns db.hashvalToIdx h e.1) ↔ lcaKept M e.2 ≠ [] := by
    intro e he
    constructor
    · rintro ⟨h, ho⟩
      obtain ⟨e', he', e1, e2⟩ := (inv.owns h e.1).1 ho
      have : e' = e := inj_of_nodup_map acc (·.1) inv.idxNodup e' e he' he e1
      subst this
      rw [hM'] at e2
      intro hnil; rw [hnil] at e2; cases e2
    · intro hne
      cases hkept : lcaKept M e.2 with
      | nil => exact absurd hkept hne
      | cons h t =>
        exact ⟨h, (inv.owns h e.1).2 ⟨e, he, rfl, by rw [hM', hkept]; simp⟩⟩
  have hmem : ∀ s', s' ∈ db.signatures false ↔
      ∃ e ∈ acc, (∃ h, Owns db.hashvalToIdx h e.1) ∧ s' = lcaSigOf db e.1 e.2.name := by
    intro s'
    rw [mem_signatures false db acc inv s']
    constructor
    · rintro ⟨e, he, (h | h), hs⟩
      · exact ⟨e, he, h, hs⟩
      · cases h
    · rintro ⟨e, he, h, hs⟩
      exact ⟨e, he, Or.inl h, hs⟩
  refine ⟨inv.len, ?_, ?_, ?_⟩
  · intro s' hs'
    obtain ⟨e, he, hex, rfl⟩ := (hmem s').1 hs'
    refine ⟨e, he, (hown e he).1 hex, rfl, ?_, foldl_insertHash_abund _ [] (by intro p hp; cases hp),
      rfl, rfl, hsc, hk, hmol⟩
    intro x
    rw [lcaSigOf_hashes, inv.owns]
    constructor
    · rintro ⟨e', he', e1, e2⟩
      have : e' = e := inj_of_nodup_map acc (·.1) inv.idxNodup e' e he' he e1
      subst this
      rw [hM'] at e2; exact e2
    · intro hx
      exact ⟨e, he, rfl, by rw [hM']; exact hx⟩
  · intro e he hne
    exact ⟨lcaSigOf db e.1 e.2.name, (hmem _).2 ⟨e, he, (hown e he).2 hne, rfl⟩, rfl⟩
  · intro e he hnil s' hs' hname
    obtain ⟨e', he', hex, rfl⟩ := (hmem s').1 hs'
    have : e' = e := inj_of_nodup_map acc (·.2.name) inv.nameNodup e' e he' he hname
    subst this
    exact (hown e' he').1 hex hnil

/-- D11 (fixed by 74325d9), kernel-checked on the OLD variant: into a scaled=2 database (max_hash 2^63) insert
    A (3 hashes), E (empty) and G (one hash above 2^63): all three inserts succeed, `len` is 3, and
    `signatures()` yields A only -/
theorem old_variant_lca_empty_sketch_vanishes_counterexample :
    ((lcaInserts (LcaDb.new 21 2 9223372036854775808 0) [sigA, sigE, sigG]).2 = [true, true, true]) ∧
    ((lcaInserts (LcaDb.new 21 2 9223372036854775808 0) [sigA, sigE, sigG]).1.saveLoad.len = 3) ∧
    (((lcaInserts (LcaDb.new 21 2 9223372036854775808 0) [sigA, sigE, sigG]).1.saveLoad.signatures false).map (·.name) = [1]) := by
  refine ⟨?_, ?_, ?_⟩ <;> decide

/-- the same input with the current source: A, E and G all come back, E and G as empty sketches -/
theorem lca_empty_sketch_regression :
    ((lcaInserts (LcaDb.new 21 2 9223372036854775808 0) [sigA, sigE, sigG]).1.saveLoad.signatures true).map
      (fun s => (s.name, s.hashes)) = [(1, [(1, 1), (2, 1), (3, 1)]), (4, []), (5, [])] := by
  decide

/-- an instance with refusals (other k, num sketch, name already present), abundances flattened and a
    sketch downsampled, checked in the kernel -/
theorem lca_roundtrip_example :
    let r := lcaInserts (LcaDb.new 21 2 9223372036854775808 0)
      [sigC, { sigA with track := true, hashes := [(1, 5), (2, 7), (3, 9)] }, sigB, { sigB with md5 := 7 },
       { sigA with name := 9, ksize := 31 }, { sigA with name := 8, num := 5, scaled := 0 }]
    r.2 = [true, true, true, false, false, false] ∧
    (r.1.saveLoad.signatures true).map (fun s => (s.name, s.hashes)) =
      [(3, [(5, 1)]), (1, [(1, 1), (2, 1), (3, 1)]), (2, [(1, 1), (2, 1), (3, 1)])] := by
  refine ⟨?_, ?_⟩ <;> decide

/-! ## which loader / which saver -/

/-- every function registered with `@add_loader` in save_load.py is one the model knows -/
theorem loader_table_recognised : (resolveLoaders Sm.Gen.loaderPriorities).isSome = true := by decide

/-- the registered priorities are pairwise distinct (so `sorted(...)` never compares function objects) -/
theorem loader_priorities_distinct : (Sm.Gen.loaderPriorities.map (·.1)).Nodup := by decide

def loaderTable : List (Nat × Loader) := (resolveLoaders Sm.Gen.loaderPriorities).getD []

def expectedWinner : FileKind → Res IndexClass
  | .sigJson => .ok .multiIndex
  | .sigGz => .ok .multiIndex
  | .directory => .ok .multiIndex
  | .zipColl => .ok .zipFileLinearIndex
  | .sqldbIndex => .ok .sqliteIndex
  | .sqlManifest => .ok .standaloneManifestIndex
  | .csvManifest => .ok .standaloneManifestIndex
  | .pathlist => .ok .multiIndex
  | .sbtZip => .ok .sbt
  | .sbtJson => .ok .sbt
  | .lcaJson => .ok .lcaDatabase
  | .lcaSqldb => .ok .lcaSqliteDatabase
  | .fasta => .err .exception
  | .emptyText => .err .valueError
  | .missing => .err .valueError

/-- with the priorities found in the source, every kind of file is opened by the loader that understands
    it fully: in particular an `.sbt.zip` is an SBT (not an empty ZipFileLinearIndex, which the zip loader
    would also return), a `.sqldb` index is a SqliteIndex and an LCA `.sqldb` an LCA database (not the
    bare StandaloneManifestIndex the manifest loader would also return) -/
theorem loader_choice (k : FileKind) : loadChain loaderTable k = expectedWinner k := by
  cases k <;> decide

/-- the savers, in the priority order of `_save_classes`, with the predicates of their `matches` -/
def saverFor (table : List (Nat × String × String)) (isNone : Bool) (suffix : String) : Option String :=
  let sorted := table.foldr (fun x acc =>
    let rec ins : List (Nat × String × String) → List (Nat × String × String)
      | [] => [x]
      | y :: t => if x.1 < y.1 then x :: y :: t else y :: ins t
    ins acc) []
  (sorted.find? fun e =>
    match e.2.2 with
    | "none" => isNone
    | "any" => !isNone
    | p => !isNone && p = "suffix:" ++ suffix).map (·.2.1)

/-- `SaveSignaturesToLocation`: `None` -> no output, `x/` -> directory, `.zip` -> zip, `.sqldb` -> SQLite,
    anything else -> one JSON file -/
theorem save_choice :
    saverFor Sm.Gen.saveClasses true "" = some "SaveSignatures_NoOutput" ∧
    saverFor Sm.Gen.saveClasses false "/" = some "SaveSignatures_Directory" ∧
    saverFor Sm.Gen.saveClasses false ".zip" = some "SaveSignatures_ZipFile" ∧
    saverFor Sm.Gen.saveClasses false ".sqldb" = some "SaveSignatures_SqliteIndex" ∧
    saverFor Sm.Gen.saveClasses false ".sig" = some "SaveSignatures_SigFile" ∧
    saverFor Sm.Gen.saveClasses false ".sig.gz" = some "SaveSignatures_SigFile" := by
  decide

/-! ## non-vacuity -/

-- the hypotheses of `zip_sessions_faithful_partial` are satisfiable by a non-trivial history with equal
-- md5 under different names (in the create session and across sessions) and a duplicate
example : ∃ z, zipSessionsOld none [[sigA, sigB, sigA], [sigC, sigA], [sigB]] = .ok (some z) ∧
    Faithful z [sigA, sigB, sigA, sigC, sigA, sigB] :=
  old_variant_zip_sessions_faithful_partial [sigA, sigB, sigA] [[sigC, sigA], [sigB]] (by decide)

example : zipLoad ((zipSessions none [[sigA, sigB], [sigC, sigB, { sigA with name := 7 }]]).rec (fun o => o.getD []) (fun _ => [])) =
    .ok [sigA, sigB, sigC, { sigA with name := 7 }] := by decide

example : zipLoad ((zipSessionsOld none [[sigA, sigB], [sigC]]).rec (fun o => o.getD []) (fun _ => [])) =
    .ok [sigA, sigB, sigC] := by decide

-- SQLite: a session history with refusals and hashes above 2^63
example : ∃ db, sqlSessions true SqlDb.empty [[sigC, { sigA with num := 5 }], [sigA, { sigB with scaled := 2 }]] =
      .ok (db, [[true, false], [true, false]]) ∧ sqlLoad db = [sigC, sigA] := by
  refine ⟨_, rfl, ?_⟩; decide

example : FlatSorted sigC.hashes ∧ ∀ h ∈ sigC.hashes, h.1 < 2 ^ 64 := by
  refine ⟨by simp [FlatSorted, sigC], by decide⟩

example : convertHashTo 9223372036854775813 = -9223372036854775803 := by decide

end Sm.C10
