/-
C17 — ANI estimates are well-formed functions of containment or Jaccard.   (PARTIAL by nature)

PROVED (this file):
* over ℝ (Mathlib `Real.rpow`), for every k ≥ 1: `aniC c k = c^(1/k)` and `aniJ j k = (2j/(1+j))^(1/k)`
  lie in [0,1] on [0,1] (`range_c`, `range_j`), are 1 at 1 and 0 at 0 (`at_one_*`, `at_zero_*`) and nowhere
  else (`one_iff_identical_*`, `zero_iff_disjoint_*`), are strictly increasing (`strict_mono_*`); the distance the
  code computes — including its exact `== 0` / `== 1` branches — is `1 - ani` (`code_dist_*`), is never refused
  by `check_distance` on [0,1] (`attainable_never_refused_*`); the native `ani_from_containment` is the same
  function (`native_same_closed_form`).
* exact decision logic of `ANIResult` / `jaccardANIResult` / `ciANIResult` (model: Model/AniResult.lean, generic in
  the number type; no floats involved): `withheld_*` (size_is_inaccurate ∨ je_exceeds_threshold → ani = None),
  `reported_iff_*`, `constructed_iff_in_range`, `reported_in_range`, `je_flag_iff`, `ci_withheld_iff`,
  `ci_bounds_checked`, `ci_brackets_if_present` (UNDER THE STATED HYPOTHESIS that the root finder returns
  sol2 ≤ point ≤ sol1), `avg_none_iff_any_none`, `avg_in_range`, `size_flag_iff`.
* the MinHash wrappers, with the two `size_is_accurate()` answers as parameters: `mh_containment_withheld_iff`,
  `mh_max_containment_withheld_iff`, `mh_avg_withheld_iff` (ANI withheld iff NOT both accurate),
  `mh_jaccard_withheld_iff` (… or je_exceeds_threshold).
* the comparison / result classes as plumbing over the MinHash-level answers: `avg_some_iff`, `max_some_iff`, `max_none_iff`,
  `present_values_are_used`, `zero_is_a_present_value` (0.0 is a present value), `prefetch_fields`, `prefetch_withheld_iff`,
  `prefetch_withheld_iff_unreliable`, `csv_cell_written_iff`, `search_ani_source`; regression `falsy_zero_counterexample`;
  compare-level entry points: `compare_entry_withheld_is_zero`, `compare_avg_entry`.
* `size_is_accurate` decision structure (binom.cdf / pmf as parameters): `size_is_accurate_iff`,
  `size_is_accurate_refusals`, `exact_prob_branches`, `size_accuracy_monotone`.
* float-free interval laws: `point_is_root_of_noise_free_equation`, `ci_roots_bracket_point` (the ordering hypothesis of
  `ci_brackets_if_present` follows from strict monotonicity of f1, f2), `ci_wider_with_confidence`, `z_alpha_laws`.
* the native interval: `native_ci_fabricated_counterexample` — a failed root search becomes the bound 1.0
  (finding D17, `unwrap_or_default`; EXECUTED since the rust-harness `ani` module: e.g.
  `ani_ci_from_containment(0.5, 21, 1000, 5, 0.95) = (1.0, 1.0)`), where the Python twin withholds
  (`python_ci_withheld_on_failure`).

NOT PROVED (tied by correspondence only, tolerance 1e-12 relative, see harness/streams/ani.py):
the binary64 rounding of `**` / `pow`, `exp`, `log`, of `var_n_mutated` (finding D16: cancellation makes it
negative for Jaccard ≈ 1 - 1e-7 → ValueError), `scipy.optimize.brentq`, `scipy.stats.norm.ppf`, `binom.cdf`
(`size_is_accurate`).  Monotonicity in binary64 is only weak ((1 - 2^-53)^(1/21) rounds to 1.0).
Python vs native: `ani_utils.rs` is not reachable through the Python FFI (`include/sourmash.h` exports no ANI
function); it is executed through the out-of-tree rust-harness (`smharness ani`: the two pub functions through the
sourmash crate, the private helpers through a textual include of the same file) next to the Python twin and this model
(Model/AniResult.lean `rust*`: bit-exact for the +-*/ shapes incl. `powi`, statrs / roots not modelled).
-/
import SmVerif.Lemmas.AniReal

namespace Sm.C17

open Sm.Ani

/-! ### closed forms over ℝ -/

theorem range_c {c : ℝ} (h0 : 0 ≤ c) (h1 : c ≤ 1) (k : ℕ) : 0 ≤ aniC c k ∧ aniC c k ≤ 1 :=
  ⟨aniC_nonneg h0 k, aniC_le_one h0 h1 k⟩

theorem range_j {j : ℝ} (h0 : 0 ≤ j) (h1 : j ≤ 1) (k : ℕ) : 0 ≤ aniJ j k ∧ aniJ j k ≤ 1 :=
  ⟨aniJ_nonneg h0 k, aniJ_le_one h0 h1 k⟩

theorem at_one_c (k : ℕ) : aniC 1 k = 1 := aniC_one k
theorem at_one_j (k : ℕ) : aniJ 1 k = 1 := aniJ_one k
theorem at_zero_c {k : ℕ} (hk : 1 ≤ k) : aniC 0 k = 0 := aniC_zero hk
theorem at_zero_j {k : ℕ} (hk : 1 ≤ k) : aniJ 0 k = 0 := aniJ_zero hk

theorem strict_mono_c {k : ℕ} (hk : 1 ≤ k) : StrictMonoOn (fun c => aniC c k) (Set.Ici 0) := aniC_strictMonoOn hk
theorem strict_mono_j {k : ℕ} (hk : 1 ≤ k) : StrictMonoOn (fun j => aniJ j k) (Set.Ici 0) := aniJ_strictMonoOn hk

theorem one_iff_identical_c {k : ℕ} (hk : 1 ≤ k) {c : ℝ} (h0 : 0 ≤ c) (h1 : c ≤ 1) : aniC c k = 1 ↔ c = 1 := by
  constructor
  · intro h
    rcases lt_or_eq_of_le h1 with hlt | heq
    · have := strict_mono_c hk (Set.mem_Ici.mpr h0) (Set.mem_Ici.mpr zero_le_one) hlt
      simp only [aniC_one] at this
      linarith
    · exact heq
  · intro h; rw [h]; exact aniC_one k

theorem zero_iff_disjoint_c {k : ℕ} (hk : 1 ≤ k) {c : ℝ} (h0 : 0 ≤ c) : aniC c k = 0 ↔ c = 0 := by
  constructor
  · intro h
    rcases lt_or_eq_of_le h0 with hlt | heq
    · have := strict_mono_c hk (Set.mem_Ici.mpr (le_refl 0)) (Set.mem_Ici.mpr h0) hlt
      simp only [aniC_zero hk] at this
      linarith
    · exact heq.symm
  · intro h; rw [h]; exact aniC_zero hk

theorem one_iff_identical_j {k : ℕ} (hk : 1 ≤ k) {j : ℝ} (h0 : 0 ≤ j) (h1 : j ≤ 1) : aniJ j k = 1 ↔ j = 1 := by
  constructor
  · intro h
    rcases lt_or_eq_of_le h1 with hlt | heq
    · have := strict_mono_j hk (Set.mem_Ici.mpr h0) (Set.mem_Ici.mpr zero_le_one) hlt
      simp only [aniJ_one] at this
      linarith
    · exact heq
  · intro h; rw [h]; exact aniJ_one k

theorem zero_iff_disjoint_j {k : ℕ} (hk : 1 ≤ k) {j : ℝ} (h0 : 0 ≤ j) : aniJ j k = 0 ↔ j = 0 := by
  constructor
  · intro h
    rcases lt_or_eq_of_le h0 with hlt | heq
    · have := strict_mono_j hk (Set.mem_Ici.mpr (le_refl 0)) (Set.mem_Ici.mpr h0) hlt
      simp only [aniJ_zero hk] at this
      linarith
    · exact heq.symm
  · intro h; rw [h]; exact aniJ_zero hk

/-- the code's distance (`1.0 - containment ** (1.0 / ksize)`, with its exact branches at 0 and 1): ANI = 1 - dist -/
theorem code_dist_c {k : ℕ} (hk : 1 ≤ k) (c : ℝ) : 1 - distCodeC c k = aniC c k := by
  rw [distCodeC_eq hk]; ring

theorem code_dist_j {k : ℕ} (hk : 1 ≤ k) (j : ℝ) : 1 - distCodeJ j k = aniJ j k := by
  rw [distCodeJ_eq hk]; ring

/-- `check_distance` accepts the distance of every containment in [0,1] -/
theorem attainable_never_refused_c {k : ℕ} (hk : 1 ≤ k) {c : ℝ} (h0 : 0 ≤ c) (h1 : c ≤ 1) :
    checkDistance (distCodeC c k) = .ok (distCodeC c k) := by
  rw [checkDistance_ok_iff]
  have := range_c h0 h1 k
  rw [distCodeC_eq hk]
  exact ⟨⟨by linarith [this.2], by linarith [this.1]⟩, rfl⟩

theorem attainable_never_refused_j {k : ℕ} (hk : 1 ≤ k) {j : ℝ} (h0 : 0 ≤ j) (h1 : j ≤ 1) :
    checkDistance (distCodeJ j k) = .ok (distCodeJ j k) := by
  rw [checkDistance_ok_iff]
  have := range_j h0 h1 k
  rw [distCodeJ_eq hk]
  exact ⟨⟨by linarith [this.2], by linarith [this.1]⟩, rfl⟩

/-- `ani_from_containment` (ani_utils.rs) and `1 - containment_to_distance(..).dist` are the same function -/
theorem native_same_closed_form {k : ℕ} (hk : 1 ≤ k) (c : ℝ) : rustAniR c k = 1 - distCodeC c k := by
  rw [rustAniR_eq hk, code_dist_c hk]

/-! ### decision logic (exact) -/

section Generic

variable {V : Type} [LE V] [LT V] [DecidableLE V] [DecidableLT V] [Sub V] [OfNat V 0] [OfNat V 1]

theorem withheld_ani (r : ANIResult V) (h : r.sizeIsInaccurate = true) : r.ani = none := by
  simp [ANIResult.ani, h]

theorem withheld_jaccard (r : JaccardANIResult V) (h : r.sizeIsInaccurate = true ∨ r.jeExceeds = true) :
    r.ani = none := by
  rcases h with h | h <;> simp [JaccardANIResult.ani, h]

theorem withheld_ci (r : CiANIResult V) (h : r.sizeIsInaccurate = true) :
    r.ani = none ∧ r.aniLow = none ∧ r.aniHigh = none := by
  refine ⟨by simp [CiANIResult.ani, ANIResult.ani, h], ?_, ?_⟩
  · unfold CiANIResult.aniLow; cases r.distHigh <;> simp [h]
  · unfold CiANIResult.aniHigh; cases r.distLow <;> simp [h]

theorem reported_iff_ani (r : ANIResult V) (a : V) : r.ani = some a ↔ r.sizeIsInaccurate = false ∧ a = 1 - r.dist := by
  unfold ANIResult.ani
  cases r.sizeIsInaccurate <;> simp [eq_comm]

theorem reported_iff_jaccard (r : JaccardANIResult V) (a : V) :
    r.ani = some a ↔ r.sizeIsInaccurate = false ∧ r.jeExceeds = false ∧ a = 1 - r.dist := by
  unfold JaccardANIResult.ani
  cases r.sizeIsInaccurate <;> cases r.jeExceeds <;> simp [eq_comm]

/-- the threshold flags: `threshold is not None and value > threshold` -/
theorem je_flag_iff (e : V) (thr : Option V) : exceeds e thr = true ↔ ∃ t, thr = some t ∧ t < e := by
  cases thr with
  | none => simp [exceeds]
  | some t => simp [exceeds]

theorem ci_withheld_iff (r : CiANIResult V) :
    (r.aniLow = none ↔ r.distHigh = none ∨ r.sizeIsInaccurate = true) ∧
    (r.aniHigh = none ↔ r.distLow = none ∨ r.sizeIsInaccurate = true) := by
  constructor
  · unfold CiANIResult.aniLow; cases r.distHigh <;> cases r.sizeIsInaccurate <;> simp
  · unfold CiANIResult.aniHigh; cases r.distLow <;> cases r.sizeIsInaccurate <;> simp

theorem size_flag_iff (a b : Bool) : sizeFlag a b = true ↔ a = false ∨ b = false := by
  cases a <;> cases b <;> simp [sizeFlag]

theorem avg_none_iff_any_none (avg : V → V → V) (a1 a2 : Option V) :
    avgAni avg a1 a2 = none ↔ a1 = none ∨ a2 = none := by
  cases a1 <;> cases a2 <;> simp [avgAni]

end Generic

/-- a result object exists iff the distance is in [0,1]; otherwise the constructor raises ValueError -/
theorem constructed_iff_in_range (d p : ℝ) (t : Option ℝ) (s : Bool) :
    (∃ r, ANIResult.new d p t s = .ok r) ↔ (0 ≤ d ∧ d ≤ 1) := by
  constructor
  · rintro ⟨r, hr⟩
    have := ANIResult.new_ok hr
    exact ⟨this.1, this.2.1⟩
  · intro h
    cases hc : ANIResult.new d p t s with
    | ok r => exact ⟨r, rfl⟩
    | error e => exact absurd h ((ANIResult.new_error_iff d p t s).mp ⟨e, hc⟩)

/-- every reported point estimate lies in [0,1] -/
theorem reported_in_range {d p : ℝ} {t : Option ℝ} {s : Bool} {r : ANIResult ℝ} (h : ANIResult.new d p t s = .ok r)
    {a : ℝ} (ha : r.ani = some a) : 0 ≤ a ∧ a ≤ 1 := by
  have hn := ANIResult.new_ok h
  have := (reported_iff_ani r a).mp ha
  rw [this.2, hn.2.2.1]
  exact ⟨by linarith [hn.2.1], by linarith [hn.1]⟩

theorem ci_new_ok {d p : ℝ} {t : Option ℝ} {s : Bool} {lo hi : Option ℝ} {r : CiANIResult ℝ}
    (h : CiANIResult.new d p t s lo hi = .ok r) :
    0 ≤ d ∧ d ≤ 1 ∧ r.dist = d ∧ r.sizeIsInaccurate = s ∧ r.distLow = lo ∧ r.distHigh = hi ∧
      (∀ l u, lo = some l → hi = some u → (0 ≤ l ∧ l ≤ 1) ∧ (0 ≤ u ∧ u ≤ 1)) := by
  unfold CiANIResult.new at h
  cases hb : ANIResult.new d p t s with
  | error e => rw [hb] at h; cases h
  | ok base =>
    rw [hb] at h
    have hn := ANIResult.new_ok hb
    cases lo with
    | none =>
      cases h
      exact ⟨hn.1, hn.2.1, hn.2.2.1, hn.2.2.2.1, rfl, rfl, fun _ _ e => by cases e⟩
    | some l =>
      cases hi with
      | none =>
        cases h
        exact ⟨hn.1, hn.2.1, hn.2.2.1, hn.2.2.2.1, rfl, rfl, fun _ _ _ e => by cases e⟩
      | some u =>
        simp only [bind, Except.bind] at h
        cases hl : checkDistance l with
        | error e => rw [hl] at h; cases h
        | ok l' =>
          rw [hl] at h
          cases hu : checkDistance u with
          | error e => rw [hu] at h; cases h
          | ok u' =>
            rw [hu] at h
            have h1 := (checkDistance_ok_iff l l').mp hl
            have h2 := (checkDistance_ok_iff u u').mp hu
            cases h
            refine ⟨hn.1, hn.2.1, hn.2.2.1, hn.2.2.2.1, by rw [h1.2], by rw [h2.2], ?_⟩
            intro l0 u0 e1 e2
            cases e1; cases e2
            exact ⟨h1.1, h2.1⟩

/-- when both bounds are present they were range-checked -/
theorem ci_bounds_checked {d p : ℝ} {t : Option ℝ} {s : Bool} {l u : ℝ} {r : CiANIResult ℝ}
    (h : CiANIResult.new d p t s (some l) (some u) = .ok r) : (0 ≤ l ∧ l ≤ 1) ∧ (0 ≤ u ∧ u ≤ 1) :=
  (ci_new_ok h).2.2.2.2.2.2 l u rfl rfl

/-- reported confidence intervals bracket the point estimate and stay in [0,1] — GIVEN that the root finder
    returned `dist_low = sol2 ≤ point ≤ sol1 = dist_high` (hypothesis `hord`; `brentq` is not modelled) -/
theorem ci_brackets_if_present {d p : ℝ} {t : Option ℝ} {s : Bool} {l u : ℝ} {r : CiANIResult ℝ}
    (h : CiANIResult.new d p t s (some l) (some u) = .ok r) (hord : l ≤ d ∧ d ≤ u)
    {a al ah : ℝ} (ha : r.ani = some a) (hal : r.aniLow = some al) (hah : r.aniHigh = some ah) :
    0 ≤ al ∧ al ≤ a ∧ a ≤ ah ∧ ah ≤ 1 := by
  have hn := ci_new_ok h
  have hb := ci_bounds_checked h
  have e1 : a = 1 - d := by
    have := (reported_iff_ani r.toANIResult a).mp ha
    rw [this.2, hn.2.2.1]
  have e2 : al = 1 - u := by
    unfold CiANIResult.aniLow at hal
    rw [hn.2.2.2.2.2.1] at hal
    cases hs : r.sizeIsInaccurate <;> simp [hs] at hal
    exact hal.symm
  have e3 : ah = 1 - l := by
    unfold CiANIResult.aniHigh at hah
    rw [hn.2.2.2.2.1] at hah
    cases hs : r.sizeIsInaccurate <;> simp [hs] at hah
    exact hah.symm
  rw [e1, e2, e3]
  exact ⟨by linarith [hb.2.2], by linarith [hord.2], by linarith [hord.1], by linarith [hb.1.1]⟩

/-- `brentq` raising ValueError makes `sol1 = sol2 = None`: the Python interval is withheld -/
theorem python_ci_withheld_on_failure {d p : ℝ} {t : Option ℝ} {s : Bool} {r : CiANIResult ℝ}
    (h : CiANIResult.new d p t s none none = .ok r) : r.aniLow = none ∧ r.aniHigh = none := by
  have hn := ci_new_ok h
  unfold CiANIResult.aniLow CiANIResult.aniHigh
  rw [hn.2.2.2.2.1, hn.2.2.2.2.2.1]
  exact ⟨rfl, rfl⟩

/- FULL STATEMENT (not proved / false) for the native twin:
     theorem native_ci_withheld_on_failure (r2 : Option ℝ) : rustAniCi (none : Option ℝ) r2 = none
   "the estimate is withheld rather than fabricated when the root search fails".  `ani_ci_from_containment`
   writes `find_root_brent(..).unwrap_or_default()`: a failed search becomes distance 0.0, i.e. the bound 1.0
   (finding D17; the constant `Gen.aniRustCiDefaultsOnFailure` is re-read from ani_utils.rs on every run). -/
theorem native_ci_fabricated_counterexample :
    rustAniCi (none : Option Int) (none : Option Int) = some (1, 1) ∧
    rustAniCi (none : Option Int) (some (1 : Int)) = some (1, 0) := by
  decide

/- FULL STATEMENT (not proved / false):
     every `ciANIResult` the constructor accepts has ani_low, ani_high ∈ [0,1]
   The bounds are range-checked only when BOTH are present (`ci_bounds_checked`); `ciANIResult(0.5, 0.0,
   dist_low=5.0)` is accepted and reports ani_high = -4 (the examples instantiate the
   number type with ℤ so that the kernel can evaluate them).  Not reachable through `containment_to_distance`
   (it sets both bounds or neither), hence recorded, not a finding. -/
theorem ci_half_interval_counterexample :
    (CiANIResult.new (0 : Int) 0 none false (some 5) none).toOption.map (fun r => (r.aniLow, r.aniHigh)) =
      some (none, some (-4)) := by
  decide

theorem avg_in_range {a1 a2 : ℝ} (h1 : 0 ≤ a1 ∧ a1 ≤ 1) (h2 : 0 ≤ a2 ∧ a2 ≤ 1) {a : ℝ}
    (h : avgAni (fun x y => (x + y) / 2) (some a1) (some a2) = some a) : 0 ≤ a ∧ a ≤ 1 := by
  simp only [avgAni, Option.some.injEq] at h
  rw [← h]
  constructor <;> linarith [h1.1, h1.2, h2.1, h2.2]

/-! ### the MinHash wrappers: withheld iff NOT (both sizes accurate), or the Jaccard error is too large

The two `size_is_accurate()` answers are parameters (scipy's binomial CDF is not modelled); everything else
is the model of `containment_ani` / `max_containment_ani` / `jaccard_ani` / `avg_containment_ani`.  The laws hold
whatever the float computations inside produce. -/

theorem mh_containment_withheld_iff {c : Float} {k scaled len : Nat} {acc1 acc2 : Bool} {r : CiANIResult Float}
    (h : mhContainmentAni c k scaled len acc1 acc2 = .ok r) :
    r.ani = none ↔ ¬ (acc1 = true ∧ acc2 = true) := by
  unfold mhContainmentAni at h
  cases hc : containmentToDistance c k scaled.toFloat (len * scaled).toFloat (some Gen.aniPThreshold) none with
  | error e => rw [hc] at h; cases h
  | ok r0 =>
    rw [hc] at h
    cases h
    cases acc1 <;> cases acc2 <;> simp [CiANIResult.ani, ANIResult.ani, sizeFlag]

theorem mh_max_containment_withheld_iff {c : Float} {k scaled l1 l2 : Nat} {acc1 acc2 : Bool} {r : CiANIResult Float}
    (h : mhMaxContainmentAni c k scaled l1 l2 acc1 acc2 = .ok r) :
    r.ani = none ↔ ¬ (acc1 = true ∧ acc2 = true) := by
  unfold mhMaxContainmentAni at h
  cases hc : containmentToDistance c k scaled.toFloat ((Nat.min l1 l2) * scaled).toFloat (some Gen.aniPThreshold) none with
  | error e => rw [hc] at h; cases h
  | ok r0 =>
    rw [hc] at h
    cases h
    cases acc1 <;> cases acc2 <;> simp [CiANIResult.ani, ANIResult.ani, sizeFlag]

theorem mh_jaccard_withheld_iff {j : Float} {k scaled l1 l2 : Nat} {acc1 acc2 : Bool} {r : JaccardANIResult Float}
    (h : mhJaccardAni j k scaled l1 l2 acc1 acc2 = .ok r) :
    r.ani = none ↔ ¬ (acc1 = true ∧ acc2 = true) ∨ r.jeExceeds = true := by
  unfold mhJaccardAni at h
  simp only [bind, Except.bind] at h
  split at h
  · cases h
  · cases h
    rename_i r0 _
    cases acc1 <;> cases acc2 <;> cases hj : r0.jeExceeds <;> simp [JaccardANIResult.ani, sizeFlag, hj]

theorem mh_avg_withheld_iff {c12 c21 : Float} {k scaled l1 l2 : Nat} {acc1 acc2 : Bool} {a : Option Float}
    (h : mhAvgContainmentAni c12 c21 k scaled l1 l2 acc1 acc2 = .ok a) :
    a = none ↔ ¬ (acc1 = true ∧ acc2 = true) := by
  unfold mhAvgContainmentAni at h
  cases h1 : mhContainmentAni c12 k scaled l1 acc1 acc2 with
  | error e => rw [h1] at h; cases h
  | ok r1 =>
    cases h2 : mhContainmentAni c21 k scaled l2 acc2 acc1 with
    | error e => rw [h1, h2] at h; cases h
    | ok r2 =>
      rw [h1, h2] at h
      cases h
      have e1 := mh_containment_withheld_iff h1
      have e2 := mh_containment_withheld_iff h2
      rw [avg_none_iff_any_none]
      constructor
      · rintro (hn | hn)
        · exact e1.mp hn
        · intro hb; exact e2.mp hn ⟨hb.2, hb.1⟩
      · intro hb; exact Or.inl (e1.mpr hb)

/-! ### the comparison / result classes (`sketchcomparison.py`, `search.py`): plumbing laws

`FracMinHashComparison`, `PrefetchResult`, `GatherResult`, `SearchResult` only route MinHash-level answers (model:
`cmpDirectional`, `cmpAvgProperty`, `cmpEstimateAll`, `prefetchAni`, `searchAni`, `csvPresent`).  An estimate is
absent only when it is `None`; `0.0` (reliable, disjoint sketches) is a present value like any other. -/

section Classes

variable {V : Type}

/-- average present iff both present, and then it is their mean -/
theorem avg_some_iff (avg : V → V → V) (a b : Option V) (v : V) :
    avgAni avg a b = some v ↔ ∃ x y, a = some x ∧ b = some y ∧ v = avg x y := by
  cases a <;> cases b <;> simp [avgAni, eq_comm]

/-- max present iff both present, and then it is their maximum -/
theorem max_some_iff (mx : V → V → V) (a b : Option V) (v : V) :
    maxAni mx a b = some v ↔ ∃ x y, a = some x ∧ b = some y ∧ v = mx x y := by
  cases a <;> cases b <;> simp [maxAni, eq_comm]

theorem max_none_iff (mx : V → V → V) (a b : Option V) : maxAni mx a b = none ↔ a = none ∨ b = none := by
  cases a <;> cases b <;> simp [maxAni]

/-- every present pair yields a present average / maximum — whatever the values are, 0 included -/
theorem present_values_are_used (avg mx : V → V → V) (x y : V) :
    avgAni avg (some x) (some y) = some (avg x y) ∧ maxAni mx (some x) (some y) = some (mx x y) := ⟨rfl, rfl⟩

/-- which MinHash-level answer feeds which `PrefetchResult` / `GatherResult` field -/
theorem prefetch_fields (ci : Bool) (avg mx : V → V → V) (r12 r21 : CiAns V) :
    let p := prefetchAni ci avg mx r12 r21
    p.query = r12.ani ∧ p.«match» = r21.ani ∧ p.average = avgAni avg r12.ani r21.ani ∧ p.max = maxAni mx r12.ani r21.ani ∧
      p.pfn = (r12.px || r21.px) ∧
      p.qlo = (if ci then r12.lo else none) ∧ p.qhi = (if ci then r12.hi else none) ∧
      p.mlo = (if ci then r21.lo else none) ∧ p.mhi = (if ci then r21.hi else none) :=
  ⟨rfl, rfl, rfl, rfl, rfl, rfl, rfl, rfl, rfl⟩

/-- `average_containment_ani` / `max_containment_ani` of a result are withheld exactly when a directional estimate is -/
theorem prefetch_withheld_iff (ci : Bool) (avg mx : V → V → V) (r12 r21 : CiAns V) :
    ((prefetchAni ci avg mx r12 r21).average = none ↔ r12.ani = none ∨ r21.ani = none) ∧
    ((prefetchAni ci avg mx r12 r21).max = none ↔ r12.ani = none ∨ r21.ani = none) :=
  ⟨by show avgAni avg r12.ani r21.ani = none ↔ _; cases r12.ani <;> cases r21.ani <;> simp [avgAni], max_none_iff mx _ _⟩

/-- … hence, with the MinHash-level law (`mh_containment_withheld_iff`: a directional estimate is withheld iff NOT both
    sizes accurate), the class-level averages / maxima are withheld iff NOT both sizes accurate -/
theorem prefetch_withheld_iff_unreliable (ci : Bool) (avg mx : V → V → V) (r12 r21 : CiAns V) (acc1 acc2 : Bool)
    (h12 : r12.ani = none ↔ ¬ (acc1 = true ∧ acc2 = true)) (h21 : r21.ani = none ↔ ¬ (acc1 = true ∧ acc2 = true)) :
    ((prefetchAni ci avg mx r12 r21).average = none ↔ cmpSizeMayBeInaccurate acc1 acc2 = true) ∧
    ((prefetchAni ci avg mx r12 r21).max = none ↔ cmpSizeMayBeInaccurate acc1 acc2 = true) := by
  have hs : cmpSizeMayBeInaccurate acc1 acc2 = true ↔ ¬ (acc1 = true ∧ acc2 = true) := by
    cases acc1 <;> cases acc2 <;> simp [cmpSizeMayBeInaccurate]
  have := prefetch_withheld_iff ci avg mx r12 r21
  constructor
  · rw [this.1, h12, h21, hs]; exact ⟨fun h => h.elim id id, Or.inl⟩
  · rw [this.2, h12, h21, hs]; exact ⟨fun h => h.elim id id, Or.inl⟩

/-- `to_write`: a CSV cell is written iff the value is not None -/
theorem csv_cell_written_iff (v : Option V) : csvPresent v = true ↔ v ≠ none := by
  cases v <;> simp [csvPresent]

/-- `SearchResult.ani` comes from the directional containment / the max-containment / the Jaccard estimate, by search type;
    bounds only with `estimate_ani_ci`, never for Jaccard -/
theorem search_ani_source (ci : Bool) (r12 mc : CiAns V) (j : JacAns V) :
    searchAni .containment ci r12 mc (.ok j) = .ok (cmpDirectional ci r12) ∧
    searchAni .maxContainment ci r12 mc (.ok j) = .ok (cmpDirectional ci mc) ∧
    searchAni .jaccard ci r12 mc (.ok j) = .ok { ani := j.ani, lo := none, hi := none, px := j.px } ∧
    (cmpDirectional false r12).lo = none ∧ (cmpDirectional false r12).hi = none ∧ (cmpDirectional ci r12).ani = r12.ani :=
  ⟨rfl, rfl, rfl, rfl, rfl, rfl⟩

end Classes

/-- the compare-level entry points (`compare_all_pairs(return_ani=True)` serial and multi-process, `compare_serial_containment`
    / `_max_containment` / `_avg_containment`): a withheld estimate becomes exactly 0.0 — never a number derived from the distance —
    and a present estimate is passed through unchanged (regression: seeded C17d made the multi-process worker return `1 - dist`
    for sketches whose size estimate is inaccurate) -/
theorem compare_entry_withheld_is_zero {V : Type} (zero : V) (a : Option V) :
    (a = none → compareAniEntry zero a = zero) ∧ (∀ v, a = some v → compareAniEntry zero a = v) := by
  constructor
  · intro h; rw [h]; rfl
  · intro v h; rw [h]; rfl

theorem compare_avg_entry {V : Type} (avg : V → V → V) (zero : V) (a1 a2 : Option V) :
    ((a1 = none ∨ a2 = none) → compareAvgAniEntry avg zero a1 a2 = zero) ∧
    (∀ x y, a1 = some x → a2 = some y → compareAvgAniEntry avg zero a1 a2 = avg x y) := by
  constructor
  · rintro (h | h) <;> cases a1 <;> cases a2 <;> simp_all [compareAvgAniEntry, compareAniEntry, avgAni]
  · intro x y h1 h2; rw [h1, h2]; rfl

/-- over ℝ: two reliable disjoint sketches (both directional ANIs = 0) give average 0 and maximum 0, written to the CSV -/
theorem zero_is_a_present_value :
    avgAni (fun x y : ℝ => (x + y) / 2) (some 0) (some 0) = some 0 ∧ maxAni (fun x y : ℝ => max x y) (some 0) (some 0) = some 0 ∧
      csvPresent (some (0 : ℝ)) = true := by
  refine ⟨?_, ?_, rfl⟩ <;> simp [avgAni, maxAni]

/-- REGRESSION EXAMPLE (seeded change C17c, caught by the `cls` ops): replacing the `is None` tests by truthiness
    (`if not all(both)`) treats 0 as absent; that variant differs from the modelled rule exactly at a zero -/
def avgAniFalsy (a b : Option Int) : Option Int :=
  match a, b with
  | some x, some y => if x = 0 ∨ y = 0 then none else some ((x + y) / 2)
  | _, _ => none

theorem falsy_zero_counterexample :
    avgAniFalsy (some 0) (some 0) = none ∧ avgAni (fun x y : Int => (x + y) / 2) (some 0) (some 0) = some 0 := by decide

/-! ### `MinHash.size_is_accurate`: decision structure (`binom.cdf` / `binom.pmf` are parameters) -/

section SizeAcc

variable {V : Type} [LE V] [DecidableLE V] [OfNat V 0] [OfNat V 1]

/-- refused for num sketches (TypeError) and for parameters outside [0,1] (ValueError); otherwise the answer is
    `probability >= confidence` -/
theorem size_is_accurate_iff (scaled : Nat) (rel conf prob : V) (b : Bool) :
    sizeIsAccurate scaled rel conf prob = .answer b ↔
      scaled ≠ 0 ∧ ((0 : V) ≤ rel ∧ rel ≤ 1) ∧ ((0 : V) ≤ conf ∧ conf ≤ 1) ∧ b = decide (conf ≤ prob) := by
  unfold sizeIsAccurate
  by_cases hs : scaled = 0
  · simp [hs]
  · by_cases hr : ((0 : V) ≤ rel ∧ rel ≤ 1)
    · by_cases hc : ((0 : V) ≤ conf ∧ conf ≤ 1)
      · simp [hs, hr, hc, eq_comm]
      · simp [hs, hr, hc]
    · simp [hs, hr]

theorem size_is_accurate_refusals (scaled : Nat) (rel conf prob : V) :
    (sizeIsAccurate scaled rel conf prob = .typeError ↔ scaled = 0) ∧
    (sizeIsAccurate scaled rel conf prob = .valueError ↔
      scaled ≠ 0 ∧ (¬ ((0 : V) ≤ rel ∧ rel ≤ 1) ∨ ¬ ((0 : V) ≤ conf ∧ conf ≤ 1))) := by
  unfold sizeIsAccurate
  by_cases hs : scaled = 0
  · simp [hs]
  · by_cases hr : ((0 : V) ≤ rel ∧ rel ≤ 1) <;> by_cases hc : ((0 : V) ≤ conf ∧ conf ≤ 1) <;> simp [hs, hr, hc]

end SizeAcc

/-- `set_size_exact_prob`: `P(lo < X ≤ hi)` from the two CDF values, plus the boundary point `P(X = lo)` exactly when
    `lo = set_size/scaled·(1 - relative_error)` is an integer, i.e. `P(lo ≤ X ≤ hi)` in both branches -/
theorem exact_prob_branches (cdfHi cdfLo pmfLo : ℝ) :
    setSizeExactProb true cdfHi cdfLo pmfLo = cdfHi - cdfLo + pmfLo ∧
    setSizeExactProb false cdfHi cdfLo pmfLo = cdfHi - cdfLo := ⟨rfl, rfl⟩

/-- a more probable estimate is never judged less accurate; a stricter confidence never more accurate -/
theorem size_accuracy_monotone (scaled : Nat) (rel conf conf' prob prob' : ℝ) (hp : prob ≤ prob') (hc : conf' ≤ conf)
    (hc' : 0 ≤ conf') (h : sizeIsAccurate scaled rel conf prob = .answer true) :
    sizeIsAccurate scaled rel conf' prob' = .answer true := by
  rw [size_is_accurate_iff] at h ⊢
  refine ⟨h.1, h.2.1, ⟨hc', le_trans hc h.2.2.1.2⟩, ?_⟩
  have : conf ≤ prob := by simpa using h.2.2.2.symm
  simp only [true_eq_decide_iff]
  linarith

/-- `size_is_accurate` evaluates the exact binomial probability, not the deprecated Chernoff bound
    (the translator re-checks the call on every run) -/
theorem size_accuracy_uses_exact_probability : sizeAccuracyFormula = "set_size_exact_prob" := rfl

/-! ### confidence intervals: float-free laws about the two root equations -/

/-- the point estimate solves the noise-free equation `(1 - p)^k = c` -/
theorem point_is_root_of_noise_free_equation {k : ℕ} (hk : 1 ≤ k) {c : ℝ} (hc : 0 ≤ c) :
    (1 - distCodeC c k) ^ k = c := by
  rw [distCodeC_eq hk]; exact point_estimate_is_root hk hc

/-- if `f1 = h + z·s` and `f2 = h - z·s` are strictly decreasing where the roots are searched, `z ≥ 0`, `s ≥ 0`,
    then `sol2 ≤ point ≤ sol1`: the hypothesis of `ci_brackets_if_present` follows from monotonicity alone -/
theorem ci_roots_bracket_point {S : Set ℝ} {h s : ℝ → ℝ} {z p sol1 sol2 : ℝ}
    (hz : 0 ≤ z) (hs : ∀ x ∈ S, 0 ≤ s x)
    (h1 : StrictAntiOn (fun x => h x + z * s x) S) (h2 : StrictAntiOn (fun x => h x - z * s x) S)
    (hp : p ∈ S) (hs1 : sol1 ∈ S) (hs2 : sol2 ∈ S)
    (rp : h p = 0) (r1 : h sol1 + z * s sol1 = 0) (r2 : h sol2 - z * s sol2 = 0) :
    sol2 ≤ p ∧ p ≤ sol1 :=
  roots_bracket_point hz hs h1 h2 hp hs1 hs2 rp r1 r2

theorem ci_wider_with_confidence {S : Set ℝ} {h s : ℝ → ℝ} {z z' a a' : ℝ}
    (hzz : z ≤ z') (hs : ∀ x ∈ S, 0 ≤ s x) (h1 : StrictAntiOn (fun x => h x + z' * s x) S)
    (ha : a ∈ S) (ha' : a' ∈ S) (r : h a + z * s a = 0) (r' : h a' + z' * s a' = 0) : a ≤ a' :=
  wider_confidence_wider_interval hzz hs h1 ha ha' r r'

/-- `z_alpha = probit(1 - (1 - confidence)/2)` is ≥ 0 and monotone in the confidence level, for any `probit` that is
    monotone on [1/2, 1] and 0 at 1/2 (true of the normal quantile; `scipy.stats.norm.ppf` / statrs are not modelled) -/
theorem z_alpha_laws {probit : ℝ → ℝ} (hm : MonotoneOn probit (Set.Icc (1 / 2) 1)) (h0 : probit (1 / 2) = 0)
    {c c' : ℝ} (hc0 : 0 ≤ c) (hcc : c ≤ c') (hc1 : c' ≤ 1) :
    0 ≤ probit (1 - (1 - c) / 2) ∧ probit (1 - (1 - c) / 2) ≤ probit (1 - (1 - c') / 2) :=
  z_alpha_nonneg_mono hm h0 hc0 hcc hc1

/-! ### non-vacuity -/

example : aniC (1 / 2) 1 = 1 / 2 := by simp [aniC]

-- (number type ℤ: decidable by kernel evaluation; distances 0 and 1 are the two legal integers)
example : (JaccardANIResult.new (0 : Int) 0 (some 5) false (some 7) (some 3)).toOption.map
    (fun r => (r.jeExceeds, r.ani)) = some (true, none) := by decide

example : (JaccardANIResult.new (0 : Int) 0 (some 5) false (some 2) (some 3)).toOption.map
    (fun r => (r.jeExceeds, r.pExceeds, r.ani)) = some (false, false, some 1) := by decide

example : (JaccardANIResult.new (0 : Int) 0 (some 5) true (some 2) (some 3)).toOption.map
    (fun r => r.ani) = some none := by decide

example : (JaccardANIResult.new (0 : Int) 0 (some 5) false none (some 3)).toOption.isNone = true := by decide

example : (CiANIResult.new (1 : Int) 0 none false (some 0) (some 1)).toOption.map
    (fun r => (r.aniLow, r.ani, r.aniHigh)) = some (some 0, some 0, some 1) := by decide

example : (CiANIResult.new (0 : Int) 0 none false (some 0) (some 2)).toOption.isNone = true := by decide

example : (ANIResult.new (2 : Int) 0 none false).toOption.isNone = true := by decide

example : (ANIResult.new (-1 : Int) 0 none false).toOption.isNone = true := by decide

end Sm.C17
