/-
C11 — a signature's md5 identity is a function of its current content only.

`MH.md5` is the cache the implementation keeps (`Mutex<Option<String>>`), holding
the pre-image `(ksize, mins)` the digest was computed from.  The invariant is
that the cache is either empty or holds the pre-image of the *current* content;
it is preserved by every operation of the model (Rust core, FFI glue, Python
layer), hence `md5sum` answers the digest of the current content in every
reachable state, however that state was reached.

md5 itself is not modelled (trusted base): "equal content => equal md5" is
`equal_content_equal_md5`; "changed hash set => changed md5" holds modulo md5
collisions (`changed_hashes_changed_preimage`).
-/
import SmVerif.Model.MinHash

namespace Sm.C11

open Sm MH

/-- the cache is empty or valid -/
def CacheInv (s : MH) : Prop := s.md5 = none ∨ s.md5 = some s.digest

theorem cacheInv_of_none {s : MH} (h : s.md5 = none) : CacheInv s := Or.inl h

/-- what `md5sum` answers when the invariant holds -/
theorem md5sum_eq_digest {s : MH} (h : CacheInv s) : s.md5sum.2 = s.digest := by
  unfold MH.md5sum
  rcases h with h | h <;> simp [h]

theorem md5sum_state_inv {s : MH} (h : CacheInv s) : CacheInv s.md5sum.1 := by
  unfold MH.md5sum
  rcases h with h | h <;> simp [h, CacheInv, MH.digest]

theorem md5sum_state_content (s : MH) : s.md5sum.1.mins = s.mins ∧ s.md5sum.1.abunds = s.abunds := by
  unfold MH.md5sum; split <;> simp

/-! ### one step of every mutator preserves the invariant -/

theorem new_inv (sc k hf seed : Nat) (tr : Bool) (n : Nat) : CacheInv (MH.new sc k hf seed tr n) :=
  Or.inl rfl

theorem clear_inv (s : MH) : CacheInv s.clear := Or.inl rfl

theorem removeHash_inv {s : MH} (h : CacheInv s) (x : Nat) : CacheInv (s.removeHash x) := by
  unfold MH.removeHash
  split
  · exact Or.inl rfl
  · exact h

theorem addHashAb_inv {s : MH} (h : CacheInv s) (x a : Nat) : CacheInv (s.addHashAb x a) := by
  unfold MH.addHashAb
  simp only
  repeat' split
  all_goals first
    | exact h
    | exact removeHash_inv h x
    | exact Or.inl rfl
    | (rcases h with h | h
       · exact Or.inl h
       · exact Or.inr (by simpa [MH.digest] using h))

theorem addHash_inv {s : MH} (h : CacheInv s) (x : Nat) : CacheInv (s.addHash x) :=
  addHashAb_inv h x 1

theorem addMany_inv {s : MH} (h : CacheInv s) (xs : List Nat) : CacheInv (s.addMany xs) := by
  unfold MH.addMany
  induction xs generalizing s with
  | nil => simpa
  | cons x xs ih => exact ih (addHash_inv h x)

theorem addManyAb_inv {s : MH} (h : CacheInv s) (ps : List (Nat × Nat)) : CacheInv (s.addManyAb ps) := by
  unfold MH.addManyAb
  induction ps generalizing s with
  | nil => simpa
  | cons p ps ih => exact ih (addHashAb_inv h p.1 p.2)

theorem removeMany_inv {s : MH} (h : CacheInv s) (xs : List Nat) : CacheInv (s.removeMany xs) := by
  unfold MH.removeMany
  induction xs generalizing s with
  | nil => simpa
  | cons x xs ih => exact ih (removeHash_inv h x)

theorem setHashAb_inv {s : MH} (h : CacheInv s) (x a : Nat) : CacheInv (s.setHashAb x a) := by
  unfold MH.setHashAb
  split
  · rcases h with h | h
    · exact Or.inl h
    · exact Or.inr (by simpa [MH.digest] using h)
  · exact addHashAb_inv h x a

theorem merge_inv {s o r : MH} (hr : s.merge o = .ok r) : CacheInv r := by
  unfold MH.merge at hr
  cases hc : s.checkCompatible o with
  | error e => simp [hc, bind, Except.bind] at hr
  | ok u =>
    simp only [hc, bind, Except.bind, pure, Except.pure] at hr
    injection hr with hr
    subst hr
    exact Or.inl rfl

theorem addFrom_inv {s : MH} (h : CacheInv s) (o : MH) : CacheInv (s.addFrom o) := addMany_inv h _

theorem removeFrom_inv {s : MH} (h : CacheInv s) (o : MH) : CacheInv (s.removeFrom o) := removeMany_inv h _

theorem clone_inv {s : MH} (h : CacheInv s) : CacheInv s.clone.1 ∧ CacheInv s.clone.2 := by
  unfold MH.clone
  have h1 := md5sum_state_inv h
  have h2 := md5sum_eq_digest h
  have h3 := md5sum_state_content s
  refine ⟨h1, Or.inr ?_⟩
  simp only [MH.digest] at *
  have hk : s.md5sum.1.ksize = s.ksize := by unfold MH.md5sum; split <;> simp
  simp [h2, h3.1, hk]

/-- a clone has the content of its source -/
theorem clone_content (s : MH) : s.clone.2.mins = s.mins ∧ s.clone.2.abunds = s.abunds ∧
    s.clone.1.mins = s.mins ∧ s.clone.1.abunds = s.abunds := by
  unfold MH.clone
  have h3 := md5sum_state_content s
  simp [h3.1, h3.2]

theorem downsampleScaled_inv {s r : MH} (h : CacheInv s) (sc : Nat)
    (hr : s.downsampleScaled sc = .ok r) : CacheInv r := by
  unfold MH.downsampleScaled at hr
  split at hr
  · injection hr with hr; subst hr; exact h
  · split at hr
    · cases hr
    · injection hr with hr
      subst hr
      split
      · exact addManyAb_inv (new_inv ..) _
      · exact addMany_inv (new_inv ..) _

theorem ffiSetAbundances_inv {s : MH} (h : CacheInv s) (ps : List (Nat × Nat)) (c : Bool) :
    CacheInv (s.ffiSetAbundances ps c) := by
  unfold MH.ffiSetAbundances
  cases c
  · simpa using addManyAb_inv h _
  · simpa using addManyAb_inv (clear_inv s) _

theorem ffiIntersection_inv {s o s' r : MH} (h : CacheInv s)
    (hr : s.ffiIntersection o = .ok (s', r)) : CacheInv s' ∧ CacheInv r := by
  unfold MH.ffiIntersection at hr
  cases hi : s.intersection o with
  | error e => simp [hi, bind, Except.bind] at hr
  | ok cu =>
    simp only [hi, bind, Except.bind, pure, Except.pure] at hr
    injection hr with hr
    have := clone_inv h
    cases hr
    exact ⟨this.1, addMany_inv (clear_inv _) _⟩

theorem inflate_inv {s o r : MH} (hr : s.inflate o = .ok r) : CacheInv r := by
  unfold MH.inflate at hr
  cases hc : s.checkCompatible o with
  | error e => simp [hc, bind, Except.bind] at hr
  | ok u =>
    simp only [hc, bind, Except.bind] at hr
    split at hr
    · cases hr
    · simp only [pure, Except.pure] at hr
      injection hr with hr
      subst hr
      exact Or.inl rfl

/-! ### Python layer -/

theorem py_mkMinHash_inv {n k hf seed mx sc : Nat} {tr : Bool} {r : MH}
    (hr : Py.mkMinHash n k hf seed tr mx sc = .ok r) : CacheInv r := by
  unfold Py.mkMinHash at hr
  simp only at hr
  repeat' split at hr
  all_goals first
    | (injection hr with hr; subst hr; exact new_inv ..)
    | cases hr

theorem py_copy_inv {s r : MH} (hr : Py.copy s = .ok r) : CacheInv r := by
  unfold Py.copy at hr
  cases hm : Py.mkMinHash s.num s.ksize s.hf s.seed s.trackAbundance s.maxHash 0 with
  | error e => simp [hm, bind, Except.bind] at hr
  | ok a =>
    simp only [hm, bind, Except.bind] at hr
    exact merge_inv hr

theorem py_setAbundances_inv {s r : MH} (h : CacheInv s) {ps : List (Nat × Nat)} {c : Bool}
    (hr : Py.setAbundances s ps c = .ok r) : CacheInv r := by
  unfold Py.setAbundances at hr
  split at hr
  · injection hr with hr; subst hr; exact ffiSetAbundances_inv h _ _
  · cases hr

theorem py_addHashWithAbundance_inv {s r : MH} (h : CacheInv s) {x a : Nat}
    (hr : Py.addHashWithAbundance s x a = .ok r) : CacheInv r := by
  unfold Py.addHashWithAbundance at hr
  split at hr
  · injection hr with hr; subst hr; exact addHashAb_inv h _ _
  · cases hr

theorem py_pickle_inv (s : MH) : CacheInv (Py.pickleRoundTrip s) := by
  unfold Py.pickleRoundTrip Py.setState
  simp only
  split
  · exact ffiSetAbundances_inv (new_inv ..) _ _
  · exact addMany_inv (new_inv ..) _

theorem py_downsampleWith_inv {s r : MH} {n mx : Nat}
    (hr : Py.downsampleWith s n mx = .ok r) : CacheInv r := by
  unfold Py.downsampleWith at hr
  split at hr
  · cases hr
  · rename_i a ha
    have hai := py_mkMinHash_inv ha
    split at hr
    · exact py_setAbundances_inv hai hr
    · injection hr with hr; subst hr; exact addFrom_inv hai _

theorem py_downsample_inv {s r : MH} {num scaled : Option Nat}
    (hr : Py.downsample s num scaled = .ok r) : CacheInv r := by
  unfold Py.downsample at hr
  split at hr
  · cases hr
  · exact py_downsampleWith_inv hr

theorem py_flatten_inv {s r : MH} (hr : Py.flatten s = .ok (some r)) : CacheInv r := by
  unfold Py.flatten at hr
  split at hr
  · simp only [bind, Except.bind] at hr
    split at hr
    · cases hr
    · rename_i a ha
      simp only [pure, Except.pure] at hr
      injection hr with hr
      injection hr with hr
      subst hr
      exact addFrom_inv (py_mkMinHash_inv ha) _
  · simp [pure, Except.pure] at hr

theorem py_add_inv {s o r : MH} (hr : Py.add s o = .ok r) : CacheInv r := by
  unfold Py.add at hr
  split at hr
  · cases hr
  · simp only [bind, Except.bind] at hr
    split at hr
    · cases hr
    · exact merge_inv hr

theorem py_intersection_inv {s o s' r : MH} (h : CacheInv s)
    (hr : Py.intersection s o = .ok (s', r)) : CacheInv s' ∧ CacheInv r := by
  unfold Py.intersection at hr
  split at hr
  · cases hr
  · exact ffiIntersection_inv h hr

theorem py_inflate_inv {s o r : MH} (hr : Py.inflate s o = .ok r) : CacheInv r := by
  unfold Py.inflate at hr
  split at hr
  · simp only [bind, Except.bind] at hr
    split at hr
    · cases hr
    · rename_i am ham
      split at hr
      · cases hr
      · rename_i am' hd
        exact py_setAbundances_inv (py_downsample_inv hd) hr
  · cases hr

/-! ### every reachable state -/

/-- States reachable through the API: any history of constructions, mutations,
copies, conversions and md5 queries.  (`Reach` is closed under every operation
of the model that returns a sketch.) -/
inductive Reach : MH → Prop
  | mk {n k hf seed mx sc tr r} : Py.mkMinHash n k hf seed tr mx sc = .ok r → Reach r
  | new (sc k hf seed tr n) : Reach (MH.new sc k hf seed tr n)
  | addHashAb {s} (x a) : Reach s → Reach (s.addHashAb x a)
  | pyAddHashAb {s r x a} : Reach s → Py.addHashWithAbundance s x a = .ok r → Reach r
  | addMany {s} (xs) : Reach s → Reach (s.addMany xs)
  | addFrom {s} (o) : Reach s → Reach (s.addFrom o)
  | removeMany {s} (xs) : Reach s → Reach (s.removeMany xs)
  | removeFrom {s} (o) : Reach s → Reach (s.removeFrom o)
  | setHashAb {s} (x a) : Reach s → Reach (s.setHashAb x a)
  | setAbundances {s r ps c} : Reach s → Py.setAbundances s ps c = .ok r → Reach r
  | clear {s} : Reach s → Reach s.clear
  | merge {s o r} : Reach s → s.merge o = .ok r → Reach r
  | md5query {s} : Reach s → Reach s.md5sum.1
  | cloneSrc {s} : Reach s → Reach s.clone.1
  | cloneDst {s} : Reach s → Reach s.clone.2
  | downsampleScaled {s r sc} : Reach s → s.downsampleScaled sc = .ok r → Reach r
  | ffiInterSrc {s o s' r} : Reach s → s.ffiIntersection o = .ok (s', r) → Reach s'
  | ffiInterDst {s o s' r} : Reach s → s.ffiIntersection o = .ok (s', r) → Reach r
  | inflate {s o r} : Reach s → s.inflate o = .ok r → Reach r
  | pyCopy {s r} : Reach s → Py.copy s = .ok r → Reach r
  | pyPickle {s} : Reach s → Reach (Py.pickleRoundTrip s)
  | pyDownsample {s r n sc} : Reach s → Py.downsample s n sc = .ok r → Reach r
  | pyFlatten {s r} : Reach s → Py.flatten s = .ok (some r) → Reach r
  | pyAdd {s o r} : Reach s → Py.add s o = .ok r → Reach r
  | pyInterSrc {s o s' r} : Reach s → Py.intersection s o = .ok (s', r) → Reach s'
  | pyInterDst {s o s' r} : Reach s → Py.intersection s o = .ok (s', r) → Reach r
  | pyInflate {s o r} : Reach s → Py.inflate s o = .ok r → Reach r

theorem cache_inv_reachable {s : MH} (h : Reach s) : CacheInv s := by
  induction h with
  | mk hr => exact py_mkMinHash_inv hr
  | new => exact new_inv ..
  | addHashAb x a _ ih => exact addHashAb_inv ih x a
  | pyAddHashAb _ hr ih => exact py_addHashWithAbundance_inv ih hr
  | addMany xs _ ih => exact addMany_inv ih xs
  | addFrom o _ ih => exact addFrom_inv ih o
  | removeMany xs _ ih => exact removeMany_inv ih xs
  | removeFrom o _ ih => exact removeFrom_inv ih o
  | setHashAb x a _ ih => exact setHashAb_inv ih x a
  | setAbundances _ hr ih => exact py_setAbundances_inv ih hr
  | clear _ _ => exact clear_inv _
  | merge _ hr _ => exact merge_inv hr
  | md5query _ ih => exact md5sum_state_inv ih
  | cloneSrc _ ih => exact (clone_inv ih).1
  | cloneDst _ ih => exact (clone_inv ih).2
  | downsampleScaled _ hr ih => exact downsampleScaled_inv ih _ hr
  | ffiInterSrc _ hr ih => exact (ffiIntersection_inv ih hr).1
  | ffiInterDst _ hr ih => exact (ffiIntersection_inv ih hr).2
  | inflate _ hr _ => exact inflate_inv hr
  | pyCopy _ hr _ => exact py_copy_inv hr
  | pyPickle _ _ => exact py_pickle_inv _
  | pyDownsample _ hr _ => exact py_downsample_inv hr
  | pyFlatten _ hr _ => exact py_flatten_inv hr
  | pyAdd _ hr _ => exact py_add_inv hr
  | pyInterSrc _ hr ih => exact (py_intersection_inv ih hr).1
  | pyInterDst _ hr ih => exact (py_intersection_inv ih hr).2
  | pyInflate _ hr _ => exact py_inflate_inv hr

/-- **C11, main statement.**  In every reachable state an md5 query answers the
digest pre-image of the *current* k-mer size and hash values. -/
theorem md5_valid {s : MH} (h : Reach s) : s.md5sum.2 = ⟨s.ksize, s.mins⟩ :=
  md5sum_eq_digest (cache_inv_reachable h)

/-- equal content (k and hashes) means equal md5 pre-image, whatever the two histories were -/
theorem equal_content_equal_md5 {s t : MH} (hs : Reach s) (ht : Reach t)
    (hk : s.ksize = t.ksize) (hm : s.mins = t.mins) : s.md5sum.2 = t.md5sum.2 := by
  rw [md5_valid hs, md5_valid ht, hk, hm]

/-- a changed hash set changes what is fed to md5 (so the md5 changes, modulo md5 collisions) -/
theorem changed_hashes_changed_preimage {s t : MH} (hs : Reach s) (ht : Reach t)
    (hm : s.mins ≠ t.mins) : s.md5sum.2 ≠ t.md5sum.2 := by
  rw [md5_valid hs, md5_valid ht]
  intro h
  injection h with _ h2
  exact hm h2

/-- the md5 is independent of when it was asked before: asking twice, or asking
after an intermediate query, gives the same answer -/
theorem md5_query_idempotent {s : MH} (h : Reach s) : s.md5sum.1.md5sum.2 = s.md5sum.2 := by
  have h1 := md5_valid (Reach.md5query h)
  have h2 := md5_valid h
  have hc := md5sum_state_content s
  have hk : s.md5sum.1.ksize = s.ksize := by unfold MH.md5sum; split <;> simp
  rw [h1, h2, hc.1, hk]

/-- the three histories that were stale before the repair (D3), now as theorems -/
theorem md5_after_clear {s : MH} (h : Reach s) : (s.md5sum.1.clear).md5sum.2 = ⟨s.ksize, []⟩ := by
  have := md5_valid (Reach.clear (Reach.md5query h))
  have hk : s.md5sum.1.ksize = s.ksize := by unfold MH.md5sum; split <;> simp
  simpa [MH.clear, hk] using this

/-! non-vacuity: a concrete reachable state with a filled cache that is then mutated -/
example :
    let s0 := MH.new 1 21 1 42 false 0
    let s1 := (s0.addHash 5).md5sum.1
    let s2 := s1.clear.addHash 7
    s2.md5sum.2 = ⟨21, [7]⟩ ∧ s1.md5 ≠ none := by decide

end Sm.C11
