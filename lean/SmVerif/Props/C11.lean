/-
C11 — a signature's md5 identity is a function of its current content only.

`MH.md5` is the cache the implementation keeps (`Mutex<Option<String>>`), holding
the pre-image `(ksize, mins)` the digest was computed from.  The invariant is
that the cache is either empty or holds the pre-image of the *current* content;
it is preserved by every operation of the model (Rust core, FFI glue, Python
layer), hence `md5sum` answers the digest of the current content in every
reachable state, however that state was reached.

md5 itself is not modelled (trusted base): "equal content => equal md5" is
`equal_content_equal_md5`; "changed hash set => changed md5" holds modulo md5
collisions (`changed_hashes_changed_preimage`).
-/
import SmVerif.Model.MinHash
import SmVerif.Model.Generated
import SmVerif.Lemmas.MhMachine

namespace Sm.C11

open Sm MH

/-- the cache is empty or valid -/
def CacheInv (s : MH) : Prop := s.md5 = none ∨ s.md5 = some s.digest

theorem cacheInv_of_none {s : MH} (h : s.md5 = none) : CacheInv s := Or.inl h

/-- what `md5sum` answers when the invariant holds -/
theorem md5sum_eq_digest {s : MH} (h : CacheInv s) : s.md5sum.2 = s.digest := by
  unfold MH.md5sum
  rcases h with h | h <;> simp [h]

theorem md5sum_state_inv {s : MH} (h : CacheInv s) : CacheInv s.md5sum.1 := by
  unfold MH.md5sum
  rcases h with h | h <;> simp [h, CacheInv, MH.digest]

theorem md5sum_state_content (s : MH) : s.md5sum.1.mins = s.mins ∧ s.md5sum.1.abunds = s.abunds := by
  unfold MH.md5sum; split <;> simp

/-! ### one step of every mutator preserves the invariant -/

theorem new_inv (sc k hf seed : Nat) (tr : Bool) (n : Nat) : CacheInv (MH.new sc k hf seed tr n) :=
  Or.inl rfl

theorem clear_inv (s : MH) : CacheInv s.clear := Or.inl rfl

theorem removeHash_inv {s : MH} (h : CacheInv s) (x : Nat) : CacheInv (s.removeHash x) := by
  unfold MH.removeHash
  split
  · exact Or.inl rfl
  · exact h

theorem addHashAb_inv {s : MH} (h : CacheInv s) (x a : Nat) : CacheInv (s.addHashAb x a) := by
  unfold MH.addHashAb
  simp only
  repeat' split
  all_goals first
    | exact h
    | exact removeHash_inv h x
    | exact Or.inl rfl
    | (rcases h with h | h
       · exact Or.inl h
       · exact Or.inr (by simpa [MH.digest] using h))

theorem addHash_inv {s : MH} (h : CacheInv s) (x : Nat) : CacheInv (s.addHash x) :=
  addHashAb_inv h x 1

theorem addMany_inv {s : MH} (h : CacheInv s) (xs : List Nat) : CacheInv (s.addMany xs) := by
  unfold MH.addMany
  induction xs generalizing s with
  | nil => simpa
  | cons x xs ih => exact ih (addHash_inv h x)

theorem addManyAb_inv {s : MH} (h : CacheInv s) (ps : List (Nat × Nat)) : CacheInv (s.addManyAb ps) := by
  unfold MH.addManyAb
  induction ps generalizing s with
  | nil => simpa
  | cons p ps ih => exact ih (addHashAb_inv h p.1 p.2)

theorem removeMany_inv {s : MH} (h : CacheInv s) (xs : List Nat) : CacheInv (s.removeMany xs) := by
  unfold MH.removeMany
  induction xs generalizing s with
  | nil => simpa
  | cons x xs ih => exact ih (removeHash_inv h x)

theorem setHashAb_inv {s : MH} (h : CacheInv s) (x a : Nat) : CacheInv (s.setHashAb x a) := by
  unfold MH.setHashAb
  split
  · rcases h with h | h
    · exact Or.inl h
    · exact Or.inr (by simpa [MH.digest] using h)
  · exact addHashAb_inv h x a

theorem merge_inv {s o r : MH} (hr : s.merge o = .ok r) : CacheInv r := by
  unfold MH.merge at hr
  cases hc : s.checkCompatible o with
  | error e => simp [hc, bind, Except.bind] at hr
  | ok u =>
    simp only [hc, bind, Except.bind, pure, Except.pure] at hr
    injection hr with hr
    subst hr
    exact Or.inl rfl

theorem addFrom_inv {s : MH} (h : CacheInv s) (o : MH) : CacheInv (s.addFrom o) := addMany_inv h _

theorem removeFrom_inv {s : MH} (h : CacheInv s) (o : MH) : CacheInv (s.removeFrom o) := removeMany_inv h _

theorem clone_inv {s : MH} (h : CacheInv s) : CacheInv s.clone.1 ∧ CacheInv s.clone.2 := by
  unfold MH.clone
  have h1 := md5sum_state_inv h
  have h2 := md5sum_eq_digest h
  have h3 := md5sum_state_content s
  refine ⟨h1, Or.inr ?_⟩
  simp only [MH.digest] at *
  have hk : s.md5sum.1.ksize = s.ksize := by unfold MH.md5sum; split <;> simp
  simp [h2, h3.1, hk]

/-- a clone has the content of its source -/
theorem clone_content (s : MH) : s.clone.2.mins = s.mins ∧ s.clone.2.abunds = s.abunds ∧
    s.clone.1.mins = s.mins ∧ s.clone.1.abunds = s.abunds := by
  unfold MH.clone
  have h3 := md5sum_state_content s
  simp [h3.1, h3.2]

theorem downsampleScaled_inv {s r : MH} (h : CacheInv s) (sc : Nat)
    (hr : s.downsampleScaled sc = .ok r) : CacheInv r := by
  unfold MH.downsampleScaled at hr
  split at hr
  · injection hr with hr; subst hr; exact h
  · split at hr
    · cases hr
    · injection hr with hr
      subst hr
      split
      · exact addManyAb_inv (new_inv ..) _
      · exact addMany_inv (new_inv ..) _

theorem ffiSetAbundances_inv {s : MH} (h : CacheInv s) (ps : List (Nat × Nat)) (c : Bool) :
    CacheInv (s.ffiSetAbundances ps c) := by
  unfold MH.ffiSetAbundances
  cases c
  · simpa using addManyAb_inv h _
  · simpa using addManyAb_inv (clear_inv s) _

theorem ffiIntersection_inv {s o s' r : MH} (h : CacheInv s)
    (hr : s.ffiIntersection o = .ok (s', r)) : CacheInv s' ∧ CacheInv r := by
  unfold MH.ffiIntersection at hr
  cases hi : s.intersection o with
  | error e => simp [hi, bind, Except.bind] at hr
  | ok cu =>
    simp only [hi, bind, Except.bind, pure, Except.pure] at hr
    injection hr with hr
    have := clone_inv h
    cases hr
    exact ⟨this.1, addMany_inv (clear_inv _) _⟩

theorem inflate_inv {s o r : MH} (hr : s.inflate o = .ok r) : CacheInv r := by
  unfold MH.inflate at hr
  cases hc : s.checkCompatible o with
  | error e => simp [hc, bind, Except.bind] at hr
  | ok u =>
    simp only [hc, bind, Except.bind] at hr
    split at hr
    · cases hr
    · simp only [pure, Except.pure] at hr
      injection hr with hr
      subst hr
      exact Or.inl rfl

/-! ### Python layer -/

theorem py_mkMinHash_inv {n k hf seed mx sc : Nat} {tr : Bool} {r : MH}
    (hr : Py.mkMinHash n k hf seed tr mx sc = .ok r) : CacheInv r := by
  unfold Py.mkMinHash at hr
  simp only at hr
  repeat' split at hr
  all_goals first
    | (injection hr with hr; subst hr; exact new_inv ..)
    | cases hr

theorem py_copy_inv {s r : MH} (hr : Py.copy s = .ok r) : CacheInv r := by
  unfold Py.copy at hr
  cases hm : Py.mkMinHash s.num s.ksize s.hf s.seed s.trackAbundance s.maxHash 0 with
  | error e => simp [hm, bind, Except.bind] at hr
  | ok a =>
    simp only [hm, bind, Except.bind] at hr
    exact merge_inv hr

theorem py_setAbundances_inv {s r : MH} (h : CacheInv s) {ps : List (Nat × Nat)} {c : Bool}
    (hr : Py.setAbundances s ps c = .ok r) : CacheInv r := by
  unfold Py.setAbundances at hr
  split at hr
  · injection hr with hr; subst hr; exact ffiSetAbundances_inv h _ _
  · cases hr

theorem py_addHashWithAbundance_inv {s r : MH} (h : CacheInv s) {x a : Nat}
    (hr : Py.addHashWithAbundance s x a = .ok r) : CacheInv r := by
  unfold Py.addHashWithAbundance at hr
  split at hr
  · injection hr with hr; subst hr; exact addHashAb_inv h _ _
  · cases hr

theorem py_pickle_inv (s : MH) : CacheInv (Py.pickleRoundTrip s) := by
  unfold Py.pickleRoundTrip Py.setState
  simp only
  split
  · exact ffiSetAbundances_inv (new_inv ..) _ _
  · exact addMany_inv (new_inv ..) _

theorem py_downsampleWith_inv {s r : MH} {n mx : Nat}
    (hr : Py.downsampleWith s n mx = .ok r) : CacheInv r := by
  unfold Py.downsampleWith at hr
  split at hr
  · cases hr
  · rename_i a ha
    have hai := py_mkMinHash_inv ha
    split at hr
    · exact py_setAbundances_inv hai hr
    · injection hr with hr; subst hr; exact addFrom_inv hai _

theorem py_downsample_inv {s r : MH} {num scaled : Option Nat}
    (hr : Py.downsample s num scaled = .ok r) : CacheInv r := by
  unfold Py.downsample at hr
  split at hr
  · cases hr
  · exact py_downsampleWith_inv hr

theorem py_flatten_inv {s r : MH} (hr : Py.flatten s = .ok (some r)) : CacheInv r := by
  unfold Py.flatten at hr
  split at hr
  · simp only [bind, Except.bind] at hr
    split at hr
    · cases hr
    · rename_i a ha
      simp only [pure, Except.pure] at hr
      injection hr with hr
      injection hr with hr
      subst hr
      exact addFrom_inv (py_mkMinHash_inv ha) _
  · simp [pure, Except.pure] at hr

theorem py_add_inv {s o r : MH} (hr : Py.add s o = .ok r) : CacheInv r := by
  unfold Py.add at hr
  split at hr
  · cases hr
  · simp only [bind, Except.bind] at hr
    split at hr
    · cases hr
    · exact merge_inv hr

theorem py_intersection_inv {s o s' r : MH} (h : CacheInv s)
    (hr : Py.intersection s o = .ok (s', r)) : CacheInv s' ∧ CacheInv r := by
  unfold Py.intersection at hr
  split at hr
  · cases hr
  · exact ffiIntersection_inv h hr

theorem py_inflate_inv {s o r : MH} (hr : Py.inflate s o = .ok r) : CacheInv r := by
  unfold Py.inflate at hr
  split at hr
  · simp only [bind, Except.bind] at hr
    split at hr
    · cases hr
    · rename_i am ham
      split at hr
      · cases hr
      · rename_i am' hd
        exact py_setAbundances_inv (py_downsample_inv hd) hr
  · cases hr

/-! ### every reachable state -/

/-- States reachable through the API: any history of constructions, mutations,
copies, conversions and md5 queries.  (`Reach` is closed under every operation
of the model that returns a sketch.) -/
inductive Reach : MH → Prop
  | mk {n k hf seed mx sc tr r} : Py.mkMinHash n k hf seed tr mx sc = .ok r → Reach r
  | new (sc k hf seed tr n) : Reach (MH.new sc k hf seed tr n)
  | addHashAb {s} (x a) : Reach s → Reach (s.addHashAb x a)
  | pyAddHashAb {s r x a} : Reach s → Py.addHashWithAbundance s x a = .ok r → Reach r
  | addMany {s} (xs) : Reach s → Reach (s.addMany xs)
  | addFrom {s} (o) : Reach s → Reach (s.addFrom o)
  | removeMany {s} (xs) : Reach s → Reach (s.removeMany xs)
  | removeFrom {s} (o) : Reach s → Reach (s.removeFrom o)
  | setHashAb {s} (x a) : Reach s → Reach (s.setHashAb x a)
  | setAbundances {s r ps c} : Reach s → Py.setAbundances s ps c = .ok r → Reach r
  | clear {s} : Reach s → Reach s.clear
  | merge {s o r} : Reach s → s.merge o = .ok r → Reach r
  | md5query {s} : Reach s → Reach s.md5sum.1
  | cloneSrc {s} : Reach s → Reach s.clone.1
  | cloneDst {s} : Reach s → Reach s.clone.2
  | downsampleScaled {s r sc} : Reach s → s.downsampleScaled sc = .ok r → Reach r
  | ffiInterSrc {s o s' r} : Reach s → s.ffiIntersection o = .ok (s', r) → Reach s'
  | ffiInterDst {s o s' r} : Reach s → s.ffiIntersection o = .ok (s', r) → Reach r
  | inflate {s o r} : Reach s → s.inflate o = .ok r → Reach r
  | pyCopy {s r} : Reach s → Py.copy s = .ok r → Reach r
  | pyPickle {s} : Reach s → Reach (Py.pickleRoundTrip s)
  | pyDownsample {s r n sc} : Reach s → Py.downsample s n sc = .ok r → Reach r
  | pyFlatten {s r} : Reach s → Py.flatten s = .ok (some r) → Reach r
  | pyAdd {s o r} : Reach s → Py.add s o = .ok r → Reach r
  | pyInterSrc {s o s' r} : Reach s → Py.intersection s o = .ok (s', r) → Reach s'
  | pyInterDst {s o s' r} : Reach s → Py.intersection s o = .ok (s', r) → Reach r
  | pyInflate {s o r} : Reach s → Py.inflate s o = .ok r → Reach r

theorem cache_inv_reachable {s : MH} (h : Reach s) : CacheInv s := by
  induction h with
  | mk hr => exact py_mkMinHash_inv hr
  | new => exact new_inv ..
  | addHashAb x a _ ih => exact addHashAb_inv ih x a
  | pyAddHashAb _ hr ih => exact py_addHashWithAbundance_inv ih hr
  | addMany xs _ ih => exact addMany_inv ih xs
  | addFrom o _ ih => exact addFrom_inv ih o
  | removeMany xs _ ih => exact removeMany_inv ih xs
  | removeFrom o _ ih => exact removeFrom_inv ih o
  | setHashAb x a _ ih => exact setHashAb_inv ih x a
  | setAbundances _ hr ih => exact py_setAbundances_inv ih hr
  | clear _ _ => exact clear_inv _
  | merge _ hr _ => exact merge_inv hr
  | md5query _ ih => exact md5sum_state_inv ih
  | cloneSrc _ ih => exact (clone_inv ih).1
  | cloneDst _ ih => exact (clone_inv ih).2
  | downsampleScaled _ hr ih => exact downsampleScaled_inv ih _ hr
  | ffiInterSrc _ hr ih => exact (ffiIntersection_inv ih hr).1
  | ffiInterDst _ hr ih => exact (ffiIntersection_inv ih hr).2
  | inflate _ hr _ => exact inflate_inv hr
  | pyCopy _ hr _ => exact py_copy_inv hr
  | pyPickle _ _ => exact py_pickle_inv _
  | pyDownsample _ hr _ => exact py_downsample_inv hr
  | pyFlatten _ hr _ => exact py_flatten_inv hr
  | pyAdd _ hr _ => exact py_add_inv hr
  | pyInterSrc _ hr ih => exact (py_intersection_inv ih hr).1
  | pyInterDst _ hr ih => exact (py_intersection_inv ih hr).2
  | pyInflate _ hr _ => exact py_inflate_inv hr

/-- **C11, main statement.**  In every reachable state an md5 query answers the
digest pre-image of the *current* k-mer size and hash values. -/
theorem md5_valid {s : MH} (h : Reach s) : s.md5sum.2 = ⟨s.ksize, s.mins⟩ :=
  md5sum_eq_digest (cache_inv_reachable h)

/-- equal content (k and hashes) means equal md5 pre-image, whatever the two histories were -/
theorem equal_content_equal_md5 {s t : MH} (hs : Reach s) (ht : Reach t)
    (hk : s.ksize = t.ksize) (hm : s.mins = t.mins) : s.md5sum.2 = t.md5sum.2 := by
  rw [md5_valid hs, md5_valid ht, hk, hm]

/-- a changed hash set changes what is fed to md5 (so the md5 changes, modulo md5 collisions) -/
theorem changed_hashes_changed_preimage {s t : MH} (hs : Reach s) (ht : Reach t)
    (hm : s.mins ≠ t.mins) : s.md5sum.2 ≠ t.md5sum.2 := by
  rw [md5_valid hs, md5_valid ht]
  intro h
  injection h with _ h2
  exact hm h2

/-- the md5 is independent of when it was asked before: asking twice, or asking
after an intermediate query, gives the same answer -/
theorem md5_query_idempotent {s : MH} (h : Reach s) : s.md5sum.1.md5sum.2 = s.md5sum.2 := by
  have h1 := md5_valid (Reach.md5query h)
  have h2 := md5_valid h
  have hc := md5sum_state_content s
  have hk : s.md5sum.1.ksize = s.ksize := by unfold MH.md5sum; split <;> simp
  rw [h1, h2, hc.1, hk]

/-- the three histories that were stale before the repair (D3), now as theorems -/
theorem md5_after_clear {s : MH} (h : Reach s) : (s.md5sum.1.clear).md5sum.2 = ⟨s.ksize, []⟩ := by
  have := md5_valid (Reach.clear (Reach.md5query h))
  have hk : s.md5sum.1.ksize = s.ksize := by unfold MH.md5sum; split <;> simp
  simpa [MH.clear, hk] using this

/-! ### the tie to the source: where `reset_md5sum()` stands in minhash.rs (re-read by
`harness/translators/mhcore.py` on every run)

The model gives `md5 := none` in exactly the branches listed here; each statement below is about the
constants the translator extracted from the CURRENT source, so an edit that drops a reset, adds a mutating
method, or changes what md5sum digests breaks the named theorem (before the stream has to find an input). -/

/-- every statement of every `&mut self` method of `KmerMinHash` (and of `KmerMinHashBTree`) that writes an
input of the md5 (`self.mins`, `self.ksize`) has a `self.reset_md5sum()` on every way out -/
theorem every_mutation_site_resets :
    Sm.Gen.mhResetSites.all (·.2) = true ∧ Sm.Gen.mhBtResetSites.all (·.2) = true := by decide

/-- the methods that write `mins` directly are the five the model resets the cache in
(`addHashAb`, `clear`, `inflate`, `merge`, `removeHash`) -/
theorem mutators_are_the_modelled_ones :
    Sm.Gen.mhMutatorFns = ["add_hash_with_abundance", "clear", "inflate", "merge", "remove_hash"] ∧
    Sm.Gen.mhBtMutatorFns = ["add_hash_with_abundance", "clear", "merge", "remove_hash"] := by decide

/-- every other `&mut self` method changes the hashes only by calling those (the model's `addHash`, `addMany`,
`addManyAb`, `addFrom`, `removeMany`, `removeFrom`, `setHashAb` are folds of `addHashAb` / `removeHash`;
`enable/disable_abundance` and `set_hash_function` touch no md5 input) -/
theorem delegators_are_the_modelled_ones :
    Sm.Gen.mhDelegators =
      [("add_from", ["add_hash"]), ("add_hash", ["add_hash_with_abundance"]),
       ("add_hash_with_abundance", ["remove_hash"]), ("add_many", ["add_hash"]),
       ("add_many_with_abund", ["add_hash_with_abundance"]), ("add_word", ["add_hash"]), ("clear", []),
       ("disable_abundance", []), ("enable_abundance", []), ("inflate", []), ("merge", []),
       ("remove_from", ["remove_hash"]), ("remove_hash", []), ("remove_many", ["remove_hash"]),
       ("set_hash_function", []), ("set_hash_with_abundance", ["add_hash_with_abundance"]),
       ("SigsTrait::add_hash", ["add_hash_with_abundance"])] ∧
    Sm.Gen.mhTraitProvided.all (fun p => p.2.all (fun c => c = "add_hash" ∨ c = "hash_function" ∨
      c = "ksize" ∨ c = "seed")) = true := by decide

/-- branch by branch: the three `mins`-changing branches of `add_hash_with_abundance` reset, the
abundance-increment branch is not a write to `mins`; `remove_hash`, `clear`, `merge`, `inflate` reset -/
theorem reset_sites_match_model :
    Sm.Gen.mhAddResets = [("empty-push", true), ("append", true), ("insert", true)] ∧
    Sm.Gen.mhRemoveResets = true ∧ Sm.Gen.mhClearResets = true ∧ Sm.Gen.mhMergeResets = true ∧
    Sm.Gen.mhInflateResets = true := by decide

/-- `md5sum()` is lazy and digests the k-mer size and the hashes only; `Clone` pre-fills the copy's cache;
the FFI entry points on the md5 routes call what the model calls -/
theorem md5_shape_matches_model :
    Sm.Gen.mhMd5Lazy = true ∧ Sm.Gen.mhMd5Inputs = ["ksize", "mins"] ∧ Sm.Gen.mhClonePrefillsMd5 = true ∧
    Sm.Gen.mhFfiGlueAsModelled = true ∧
    Sm.Gen.mhFfiCalls.lookup "kmerminhash_md5sum" = some ["md5sum"] ∧
    Sm.Gen.mhFfiCalls.lookup "kmerminhash_intersection" = some ["intersection", "clone", "clear", "add_many"] ∧
    Sm.Gen.mhFfiCalls.lookup "kmerminhash_set_abundances" = some ["sort(pairs)", "clear", "add_many_with_abund"] ∧
    "kmerminhash_md5sum" ∉ Sm.Gen.mhFfiMutable := by decide

/-! ### object level: the whole handle table of the `mh` stream, signature objects included

`DriverMh.exec` is what the correspondence run executes for every line (`DriverMh.step st line =
render (exec st (parseD line))` by definition).  A signature object is a cell of its own (the sketch is cloned
in by the constructor / the `.minhash` setter and cloned out by every `.minhash` read). -/

open Sm.DriverMh

theorem md5sum_ksize (s : MH) : s.md5sum.1.ksize = s.ksize := by
  unfold MH.md5sum; split <;> simp

theorem digest_md5sum (s : MH) : s.md5sum.1.digest = s.digest := by
  simp only [MH.digest, md5sum_ksize, (md5sum_state_content s).1]

theorem digest_clone (s : MH) : s.clone.1.digest = s.digest ∧ s.clone.2.digest = s.digest := by
  have hc := clone_content s
  have hk1 : s.clone.1.ksize = s.ksize := by unfold MH.clone; exact md5sum_ksize s
  have hk2 : s.clone.2.ksize = s.ksize := by unfold MH.clone; exact md5sum_ksize s
  simp only [MH.digest, hk1, hk2, hc.1, hc.2.2.1, and_self]

/-- `CacheInv` is preserved by every model function the driver calls -/
theorem cacheInv_closed : Closed CacheInv where
  mkNew := fun h => py_mkMinHash_inv h
  addHash := fun v h => addHash_inv h v
  pyAddAb := fun h hr => py_addHashWithAbundance_inv h hr
  addMany := fun vs h => addMany_inv h vs
  addFrom := fun o h _ => addFrom_inv h o
  removeMany := fun vs h => removeMany_inv h vs
  removeFrom := fun o h _ => removeFrom_inv h o
  setAb := fun h hr => py_setAbundances_inv h hr
  clear := fun _ => clear_inv _
  merge := fun _ _ hr => merge_inv hr
  add := fun _ _ hr => py_add_inv hr
  copy := fun _ hr => py_copy_inv hr
  pickle := fun _ => py_pickle_inv _
  downsample := fun _ hr => py_downsample_inv hr
  flatten := fun _ hr => py_flatten_inv hr
  inter := fun h _ hr => py_intersection_inv h hr
  inflate := fun _ _ hr => py_inflate_inv hr
  md5sum := fun h => md5sum_state_inv h
  clone := fun h => clone_inv h

/-- **the cache invariant holds in every cell of the table** (sketch handles and signature objects) after every
history of operations of the stream -/
theorem table_cache_inv (ops : List Op) : All CacheInv (run init ops).1 :=
  all_run cacheInv_closed ops (all_init _)

/-- the slot whose md5 an operation reports -/
def md5Slot : Op → Option Nat
  | .md5raw h => some h
  | .md5 h => some h
  | .sig s _ => some (sigSlot s)
  | .sigsetmh s _ => some (sigSlot s)
  | .sigmd5 s => some (sigSlot s)
  | .sigadd s _ _ => some (sigSlot s)
  | .sigcopy r _ => some (sigSlot r)
  | _ => none

/-- the answer is truthful about the table as it is AFTER the operation: an md5 answer is the digest of the
current k-mer size and hashes of the object asked; a signature's line shows its current k and hashes and,
twice (`sig.md5sum()` and the md5 of `sig.minhash`), their digest -/
def AnsOk (st' : St) (op : Op) : Ans → Prop
  | .digest d => ∃ h c, md5Slot op = some h ∧ get st' h = some c ∧ d = c.digest
  | .sig k mins d1 d2 => ∃ h c, md5Slot op = some h ∧ get st' h = some c ∧
      k = c.ksize ∧ mins = c.mins ∧ d1 = c.digest ∧ d2 = c.digest
  | _ => True

theorem ansOk_finA (st : St) (r : Nat) (x : Except MH.Err MH) (op : Op) :
    AnsOk (finA st r x).1 op (finA st r x).2 := by
  unfold finA; split <;> trivial

theorem showSig_valid {st : St} (h : All CacheInv st) (s : Nat) (op : Op)
    (hop : md5Slot op = some (sigSlot s)) : AnsOk (showSig st s).1 op (showSig st s).2 := by
  unfold showSig
  split
  · trivial
  · rename_i cell hcell
    have hi := h _ _ hcell
    have hlt := lt_size_of_get hcell
    have c1 := clone_inv hi
    have c2 := clone_inv c1.1
    have d1 := digest_clone cell
    have d2 := digest_clone cell.clone.1
    have hk : cell.clone.1.clone.1.ksize = cell.ksize := by
      have := congrArg Digest.ksize (d2.1.trans d1.1); simpa [MH.digest] using this
    have hm : cell.clone.1.clone.1.mins = cell.mins := by
      have := congrArg Digest.mins (d2.1.trans d1.1); simpa [MH.digest] using this
    refine ⟨sigSlot s, cell.clone.1.clone.1, hop, get_put_self _ hlt, hk.symm, hm.symm, ?_, ?_⟩
    · rw [md5sum_eq_digest c1.2, d1.2, d2.1, d1.1]
    · rw [md5sum_eq_digest c2.2, d2.2, d2.1]

/-- **one operation**: from a table whose caches are all empty-or-valid, every md5 the operation reports is the
digest of the current content of the object asked -/
theorem exec_answer_valid (st : St) (op : Op) (h : All CacheInv st) :
    AnsOk (exec st op).1 op (exec st op).2 := by
  cases op with
  | md5raw hd =>
    simp only [exec]
    split
    · rename_i s hs
      exact ⟨hd, s.md5sum.1, rfl, get_put_self _ (lt_size_of_get hs),
        by rw [md5sum_eq_digest (h _ _ hs), digest_md5sum]⟩
    · trivial
  | md5 hd =>
    simp only [exec]
    split
    · rename_i s hs
      have c1 := clone_inv (h _ _ hs)
      have c2 := clone_inv c1.2
      refine ⟨hd, s.clone.1, rfl, get_put_self _ (lt_size_of_get hs), ?_⟩
      rw [md5sum_eq_digest c2.2, (digest_clone s.clone.2).2, (digest_clone s).2, (digest_clone s).1]
    · trivial
  | sig s hd =>
    simp only [exec]
    split
    · rename_i src hsrc
      have := clone_inv (h _ _ hsrc)
      exact showSig_valid ((h.put hd this.1).put _ this.2) s _ rfl
    · trivial
  | sigsetmh s hd =>
    simp only [exec]
    split
    · rename_i c src hcell hsrc
      have := clone_inv (h _ _ hsrc)
      exact showSig_valid ((h.put hd this.1).put _ this.2) s _ rfl
    · trivial
  | sigmd5 s =>
    simp only [exec]
    split
    · exact showSig_valid h s _ rfl
    · trivial
  | sigadd s bytes force =>
    simp only [exec]
    split
    · rename_i cell hcell
      have h' := h.put (sigSlot s) (addMany_inv (h _ _ hcell) (sigHashes cell bytes force).1)
      split
      · trivial
      · exact showSig_valid h' s _ rfl
    · trivial
  | sigcopy r s =>
    simp only [exec]
    split
    · rename_i cell hcell
      have := clone_inv (h _ _ hcell)
      exact showSig_valid ((h.put _ this.1).put _ this.2) r _ rfl
    · trivial
  | addseq hd bytes force =>
    simp only [exec]
    split
    · split <;> trivial
    · trivial
  | unparsed => trivial
  | reset => trivial
  | skip => trivial
  | new r num scaled tr ksize seed => exact ansOk_finA ..
  | newmh r num mx tr ksize seed => exact ansOk_finA ..
  | add hd v => simp only [exec]; split <;> first | exact ansOk_finA .. | trivial
  | addab hd v a => simp only [exec]; split <;> first | exact ansOk_finA .. | trivial
  | addmany hd vs => simp only [exec]; split <;> first | exact ansOk_finA .. | trivial
  | addfrom hd g => simp only [exec]; split <;> first | exact ansOk_finA .. | trivial
  | rm hd vs => simp only [exec]; split <;> first | exact ansOk_finA .. | trivial
  | rmfrom hd g => simp only [exec]; split <;> first | exact ansOk_finA .. | trivial
  | setab hd c ps => simp only [exec]; split <;> first | exact ansOk_finA .. | trivial
  | clear hd => simp only [exec]; split <;> first | exact ansOk_finA .. | trivial
  | merge hd g => simp only [exec]; split <;> first | exact ansOk_finA .. | trivial
  | plus r hd g => simp only [exec]; split <;> first | exact ansOk_finA .. | trivial
  | copy r hd => simp only [exec]; split <;> first | exact ansOk_finA .. | trivial
  | pickle r hd => simp only [exec]; split <;> first | exact ansOk_finA .. | trivial
  | down r hd sc => simp only [exec]; split <;> first | exact ansOk_finA .. | trivial
  | downnum r hd n => simp only [exec]; split <;> first | exact ansOk_finA .. | trivial
  | flat r hd =>
    simp only [exec]
    split
    · split <;> exact ansOk_finA ..
    · trivial
  | inter r hd g =>
    simp only [exec]
    split
    · split <;> exact ansOk_finA ..
    · trivial
  | inflate r hd g => simp only [exec]; split <;> first | exact ansOk_finA .. | trivial
  | cc hd g ds =>
    simp only [exec]
    split
    · split <;> trivial
    · trivial
  | iu hd g =>
    simp only [exec]
    split
    · split
      · trivial
      · split <;> trivial
    · trivial
  | «show» hd => simp only [exec]; split <;> trivial

/-- **C11 at the object level, every history.**  Whatever list of operations of the stream is run from the empty
table — sketch operations and signature-object operations, on any handles, in any order — at EVERY step every
cache in the table is empty or valid, and every md5 answer printed at that step is the digest of the k-mer size
and hashes the object asked holds at that moment. -/
theorem md5_answers_valid (ops : List Op) :
    ∀ t ∈ trace init ops, All CacheInv t.1 ∧ AnsOk t.1 t.2.1 t.2.2 :=
  trace_forall cacheInv_closed exec_answer_valid ops (all_init _)

/-- the same, about the text the driver prints in the correspondence run: the output lines of a case are the
renderings of answers each of which is valid in the above sense -/
theorem md5_lines_valid (lines : List String) :
    (stepLines init lines).2 = (trace init (lines.map parseD)).map (fun t => render t.2.2) ∧
    ∀ t ∈ trace init (lines.map parseD), AnsOk t.1 t.2.1 t.2.2 :=
  ⟨lines_trace init lines, fun t ht => (md5_answers_valid _ t ht).2⟩

/-- an md5 query on a live handle IS answered with a digest (the theorem above is not vacuous), and does not
change what the handle holds -/
theorem md5_query_answers {st : St} {h : Nat} {s : MH} (hs : get st h = some s) :
    (∃ d, (exec st (.md5raw h)).2 = .digest d) ∧ (∃ d, (exec st (.md5 h)).2 = .digest d) ∧
    (∃ c, get (exec st (.md5raw h)).1 h = some c ∧ c.mins = s.mins ∧ c.abunds = s.abunds) ∧
    (∃ c, get (exec st (.md5 h)).1 h = some c ∧ c.mins = s.mins ∧ c.abunds = s.abunds) := by
  have hlt := lt_size_of_get hs
  simp only [exec, hs]
  exact ⟨⟨_, rfl⟩, ⟨_, rfl⟩,
    ⟨_, get_put_self _ hlt, (md5sum_state_content s).1, (md5sum_state_content s).2⟩,
    ⟨_, get_put_self _ hlt, (clone_content s).2.2.1, (clone_content s).2.2.2⟩⟩

/-- non-vacuity, concretely: a sketch is wrapped in a signature (md5 cached on both sides), the signature gets a
sequence added, the sketch is cleared and refilled: the md5 lines are digests of the then-current content -/
example :
    let ops : List Op := [.new 0 0 1 false 3 42, .add 0 5, .sig 0 0, .md5raw 0, .clear 0, .add 0 7, .sigsetmh 0 0,
                          .md5raw 0, .md5 0]
    (run init ops).2.drop 6 = [.sig 3 [7] ⟨3, [7]⟩ ⟨3, [7]⟩, .digest ⟨3, [7]⟩, .digest ⟨3, [7]⟩] ∧
    (run init ops).2[2]? = some (.sig 3 [5] ⟨3, [5]⟩ ⟨3, [5]⟩) ∧
    (run init ops).2[3]? = some (.digest ⟨3, [5]⟩) := by
  decide +kernel

/-! non-vacuity: a concrete reachable state with a filled cache that is then mutated -/
example :
    let s0 := MH.new 1 21 1 42 false 0
    let s1 := (s0.addHash 5).md5sum.1
    let s2 := s1.clear.addHash 7
    s2.md5sum.2 = ⟨21, [7]⟩ ∧ s1.md5 ≠ none := by decide

end Sm.C11
