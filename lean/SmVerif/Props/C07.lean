/-
C07 — gather yields a correct greedy minimum metagenome cover with exact accounting.

What is modelled (`Model/Gather.lean`): `CounterGather` (add / downsample / peek / consume / union_found),
`Index.find / prefetch / best_containment / peek / consume / counter_gather` of an in-memory index,
`_find_best`, `GatherDatabases.__init__ / _update_scaled / __next__`, the integer and ratio columns of
`GatherResult`, the ident / noident bookkeeping of `commands.gather`.  The algorithm is written once,
generically in the sketch type; the theorems below are about its instance on *list sketches*
(`Model/GatherL.lean`: scaled value + ascending hash list + abundances, every operation a filter),
which the `gather` correspondence stream runs next to the `MH` instance and the real code on every case.
The two instances are tied by a proof as well (`instance_tie_ops`, `instance_tie_run`): every sketch operation
of the shared MinHash model commutes with the abstraction `ofMH`, and a prefetch-mode run of the `MH` instance
reports exactly the records of the list-sketch run on the abstracted inputs.

Notation.  `dn s l` = the hashes of `l` a sketch at scaled `s` retains; `ovl Q D` = number of elements
of `Q` in `D` (for ascending lists `|Q ∩ D|`); `diffL Q D = Q ∖ D`; `g.unassigned sq sd` = the
still-unassigned query hashes at the comparison resolution `max sq sd`; `reaches thr s n k` = the
code's own test "`k` is not below `threshold_bp / scaled`" (and the threshold is attainable).

Setting of the main theorems: query at scaled `sq`, every database sketch at one scaled `sd` (finer,
equal or coarser), prefetch mode (`counter_gather` + `GatherDatabases`), any threshold, flat or
abundance query, with or without ignoring abundance, any number of databases / counters.

Assumptions that are explicit hypotheses:
* `ScoreLaws ops`: at a fixed query size and resolution (scaled ≥ 1) `contained_by` is strictly increasing
  in the overlap.  The code's value is `min(1, c / (d·(1 − (1 − 1/s)^(d·s))))` computed in doubles (libm
  `pow`); the law is PROVED for the exact value of that expression (`score_law_exact`: `c ≤ d − 1` never
  reaches the clamp because `(1 − 1/s)^(d·s) < 1/d`) and for plain fractions (`ratOps_laws`); that the
  rounded doubles keep the strict order is checked by the correspondence stream only.
* sizes below `2^53` (integers convert to doubles exactly).
* the input condition of `greedy_max` / `stops_only_below`: `threshold_bp = 0`, or the query is at least as
  coarse as the database.  (The float-division monotonicity `PrefetchPermissive` that used to be a second
  hypothesis is now proved, `prefetch_permissive`.)  Without the input condition the two statements are FALSE:
  finding D6g (`d6_gather_misses_reportable`).

Findings (each with a kernel-checked witness below):
* D6g — D6 lifted to gather (known): query finer than the database and `threshold_bp > 0`
  (`d6_gather_misses_reportable`).
* C07.1 — databases mixing scaled values: the fractions can sum above 1 (known;
  `mixed_scaled_fractions_sum_above_one`).
* D25 — prefetch-mode gather over a database mixing scaled values died on `assert cont` in
  `CounterGather.peek` (stale counter).  FIXED upstream (lazy refresh in `peek`); the model follows the patched
  code, `mixed_scaled_no_assertion` keeps the old witness as a regression check, and `peek_never_asserts` /
  `gather_never_asserts` prove that no `AssertionError` can come out of a prefetch-mode run over any database
  (given `AssertLaws`, see there).
* C07.3 — `f_match` is the debiased containment (known; see the `column_defs` comment).
-/
import SmVerif.Lemmas.GatherExamples
import SmVerif.Lemmas.GatherMixed
import SmVerif.Lemmas.GatherDebias
import SmVerif.Lemmas.GatherNoAssert
import SmVerif.Lemmas.GatherThreshold
import SmVerif.Lemmas.GatherSimMH
import SmVerif.Lemmas.GatherCli

set_option autoImplicit false

namespace Sm.C07

open Sm Sm.Gather

variable {σ : Type} {ops : ScoreOps σ}

/-! ### tie to the source: operators re-read by the translator -/

/-- the comparison operators and the threshold arithmetic the model hard-codes are the ones the translator
reads in the current source (`harness/translators/gather.py` → `Model/Generated.lean`): `_find_best` keeps the
earlier counter unless the new score is strictly greater (`better`: `ops.gt`); `CounterGather.peek` returns
nothing when `match_size < n_threshold_hashes` (`belowThreshold`); `calc_threshold_from_bp` divides
`float(threshold_bp)` by `scaled`, then by the query size, and refuses thresholds `> 1.0` (`calcThreshold`);
`CounterGather.peek` re-counts the entry it is about to return and refreshes / drops a stale counter
(`peekLoop`, the fix of finding D25) -/
theorem translator_shapes :
    Gen.gatherFindBestCmp = "gt" ∧ Gen.gatherPeekBelowCmp = "lt" ∧
    Gen.gatherThresholdShape = "bp/scaled;n/query_size;unattainable-gt-1.0" ∧
    Gen.gatherPeekLoop = "lazy-refresh" := by decide

/-! ### `counter_inv` -/

/-- the identity behind `consume`: `|(Q ∖ B) ∩ D| = |Q ∩ D| − |(Q ∩ B) ∩ D|` -/
theorem accounting_identity (Q B D : List Nat) :
    ovl (diffL Q B) D = ovl Q D - ovl (Q.filter (inL B)) D := by
  have := ovl_split Q B D; omega

/-- `counter_inv`, establishment: `Index.counter_gather` returns a counter whose every entry equals
`|Q ∩ D_d|` at the comparison resolution, loaded with exactly the database sketches that pass the
prefetch threshold -/
theorem counter_inv_init {q : LS} (hq : q.WF) {sd thr : Nat} {db : List (Sig LS)} {c : Counter LS}
    (hdb : ∀ d ∈ db, d.mh.WF ∧ d.mh.scaled = sd) (hmd5 : MD5OK db)
    (h : counterGather lsOps db q thr = .ok c) :
    ∃ t nT, calcThreshold thr q.scaled q.hs.length = .ok (t, nT) ∧
      CInv (max q.scaled sd) (db.filter (fun d => passes (findScore q.flat d.mh) t))
        (dn (max q.scaled sd) q.hs) c ∧ c.origQuery = q.flat :=
  counterGather_spec hq hdb hmd5 h

/-- `counter_inv`, preservation: consuming `Q ∩ B` turns exactness for `Q` into exactness for `Q ∖ B`;
entries whose counter reaches 0 are deleted and only those -/
theorem counter_inv_step {s : Nat} {cand : List (Sig LS)} {Q B : List Nat} {c : Counter LS} {inter : LS}
    (hc : CInv s cand Q c) (hs : inter.scaled = s) (hI : inter.hs = Q.filter (inL B)) (hQ : Sorted Q) :
    ∃ c', c.consume lsOps inter = .ok c' ∧ CInv s cand (diffL Q B) c' ∧
      c'.origQuery = c.origQuery ∧ c'.scaled = c.scaled :=
  hc.consume hs hI hQ

/-- `counter_inv` at every round: the invariants hold in every state reachable from the initial one -/
theorem counter_inv (laws : ScoreLaws ops) {sq sd : Nat} {cls : List (List (Sig LS))} {Q0 NI0 : List Nat}
    {g0 g : GD LS} (h0 : GInv sq sd cls g0) (a0 : AInv sq sd Q0 NI0 g0) (hr : Reach ops g0 g) :
    AllInv (max sq sd) (g.unassigned sq sd) cls g.counters :=
  (reach_inv laws h0 a0 hr).1.counters

/-- the invariants hold after `counter_gather` per database and `GatherDatabases.__init__` -/
theorem inv_init {q : LS} (hq : q.WF) {sd thr : Nat} (hsd1 : 1 ≤ sd) (hsd2 : sd ≤ 2 ^ 31) {t nT : F64.F}
    (hthr : calcThreshold thr q.scaled q.hs.length = .ok (t, nT))
    {dbs : List (List (Sig LS))} {cs : List (Counter LS)} {ign : Bool} {g : GD LS}
    (hdb : ∀ db ∈ dbs, ∀ d ∈ db, d.mh.WF ∧ d.mh.scaled = sd) (hmd5 : ∀ db ∈ dbs, MD5OK db)
    (hcs : List.Forall₂ (fun db c => counterGather lsOps db q thr = .ok c) dbs cs)
    (hsize : q.hs.length < 2 ^ 53)
    (h : GD.init lsOps q (cs.map CObj.cg) thr ign none none = .ok g) :
    GInv q.scaled sd (candLists q t dbs) g ∧ AInv q.scaled sd q.hs [] g ∧
    g.unassigned q.scaled sd = dn (max q.scaled sd) q.hs ∧ g.thresholdBp = thr ∧ g.origSigMh = q ∧
    g.resultN = 0 := by
  have hall := allInv_counterGather hq hthr dbs cs hdb hmd5 hcs
  have hcand : ∀ cl ∈ candLists q t dbs, ∀ d ∈ cl, d.mh.WF ∧ d.mh.scaled = sd := by
    intro cl hcl d hd
    obtain ⟨db, hdbm, rfl⟩ := List.mem_map.1 hcl
    exact hdb db hdbm d (List.mem_filter.1 hd).1
  exact init_invariants hq hsd1 hsd2 hcand hall hsize h

/-! ### one round: `greedy_max`, `removes_exactly`, `stops_only_below`, `column_defs` -/

/-- **one call of `__next__`** in a state satisfying the invariants.
* `StopIteration`: nothing is unassigned, or every candidate list is stuck (no overlap left, or its best
  overlap does not reach the threshold); the unassigned set is unchanged.
* a result: the reported sketch is a candidate whose overlap with the unassigned hashes is maximal among
  all candidates of all counters and reaches the threshold (`greedy_max`); the unique intersection is
  (unassigned) ∩ (match) and is non-empty; the new unassigned set is (unassigned) ∖ (match)
  (`removes_exactly`); the columns are the stated functions of these sets (`column_defs`, `ColsOK`);
  the invariants hold again. -/
theorem round (laws : ScoreLaws ops) {sq sd : Nat} {cls : List (List (Sig LS))} {g g' : GD LS}
    {r : Option (GRes σ)} {Q0 NI0 : List Nat} (hinv : GInv sq sd cls g) (ha : AInv sq sd Q0 NI0 g)
    (h : g.next lsOps ops = .ok (g', r)) :
    match r with
    | none => g'.query = g.query ∧ GInv sq sd cls g' ∧ AInv sq sd Q0 NI0 g' ∧
        (g.unassigned sq sd = [] ∨ ∀ cl ∈ cls, Stuck (max sq sd) g.thresholdBp (g.unassigned sq sd) cl)
    | some res => ∃ best ∈ cls.flatten,
        res.name = best.name ∧ res.md5 = best.md5 ∧
        (∀ d ∈ cls.flatten, ovl (g.unassigned sq sd) (dn (max sq sd) d.mh.hs)
            ≤ ovl (g.unassigned sq sd) (dn (max sq sd) best.mh.hs)) ∧
        reaches g.thresholdBp (max sq sd) (g.unassigned sq sd).length
          (ovl (g.unassigned sq sd) (dn (max sq sd) best.mh.hs)) ∧
        g.unassigned sq sd ≠ [] ∧
        res.isectCur = (g.unassigned sq sd).filter (inL (dn (max sq sd) best.mh.hs)) ∧ res.isectCur ≠ [] ∧
        g'.unassigned sq sd = diffL (g.unassigned sq sd) (dn (max sq sd) best.mh.hs) ∧
        g'.query.hs = diffL (g.unassigned sq sd) (dn (max sq sd) best.mh.hs) ∧
        g'.cmpScaled = max sq sd ∧ res.cmpScaled = max sq sd ∧ res.rank = g.resultN ∧
        g'.resultN = g.resultN + 1 ∧ g'.thresholdBp = g.thresholdBp ∧
        GInv sq sd cls g' ∧ AInv sq sd Q0 NI0 g' ∧
        g'.origSigMh = g.origSigMh ∧ g'.origQueryAbunds = g.origQueryAbunds ∧
        g'.trackAbundance = g.trackAbundance ∧
        ColsOK ops res best (max sq sd) (max sq sd) g.origSigMh.hs g.query.hs g.origQueryAbunds
          g.trackAbundance g.resultN
          (wsum g.origQueryAbunds (dn (max sq sd) Q0) + wsum g.origQueryAbunds (dn (max sq sd) NI0)
            - (wsum g.origQueryAbunds (diffL (g.unassigned sq sd) (dn (max sq sd) best.mh.hs))
                + wsum g.origQueryAbunds (dn (max sq sd) NI0)))
          ((dn (max sq sd) Q0).length + (dn (max sq sd) NI0).length) ((dn (max sq sd) NI0).length * max sq sd)
          (wsum g.origQueryAbunds (dn (max sq sd) Q0) + wsum g.origQueryAbunds (dn (max sq sd) NI0))
          g.origSigMh.scaled :=
  next_spec laws hinv ha h rfl rfl

/-- `column_defs`, spelled out: with `I0 = (original query) ∩ (match)`, `U = (unassigned) ∩ (match)` at the
comparison resolution `s`, `N = orig_query_len`:
`intersect_bp = |I0|·s`, `unique_intersect_bp = |U|·s`, `f_orig_query = |I0| / N`, `f_unique_to_query = |U| / N`
(correctly rounded doubles), `f_match = contained_by(|U|, |match|, s)`, `remaining_bp`, the abundance-weighted
columns from the original abundances restricted to `U`, `sum_weighted_found`, `total_weighted_hashes`. -/
theorem column_defs {res : GRes σ} {best : Sig LS} {s : Nat} {origHs gqHs : List Nat}
    {abunds : List (Nat × Nat)} {track : Bool} {rank swf N noidLen total origScaled : Nat}
    (h : ColsOK ops res best s s origHs gqHs abunds track rank swf N noidLen total origScaled) :
    res.intersectBp = ((dn s origHs).filter (inL (dn s best.mh.hs))).length * s ∧
    res.uniqueIntersectBp = res.isectCur.length * s ∧
    res.isectCur = (dn s gqHs).filter (inL (dn s best.mh.hs)) ∧
    res.fOrigQuery = F64.divNat ((dn s origHs).filter (inL (dn s best.mh.hs))).length N ∧
    res.fUniqueToQuery = F64.divNat res.isectCur.length N ∧
    res.fMatch = (if (dn s best.mh.hs).length = 0 then ops.ofF fzero
                  else ops.contained res.isectCur.length (dn s best.mh.hs).length s) ∧
    res.remainingBp = noidLen + (dn s gqHs).length * s - res.isectCur.length * s ∧
    res.rank = rank ∧ res.sumWeightedFound = swf ∧ res.totalWeightedHashes = total ∧
    res.nUniqueWeightedFound = (if !track then none else some (sumNats (abGetD1 abunds res.isectCur))) ∧
    res.fUniqueWeighted = (if !track then F64.divNat res.isectCur.length N
                           else F64.divNat (sumNats (abGetD1 abunds res.isectCur)) total) ∧
    res.avgAbund = (if !track then none
                    else some (sumNats (abGetD1 abunds res.isectCur), (abGetD1 abunds res.isectCur).length)) ∧
    res.medAbund = (if !track then none else some (medianQ (abGetD1 abunds res.isectCur))) ∧
    N ≠ 0 ∧ total ≠ 0 := by
  unfold ColsOK at h
  simp only [] at h
  obtain ⟨_, _, h3, _, _, h6, _, _, h9, h10, h11, h12, h13, h14, h15, h16, h17, h18, h19, h20, _, _, _, _, h25, h26⟩ := h
  rw [h6]
  exact ⟨h9, h10, rfl, h11, h12, h13, h18, h3, h19, h20, h17, h14, h15, h16, h25, h26⟩

/-! ### the whole database: `greedy_max`, `stops_only_below`, `never_revives` -/

/- FULL STATEMENT (false without the input condition):
     greedy_max : in every reachable state, a reported sketch has maximal overlap with the unassigned hashes
       among ALL database sketches and that overlap reaches the threshold;
     stops_only_below : the iteration stops only when no database sketch reaches the threshold.
   Both are FALSE when the query is finer than the database and threshold_bp > 0 (finding D6g,
   `d6_gather_misses_reportable`): prefetch converts threshold_bp into a containment fraction with the
   query's original scaled and size and compares it after downsampling.
   Proved below for every other input (`threshold_bp = 0`, or query at least as coarse as the database): the
   float hypothesis `PrefetchPermissive` the earlier `_partial` versions carried is now a theorem
   (`prefetch_permissive`, from C06's monotonicity of the correctly rounded quotient). -/

/-- the prefetch pass accepts whatever the per-round threshold test accepts when both are taken at the same
resolution and size: `k ≥ fl(bp/s)` ⇒ `fl(k/n) ≥ fl(fl(bp/s)/n)` (sizes below `2^53`) -/
theorem prefetch_permissive {thr s n0 : Nat} {t nT : F64.F} (hthr : thr < 2 ^ 53) (hs : s < 2 ^ 53)
    (hn : n0 < 2 ^ 53) (h : calcThreshold thr s n0 = .ok (t, nT)) : PrefetchPermissive t nT n0 :=
  prefetchPermissive_calc hthr hs hn h

/-- both threshold tests of gather are the integer test `bp ≤ k · scaled` (for `bp ≤ 2^50`):
`CounterGather.peek`'s `match_size < n_threshold_hashes` and `Index.find`'s `shared / n >= threshold` -/
theorem threshold_tests_exact {bp S n k : Nat} {t nT : F64.F} (hS0 : 0 < S) (hS : S < 2 ^ 53) (hn0 : 0 < n)
    (hn : n < 2 ^ 53) (hk : k ≤ n) (hbp : bp ≤ 2 ^ 50) (h : calcThreshold bp S n = .ok (t, nT)) :
    (belowThreshold (k : Int) nT = false ↔ bp ≤ k * S) ∧
    (passes (scoreContainment n k) t = true ↔ (k ≠ 0 ∧ bp ≤ k * S)) :=
  ⟨not_below_iff_bp hS hbp (lt_of_le_of_lt hk hn) h, passes_iff_bp hS hn hk hbp hS0 hn0 h⟩

theorem greedy_max (laws : ScoreLaws ops) {q : LS} (hq : q.WF) {sd thr : Nat} {t nT : F64.F}
    {dbs : List (List (Sig LS))} (hdb : ∀ db ∈ dbs, ∀ d ∈ db, d.mh.WF ∧ d.mh.scaled = sd)
    (hthr : calcThreshold thr q.scaled q.hs.length = .ok (t, nT)) (hin : thr = 0 ∨ sd ≤ q.scaled)
    (hthr53 : thr < 2 ^ 53) (hsize : q.hs.length < 2 ^ 53) {Q0 NI0 : List Nat} {g0 g g' : GD LS} {res : GRes σ}
    (h0 : GInv q.scaled sd (candLists q t dbs) g0) (a0 : AInv q.scaled sd Q0 NI0 g0)
    (hun0 : g0.unassigned q.scaled sd = dn (max q.scaled sd) q.hs) (hthr0 : g0.thresholdBp = thr)
    (hr : Reach ops g0 g) (hn : g.next lsOps ops = .ok (g', some res)) :
    ∃ best ∈ dbs.flatten, res.name = best.name ∧ res.md5 = best.md5 ∧
      res.isectCur = (g.unassigned q.scaled sd).filter (inL (dn (max q.scaled sd) best.mh.hs)) ∧
      (∀ d ∈ dbs.flatten, ovl (g.unassigned q.scaled sd) (dn (max q.scaled sd) d.mh.hs)
          ≤ ovl (g.unassigned q.scaled sd) (dn (max q.scaled sd) best.mh.hs)) ∧
      reaches thr (max q.scaled sd) (g.unassigned q.scaled sd).length
        (ovl (g.unassigned q.scaled sd) (dn (max q.scaled sd) best.mh.hs)) ∧
      g'.unassigned q.scaled sd = diffL (g.unassigned q.scaled sd) (dn (max q.scaled sd) best.mh.hs) :=
  greedy_max_db laws hq hdb hthr (noD6_of_inputs hq hthr53 hsize hthr hin) hsize h0 a0 hun0 hthr0 hr hn

theorem stops_only_below (laws : ScoreLaws ops) {q : LS} (hq : q.WF) {sd thr : Nat} {t nT : F64.F}
    {dbs : List (List (Sig LS))} (hdb : ∀ db ∈ dbs, ∀ d ∈ db, d.mh.WF ∧ d.mh.scaled = sd)
    (hthr : calcThreshold thr q.scaled q.hs.length = .ok (t, nT)) (hin : thr = 0 ∨ sd ≤ q.scaled)
    (hthr53 : thr < 2 ^ 53) (hsize : q.hs.length < 2 ^ 53) {Q0 NI0 : List Nat} {g0 g g' : GD LS}
    (h0 : GInv q.scaled sd (candLists q t dbs) g0) (a0 : AInv q.scaled sd Q0 NI0 g0)
    (hun0 : g0.unassigned q.scaled sd = dn (max q.scaled sd) q.hs) (hthr0 : g0.thresholdBp = thr)
    (hr : Reach ops g0 g) (hn : g.next lsOps ops = .ok (g', none)) :
    g.unassigned q.scaled sd = [] ∨
    ∀ d ∈ dbs.flatten,
      ovl (g.unassigned q.scaled sd) (dn (max q.scaled sd) d.mh.hs) = 0 ∨
      ¬ reaches thr (max q.scaled sd) (g.unassigned q.scaled sd).length
          (ovl (g.unassigned q.scaled sd) (dn (max q.scaled sd) d.mh.hs)) :=
  stops_only_below_db laws hq hdb hthr (noD6_of_inputs hq hthr53 hsize hthr hin) hsize h0 a0 hun0 hthr0 hr hn

/-- the side condition `NoD6` used by the lemma files is implied by the input condition -/
theorem noD6_of_input_condition {q : LS} {sd thr : Nat} {t nT : F64.F} (hq : q.WF) (hthr : thr < 2 ^ 53)
    (hn : q.hs.length < 2 ^ 53) (h : calcThreshold thr q.scaled q.hs.length = .ok (t, nT))
    (hin : thr = 0 ∨ sd ≤ q.scaled) : NoD6 q sd thr t nT := noD6_of_inputs hq hthr hn h hin

/-- `never_revives`: along a run the overlap of any sketch with the unassigned hashes only decreases (so a
sketch dropped by prefetch can never become eligible) -/
theorem never_revives (laws : ScoreLaws ops) {sq sd : Nat} {cls : List (List (Sig LS))} {Q0 NI0 : List Nat}
    {g0 g : GD LS} (h0 : GInv sq sd cls g0) (a0 : AInv sq sd Q0 NI0 g0) (hr : Reach ops g0 g) (D : List Nat) :
    ovl (g.unassigned sq sd) D ≤ ovl (g0.unassigned sq sd) D :=
  (reach_inv laws h0 a0 hr).2.2.shrink D

/-! ### the whole run: `uniq_disjoint`, `fractions_sum`, termination -/

/-- `uniq_disjoint`: the unique overlaps of the reported rounds are pairwise disjoint -/
theorem uniq_disjoint (laws : ScoreLaws ops) {sq sd : Nat} {cls : List (List (Sig LS))} {Q0 NI0 : List Nat}
    (n : Nat) (g gf : GD LS) (rs : List (GRes σ)) (hinv : GInv sq sd cls g) (ha : AInv sq sd Q0 NI0 g)
    (h : g.run lsOps ops n = .ok (gf, rs)) :
    (rs.map (·.isectCur)).Pairwise List.Disjoint :=
  (run_accounting laws n g gf rs hinv ha h).1

/-- `fractions_sum`: the unique overlaps are subsets of the initial unassigned hashes and, with what is left
unassigned, partition them: `Σ|U_i| + |left| = |initial|`; hence `Σ|U_i| = |⋃U_i| ≤ |initial| ≤ N` -/
theorem fractions_sum (laws : ScoreLaws ops) {sq sd : Nat} {cls : List (List (Sig LS))} {Q0 NI0 : List Nat}
    (n : Nat) (g gf : GD LS) (rs : List (GRes σ)) (hinv : GInv sq sd cls g) (ha : AInv sq sd Q0 NI0 g)
    (h : g.run lsOps ops n = .ok (gf, rs)) :
    (∀ r ∈ rs, ∀ x ∈ r.isectCur, x ∈ g.unassigned sq sd) ∧
    sumNats (rs.map (fun r => r.isectCur.length)) + (gf.unassigned sq sd).length
      = (g.unassigned sq sd).length ∧
    sumNats (rs.map (fun r => r.isectCur.length)) ≤ (g.unassigned sq sd).length := by
  obtain ⟨_, h2, _, h4, _, _⟩ := run_accounting laws n g gf rs hinv ha h
  exact ⟨h2, h4, by omega⟩

/-- termination, the measure: a reported round strictly shrinks the unassigned set -/
theorem measure_decreases (laws : ScoreLaws ops) {sq sd : Nat} {cls : List (List (Sig LS))} {g g' : GD LS}
    {res : GRes σ} {Q0 NI0 : List Nat} (hinv : GInv sq sd cls g) (ha : AInv sq sd Q0 NI0 g)
    (h : g.next lsOps ops = .ok (g', some res)) :
    (g'.unassigned sq sd).length < (g.unassigned sq sd).length :=
  next_decreases laws hinv ha h

/-- ... hence at most `|unassigned|` rounds are reported, and an iteration given more fuel than that ends
with `StopIteration` -/
theorem terminates (laws : ScoreLaws ops) {sq sd : Nat} {cls : List (List (Sig LS))} {Q0 NI0 : List Nat}
    (n : Nat) (g gf : GD LS) (rs : List (GRes σ)) (hinv : GInv sq sd cls g) (ha : AInv sq sd Q0 NI0 g)
    (h : g.run lsOps ops n = .ok (gf, rs)) :
    rs.length ≤ (g.unassigned sq sd).length ∧
    ((g.unassigned sq sd).length < n →
      ∃ gl, GInv sq sd cls gl ∧ gl.unassigned sq sd = gf.unassigned sq sd ∧ gl.next lsOps ops = .ok (gf, none)) :=
  ⟨run_length_le laws n g gf rs hinv ha h, fun hlt => run_stops laws n g gf rs hinv ha hlt h⟩

/-! ### databases mixing scaled values, any kind of counter: disjointness and the count bound -/

/-- after `__init__` the scaled-agnostic invariant holds; `pool` = all signatures the counters hold -/
theorem mixed_init {q : LS} (hq : q.WF) {counters : List (CObj LS)} {thr : Nat} {ign : Bool} {g : GD LS}
    {pool : List (Sig LS)} (hpool : ∀ s ∈ pool, Sorted s.mh.hs)
    (hcnt : ∀ o ∈ counters, ∀ s ∈ o.sigs, s ∈ pool)
    (h : GD.init lsOps q counters thr ign none none = .ok g) : MInv pool g ∧ g.query.hs = q.hs := by
  obtain ⟨i1, i2, i3, i4, _, i6, _⟩ := init_plain hq h
  exact ⟨⟨by rw [i6]; exact hq.sorted, by rw [i1]; exact hq.sorted, by rw [i2, i3], hpool, by rw [i4]; exact hcnt⟩, i1⟩

/-- `uniq_disjoint` and the count form of `fractions_sum` for EVERY database (scaled values mixed freely,
prefetch counters, on-demand indexes, or both): the unique overlaps are pairwise disjoint subsets of the
query's hashes and `Σ|U_i| + |left| ≤ |query|`.  No `ScoreLaws`, no threshold hypothesis. -/
theorem uniq_disjoint_any_database {pool : List (Sig LS)} (n : Nat) (g gf : GD LS) (rs : List (GRes σ))
    (hinv : MInv pool g) (h : g.run lsOps ops n = .ok (gf, rs)) :
    (rs.map (·.isectCur)).Pairwise List.Disjoint ∧
    (∀ r ∈ rs, ∀ x ∈ r.isectCur, x ∈ g.query.hs) ∧
    sumNats (rs.map (fun r => r.isectCur.length)) + gf.query.hs.length ≤ g.query.hs.length := by
  obtain ⟨h1, h2, _, h4⟩ := run_mixed n g gf rs hinv h
  exact ⟨h1, h2, h4⟩

/-- **the patched `CounterGather.peek` raises no `AssertionError`** (finding D25 cannot recur): for any counter
whose entries have sorted sketches, positive scaled values and non-zero counters — which `add` (overlap
required), `consume` (zero counters deleted) and `peek` itself (refreshed counters are non-zero or deleted)
maintain, whatever the scaled values — and any current query.  `AssertLaws.nonzero` (a non-empty overlap has a
non-zero containment) rules out `assert cont`, the assert D25 hit; `AssertLaws.above` is the second assert
(`cont >= threshold`) stated as a law of the score arithmetic. -/
theorem peek_never_asserts {thr : Nat} (laws : AssertLaws ops thr) {c : Counter LS} {cur : LS}
    (hc : CNZ c) (hcs : Sorted cur.hs) (hcur : cur.scaled ≤ 2 ^ 31) (hlen : cur.hs.length < 2 ^ 53) :
    c.peek lsOps ops cur thr ≠ .error .assertion :=
  Counter.peek_na laws hc hcs hcur hlen

/-- **a prefetch-mode gather run over ANY database raises no `AssertionError`**: query well formed, every
database sketch sorted with a scaled value in `[1, 2^31]` (no relation between the scaled values of the query
and of the sketches, nor among the sketches), counters built by `counter_gather`, any number of rounds.
Covers the `assert`s of `peek`, of `__next__` (`match.scaled`) and of `GatherResult` (non-empty unique
intersection).  Together with `uniq_disjoint_any_database`: a run over a mixed-scaled database goes through
with pairwise disjoint unique overlaps. -/
theorem gather_never_asserts {thr : Nat} (laws : AssertLaws ops thr) {q : LS} (hq : q.WF)
    {dbs : List (List (Sig LS))} {cs : List (Counter LS)} {ign : Bool} {g : GD LS}
    (hdb : ∀ db ∈ dbs, ∀ d ∈ db, Sorted d.mh.hs ∧ 1 ≤ d.mh.scaled ∧ d.mh.scaled ≤ 2 ^ 31)
    (hcs : List.Forall₂ (fun db c => counterGather lsOps db q thr = .ok c) dbs cs)
    (hsize : q.hs.length < 2 ^ 53)
    (h : GD.init lsOps q (cs.map CObj.cg) thr ign none none = .ok g) (n : Nat) :
    g.run lsOps ops n ≠ .error .assertion :=
  run_na laws n g (ninv_init hq hdb hcs hsize h)

/-- ... and in every state such a run reaches, `__next__` raises none and keeps the invariant -/
theorem next_never_asserts {thr : Nat} (laws : AssertLaws ops thr) {g : GD LS} (hinv : NInv thr g) :
    g.next lsOps ops ≠ .error .assertion ∧
    ∀ g' r, g.next lsOps ops = .ok (g', r) → NInv thr g' :=
  ⟨next_na laws hinv, fun _ _ h => next_ninv laws hinv h⟩

/-- the laws hold for `threshold_bp = 0` both for plain fractions and for the exact value of the debiased
containment -/
theorem assert_laws_threshold_zero : AssertLaws ratOps 0 ∧ AssertLaws qOps 0 :=
  ⟨ratOps_assertLaws_zero, qOps_assertLaws_zero⟩

/-- **`AssertLaws` for every threshold** from `DebiasLaws`: the second assert (`cont >= threshold`) is proved
by monotone rounding (`match_size ≥ fl(bp/s)` ⇒ `fl(match_size/n) ≥ fl(fl(bp/s)/n)`) for every score arithmetic
whose containment is at least the plain double quotient `fl(c/d)`.  That domination is the one libm-dependent
statement left (de-biasing divides by `1 − pow(1 − 1/s, d·s)`, which is `≤ 1` iff `pow` returns a value in
`[0, 1]`); it holds trivially for the quotient without de-biasing (`plainOps`). -/
theorem assert_laws_every_threshold {thr : Nat} (hthr : thr < 2 ^ 53) :
    (DebiasLaws ops → AssertLaws ops thr) ∧ AssertLaws plainOps thr :=
  ⟨fun L => assertLaws_of_debias L hthr, plainOps_assertLaws hthr⟩

/- FULL STATEMENT (not proved): `gather_never_asserts` with NO hypothesis on the score arithmetic for
   `threshold_bp > 0`.  What remains assumed is `DebiasLaws.dominates` (`contained_by ≥ fl(c/d)`), which depends
   on libm `pow` returning a value in [0, 1]; for the EXACT value of the de-biased expression against the ROUNDED
   threshold the assert's condition is not a theorem (`fl(n/d)` can exceed `n/d` by more than `c/(d·bias)`
   exceeds `c/d`), so `ratOps` / `qOps` satisfy `AssertLaws` only for threshold 0. -/

/- FULL STATEMENT (not proved / false): for databases mixing scaled values the reported FRACTIONS
   `f_unique_to_query = |U_i| / orig_query_len_i` sum to at most 1.  False: `orig_query_len_i` is the size of
   the query downsampled to round `i`'s comparison scaled, which grows during the run
   (`mixed_scaled_fractions_sum_above_one`). -/

/-! ### the command-line path (`commands.gather`): ident / noident bookkeeping -/

/-- `commands.gather` splits the flattened query with the prefetch counters: `ident_mh` = the query hashes some
candidate covers (the union of `CounterGather.union_found()` over the counters), `noident_mh` = the others;
both flat, at the query's scaled, ascending -/
theorem cli_split {q : LS} (hq : q.WF) {cs : List (Counter LS)}
    (hcs : ∀ c ∈ cs, c.origQuery = q.flat ∧ ∀ e ∈ c.entries, e.sig.mh.WF) :
    ∃ i n, cliSplit lsOps q cs = .ok (i, n) ∧
      i.scaled = q.scaled ∧ i.ab = none ∧ Sorted i.hs ∧ n.scaled = q.scaled ∧ n.ab = none ∧ Sorted n.hs ∧
      (∀ x, x ∈ i.hs ↔ x ∈ q.hs ∧ Cov q.scaled q.hs cs x) ∧
      (∀ x, x ∈ n.hs ↔ x ∈ q.hs ∧ ¬ Cov q.scaled q.hs cs x) :=
  cliSplit_ls hq hcs

/-- **the invariants of `round` / `column_defs` / `uniq_disjoint` / `fractions_sum` / `terminates` hold on the
CLI path** (`counter_gather` per database, the ident / noident split,
`GatherDatabases(query, counters, noident_mh=, ident_mh=)`), with `Q0 = ident_mh`, `NI0 = noident_mh`.  The
counters were counted against the whole query but are exact for `ident_mh`, because every candidate's overlap
with the query lies inside `ident_mh`.  `ident_mh` and `noident_mh` partition the query's hashes at every
resolution, so `orig_query_len = |dn s Q0| + |dn s NI0|` is the size of the whole query, as in the plain API;
the never-identified hashes enter `remaining_bp` and the weighted totals only. -/
theorem cli_init {q : LS} (hq : q.WF) {sd thr : Nat} (hsd1 : 1 ≤ sd) (hsd2 : sd ≤ 2 ^ 31)
    {t nT : F64.F} (hthr : calcThreshold thr q.scaled q.hs.length = .ok (t, nT))
    {dbs : List (List (Sig LS))} {cs : List (Counter LS)} {ign : Bool} {g : GD LS} {i n : LS}
    (hdb : ∀ db ∈ dbs, ∀ d ∈ db, d.mh.WF ∧ d.mh.scaled = sd) (hmd5 : ∀ db ∈ dbs, MD5OK db)
    (hcs : List.Forall₂ (fun db c => counterGather lsOps db q thr = .ok c) dbs cs)
    (hsize : q.hs.length < 2 ^ 53)
    (hsplit : cliSplit lsOps q cs = .ok (i, n))
    (h : GD.init lsOps q (cs.map CObj.cg) thr ign (some n) (some i) = .ok g) :
    GInv q.scaled sd (candLists q t dbs) g ∧ AInv q.scaled sd i.hs n.hs g ∧
    g.unassigned q.scaled sd = dn (max q.scaled sd) i.hs ∧ g.thresholdBp = thr ∧ g.origSigMh = q ∧
    g.resultN = 0 ∧
    (∀ x, x ∈ q.hs ↔ x ∈ i.hs ∨ x ∈ n.hs) ∧ (∀ x, x ∈ i.hs → x ∉ n.hs) ∧
    (∀ s, (dn s i.hs).length + (dn s n.hs).length = (dn s q.hs).length) :=
  init_invariants_cli hq hsd1 hsd2 hthr hdb hmd5 hcs hsize hsplit h

/-- `fractions_sum` on the CLI path, spelled out: the unique overlaps are disjoint subsets of `ident_mh`, and
`Σ|U_i| ≤ |ident_mh at s| ≤ |query at s| = orig_query_len`, so the reported `f_unique_to_query` sum to at most 1 -/
theorem cli_fractions_sum (laws : ScoreLaws ops) {q : LS} (hq : q.WF) {sd thr : Nat} (hsd1 : 1 ≤ sd)
    (hsd2 : sd ≤ 2 ^ 31) {t nT : F64.F} (hthr : calcThreshold thr q.scaled q.hs.length = .ok (t, nT))
    {dbs : List (List (Sig LS))} {cs : List (Counter LS)} {ign : Bool} {g gf : GD LS} {i n : LS}
    (hdb : ∀ db ∈ dbs, ∀ d ∈ db, d.mh.WF ∧ d.mh.scaled = sd) (hmd5 : ∀ db ∈ dbs, MD5OK db)
    (hcs : List.Forall₂ (fun db c => counterGather lsOps db q thr = .ok c) dbs cs)
    (hsize : q.hs.length < 2 ^ 53) (hsplit : cliSplit lsOps q cs = .ok (i, n))
    (h : GD.init lsOps q (cs.map CObj.cg) thr ign (some n) (some i) = .ok g) (k : Nat) {rs : List (GRes σ)}
    (hrun : g.run lsOps ops k = .ok (gf, rs)) :
    (rs.map (·.isectCur)).Pairwise List.Disjoint ∧
    sumNats (rs.map (fun r => r.isectCur.length)) + (dn (max q.scaled sd) n.hs).length
      ≤ (dn (max q.scaled sd) q.hs).length := by
  obtain ⟨hg, ha, hun, _, _, _, _, _, hlen⟩ := init_invariants_cli hq hsd1 hsd2 hthr hdb hmd5 hcs hsize hsplit h
  have h1 := uniq_disjoint laws k g gf rs hg ha hrun
  obtain ⟨_, _, h3⟩ := fractions_sum laws k g gf rs hg ha hrun
  rw [hun] at h3
  have := hlen (max q.scaled sd)
  exact ⟨h1, by omega⟩

/-- the CLI path on the example database (kernel-evaluated): split 1..15 / 16..20, two rounds, `orig_query_len`
20 in both, `remaining_bp` 18 and 10 -/
example : cliRunCheck exQuery [exD1, exD2] = true := cliRunCheck_true

/-! ### the instance tie: the theorems speak about the shared MinHash model -/

/-- **every sketch operation gather uses commutes with the abstraction `ofMH`** (shared MinHash model → list
sketch) on valid scaled sketches of one collection (`SInv`: representation invariant, `num = 0`, threshold
`mhR S` with `1 ≤ S ≤ 2^31`, common ksize / hash function / seed): `downsample` (mutable and frozen),
`flatten`, `&`, `count_common(downsample=True)`, `is_compatible`, `intersection_and_union_size`,
`copy_and_clear`, `to_mutable` (pickle round trip), `remove_many`.  Built on the `count`-level specifications
of C01 / C03 / C04. -/
theorem instance_tie_ops (k hf seed : Nat) : SkSim mhOps lsOps (SimR k hf seed) SimP := mh_ls_sim k hf seed

/-- **a whole prefetch-mode gather on the shared MinHash model reports exactly the `GatherResult` records of the
list-sketch run on the abstracted inputs** (counters by `counter_gather`, `__init__`, any number of rounds).
The theorems of this file about `GD.run lsOps` therefore describe the shared-model instance — the one the
correspondence stream compares with the real code — without relying on the run-time `L=ok` cross-check. -/
theorem instance_tie_run {k hf seed : Nat} {q : MH} (hq : SInv k hf seed q) {dbs : List (List (Sig MH))}
    (hdbs : ∀ db ∈ dbs, ∀ d ∈ db, SInv k hf seed d.mh) (thr : Nat) (ign : Bool)
    {cs : List (Counter MH)} (hcs : List.Forall₂ (fun db c => counterGather mhOps db q thr = .ok c) dbs cs)
    {g : GD MH} (hg : GD.init mhOps q (cs.map CObj.cg) thr ign none none = .ok g) (n : Nat)
    {gf : GD MH} {rs : List (GRes σ)} (hrun : g.run mhOps ops n = .ok (gf, rs)) :
    ∃ cs' g' gf', List.Forall₂ (fun db c => counterGather lsOps (db.map sigOfMH) (ofMH q) thr = .ok c) dbs cs' ∧
      GD.init lsOps (ofMH q) (cs'.map CObj.cg) thr ign none none = .ok g' ∧
      g'.run lsOps ops n = .ok (gf', rs) ∧ gf'.query = ofMH gf.query :=
  gather_transfer hq hdbs thr ign hcs hg n hrun

/-- one round from related states (any reachable state of the two runs) -/
theorem instance_tie_round {k hf seed : Nat} {g : GD MH} {g' : GD LS} (hrel : RGD (SimR k hf seed) SimP g g')
    {gn : GD MH} {r : Option (GRes σ)} (h : g.next mhOps ops = .ok (gn, r)) :
    ∃ gn', g'.next lsOps ops = .ok (gn', r) ∧ RGD (SimR k hf seed) SimP gn gn' :=
  next_transfer hrel h

/-- the counters `counter_gather` builds from abstracted valid sketches carry the invariant of
`gather_never_asserts` -/
theorem counters_cnz_of_sinv {k hf seed : Nat} {q : MH} (hq : SInv k hf seed q) {thr : Nat} :
    ∀ {dbs : List (List (Sig MH))} {cs' : List (Counter LS)},
      List.Forall₂ (fun db c => counterGather lsOps (db.map sigOfMH) (ofMH q) thr = .ok c) dbs cs' →
      (∀ db ∈ dbs, ∀ d ∈ db, SInv k hf seed d.mh) → ∀ c ∈ cs', CNZ c := by
  intro dbs cs' h
  induction h with
  | nil => intro _ c hc; cases hc
  | @cons db c0 dbs' cs'' hd _ ih =>
    intro hdbs c hc
    rcases List.mem_cons.1 hc with rfl | hc
    · refine counterGather_cnz hq.wf.hi ?_ hd
      intro d hdm
      obtain ⟨d0, hd0, rfl⟩ := List.mem_map.1 hdm
      have hw := (hdbs db List.mem_cons_self d0 hd0).wf
      exact ⟨hw.sorted, hw.lo, hw.hi⟩
    · exact ih (fun d hd' => hdbs d (List.mem_cons_of_mem _ hd')) c hc

/-- a transferred statement: on the shared MinHash model, over ANY database (scaled values mixed freely), the
unique overlaps a prefetch-mode run reports are pairwise disjoint subsets of the query's hashes and
`Σ|U_i| + |left| ≤ |query|` -/
theorem uniq_disjoint_shared_model {k hf seed : Nat} {q : MH} (hq : SInv k hf seed q)
    {dbs : List (List (Sig MH))} (hdbs : ∀ db ∈ dbs, ∀ d ∈ db, SInv k hf seed d.mh) (thr : Nat) (ign : Bool)
    {cs : List (Counter MH)} (hcs : List.Forall₂ (fun db c => counterGather mhOps db q thr = .ok c) dbs cs)
    {g : GD MH} (hg : GD.init mhOps q (cs.map CObj.cg) thr ign none none = .ok g) (n : Nat)
    {gf : GD MH} {rs : List (GRes σ)} (hrun : g.run mhOps ops n = .ok (gf, rs)) :
    (rs.map (·.isectCur)).Pairwise List.Disjoint ∧
    (∀ r ∈ rs, ∀ x ∈ r.isectCur, x ∈ q.mins) ∧
    sumNats (rs.map (fun r => r.isectCur.length)) + gf.query.mins.length ≤ q.mins.length := by
  obtain ⟨cs', g', gf', hcs', hg', hrun', hgf⟩ := gather_transfer hq hdbs thr ign hcs hg n hrun
  -- the list-sketch run satisfies the scaled-agnostic invariant
  have hcnz : ∀ c ∈ cs', CNZ c := counters_cnz_of_sinv hq hcs' hdbs
  obtain ⟨hm, hqhs⟩ := mixed_init (pool := (cs'.map CObj.cg).flatMap CObj.sigs) hq.wf
    (by
      intro s hs
      obtain ⟨o, ho, hso⟩ := List.mem_flatMap.1 hs
      obtain ⟨c, hc, rfl⟩ := List.mem_map.1 ho
      simp only [CObj.sigs, List.mem_map] at hso
      obtain ⟨e, he, rfl⟩ := hso
      exact ((hcnz c hc).ent e he).1)
    (fun o ho s hs => List.mem_flatMap.2 ⟨o, ho, hs⟩) hg'
  obtain ⟨h1, h2, h3⟩ := uniq_disjoint_any_database n g' gf' rs hm hrun'
  rw [hqhs] at h2 h3
  rw [hgf] at h3
  exact ⟨h1, h2, h3⟩

/-- the invariant of the tie is satisfiable: a sketch built by the shared model at scaled 2 -/
example : SInv 21 1 42 ((MH.new 2 21 1 42 false 0).addMany [5, 3, 9]) := by
  have hn : Sm.Scaled (MH.new 2 21 1 42 false 0) := ⟨inv_new .., rfl, by decide⟩
  have f := addMany_frame (MH.new 2 21 1 42 false 0) [5, 3, 9]
  exact ⟨(hn.addMany _).inv, f.1, f.2.2.1, f.2.2.2.2.1, f.2.2.2.1, ⟨2, by decide, by decide, f.2.1⟩⟩

/-! ### findings, kernel-checked -/

/-- **D6 lifted to gather (known finding).**  Query at scaled 2 (24 hashes, 14 of them below the scaled-4
threshold), one database sketch at scaled 4 sharing 6 hashes = 24 bp, `threshold_bp = 23`: prefetch drops the
sketch (6/14 < (23/2)/24), the counter is empty and gather stops at once. -/
theorem d6_gather_misses_reportable : d6Check = true := d6Check_true

/-- **finding (databases mixing scaled values).**  Query at scaled 2 (5 + 15 hashes), sketch A at scaled 2
holding the 15 upper hashes, sketch B at scaled 4 holding 3 of the 5 lower ones, on-demand mode: round 0 reports
A with 15 of 20 query hashes, round 1 reports B with 3 of the 5 hashes the query has at scaled 4.
`f_unique_to_query` = 15/20 and 3/5, which sum to 1.35. -/
theorem mixed_scaled_fractions_sum_above_one :
    mixSumCheck = true ∧ 15 * 5 + 3 * 20 > 20 * 5 := ⟨mixSumCheck_true, by decide⟩

/-- **regression for finding D25 (fixed upstream).**  Same data in prefetch mode: before the fix `__next__` raised
`AssertionError` (`assert cont` in `CounterGather.peek`: the counter of A was taken at scaled 2 and is stale
at the counter's resolution 4).  The patched `peek` re-counts A (0 at scaled 4), drops it and reports B:
one result, 3 of the 5 hashes the query has at scaled 4. -/
theorem mixed_scaled_no_assertion : mixNoAssertCheck = true := mixNoAssertCheck_true

/-! ### non-vacuity -/

/-- the example query / database satisfy the hypotheses of the theorems above -/
example : exQuery.WF ∧ (∀ d ∈ [exD1, exD2, exD3], d.mh.WF ∧ d.mh.scaled = 2) ∧ MD5OK [exD1, exD2, exD3] := by
  have hb : ∀ x : Nat, x ≤ 25 → x ≤ mhR 2 := by
    intro x hx
    have : mhR 2 = 9223372036854775808 := by decide +kernel
    omega
  refine ⟨⟨by decide, by decide, range_succ_sorted 20 1, ?_, ?_⟩, ?_, ?_⟩
  · intro h hh
    apply hb
    simp only [exQuery, List.mem_map, List.mem_range] at hh
    obtain ⟨a, ha, rfl⟩ := hh; omega
  · intro ab hab
    simp only [exQuery, Option.some.injEq] at hab
    subst hab; simp [exQuery]
  · intro d hd
    simp only [List.mem_cons, List.mem_nil_iff, or_false] at hd
    rcases hd with rfl | rfl | rfl
    · refine ⟨⟨by decide, by decide, range_succ_sorted 10 1, ?_, fun ab hab => by cases hab⟩, rfl⟩
      intro h hh; apply hb
      simp only [exD1, List.mem_map, List.mem_range] at hh
      obtain ⟨a, ha, rfl⟩ := hh; omega
    · refine ⟨⟨by decide, by decide, range_succ_sorted 11 5, ?_, fun ab hab => by cases hab⟩, rfl⟩
      intro h hh; apply hb
      simp only [exD2, List.mem_map, List.mem_range] at hh
      obtain ⟨a, ha, rfl⟩ := hh; omega
    · refine ⟨⟨by decide, by decide, range_succ_sorted 5 14, ?_, fun ab hab => by cases hab⟩, rfl⟩
      intro h hh; apply hb
      simp only [exD3, List.mem_map, List.mem_range] at hh
      obtain ⟨a, ha, rfl⟩ := hh; omega
  · intro d hd d' hd' hm
    simp only [List.mem_cons, List.mem_nil_iff, or_false] at hd hd'
    rcases hd with rfl | rfl | rfl <;> rcases hd' with rfl | rfl | rfl <;> first | rfl | (exfalso; revert hm; decide)

/-- ... and the run on them is the three-round cover sourmash reports (d2, d1, d3; 22/22, 20/8, 10/6 bp;
18, 10, 4 bp remaining; 23, 30, 36 of 39 weighted hashes found), leaving `{19, 20}` unassigned -/
example : exRunCheck = true := exRunCheck_true

/-- `ScoreLaws` is satisfiable -/
example : ScoreLaws ratOps := ratOps_laws

/-- ... in particular by the exact value of the expression `MinHash.contained_by` evaluates:
`min(1, c / (d · (1 − (1 − 1/s)^(d·s))))` is strictly increasing in `c ≤ d` for every `d > 0`, `s ≥ 1` -/
theorem score_law_exact : ScoreLaws qOps := qOps_laws

end Sm.C07
