/-
C01 — a sketch holds exactly the retained hashes of everything added to it.

Statements only (helper lemmas live in `SmVerif/Lemmas/MinHashInv.lean`).

* `Inv` : the representation invariant (strictly ascending `mins`, aligned
  positive abundances, threshold and capacity respected), preserved by every
  operation, hence true in every reachable state (`inv_reachable`).
* `count s x` : the abstraction — the count sketch `s` carries for hash `x`
  (0 = absent; flat sketches carry 1).
* scaled sketches refine the finite-map specification `Spec` for *every*
  operation, including remove / clear / merge / set-abundances
  (`count_addHashAb_scaled`, `count_removeHash`, `count_clear`, `count_merge_scaled`),
  and two sketches with the same counts are the same vectors (`ext_of_count`).
  Order-, duplicate- and batching-independence and "never loses a hash" are
  corollaries.
* num sketches: for removal-free histories the sketch is the first `num`
  entries of the unbounded sketch fed the same additions (`num_add_take`,
  `num_merge_take`); with removals the statement is false of any bottom-k sketch
  (`num_remove_counterexample`, known finding D21).
* `merge_abund_flat_example`: an abundance sketch merged with a flat one keeps its
  counts (defect D5, repaired in /repo).
* **finding**: `Inv` (its `capped` clause) is *not* preserved by `add_hash_with_abundance`
  on a sketch that has both `num != 0` and `max_hash != 0` (the Rust constructor
  allows it, the Python constructor refuses it): the `hash <= self.max_hash`
  disjunct lets the push-at-the-end branch grow the vector beyond `num`
  (`addHashAb_inv_counterexample`).  The three statements that quantify over
  such sketches (`addHashAb_inv`, `setAbundances_inv`, `inv_reachable`) are
  false as first stated; they are proved under the extra hypothesis
  `Excl s : s.num = 0 ∨ s.maxHash = 0` (`*_partial`), which every sketch built
  by the Python layer satisfies and which every operation preserves.
-/
import SmVerif.Lemmas.MinHashInv

namespace Sm.C01

open Sm MH

/-! ### invariant in every reachable state -/

theorem new_inv (sc k hf seed : Nat) (tr : Bool) (n : Nat) : Inv (MH.new sc k hf seed tr n) :=
  Sm.inv_new sc k hf seed tr n

/- FULL STATEMENT (not proved / false):
     theorem addHashAb_inv {s : MH} (hs : Inv s) (h a : Nat) : Inv (s.addHashAb h a)
   Counterexample (`addHashAb_inv_counterexample`): num = 2 and scaled = 1 (max_hash = 2^64-1)
   together; after add 1, add 2 the sketch is valid and full, add 3 makes it [1, 2, 3].
   Minimal correction: the hypothesis `Excl s` (not both a num and a scaled sketch). -/
theorem addHashAb_inv_partial {s : MH} (hs : Inv s) (hx : Excl s) (h a : Nat) :
    Inv (s.addHashAb h a) :=
  Sm.inv_addHashAb hs hx h a

theorem addHashAb_inv_counterexample :
    let s := ((MH.new 1 21 1 42 false 2).addHash 1).addHash 2
    Inv s ∧ ¬ Inv (s.addHashAb 3 1) := by
  intro s
  have hm : s.mins = [1, 2] := by decide
  have ha : s.abunds = none := by decide
  have hM : s.maxHash = U64MAX := by decide
  have hn : s.num = 2 := by decide
  refine ⟨⟨?_, ?_, ?_, ?_, ?_⟩, ?_⟩
  · rw [hm]; simp [Sorted]
  · intro ab h; rw [ha] at h; cases h
  · intro ab h; rw [ha] at h; cases h
  · intro _ x hx
    rw [hm] at hx; rw [hM]
    simp at hx
    rcases hx with rfl | rfl <;> decide
  · intro _; rw [hm, hn]; decide
  · intro h
    have := h.capped (by decide)
    revert this
    decide

theorem removeHash_inv {s : MH} (hs : Inv s) (h : Nat) : Inv (s.removeHash h) :=
  Sm.inv_removeHash hs h

theorem clear_inv {s : MH} (hs : Inv s) : Inv s.clear :=
  Sm.inv_clear hs

theorem merge_inv {s o r : MH} (hs : Inv s) (ho : Inv o) (hr : s.merge o = .ok r) : Inv r :=
  Sm.inv_merge hs ho hr

/- FULL STATEMENT (not proved / false):
     theorem setAbundances_inv {s r : MH} (hs : Inv s) {ps : List (Nat × Nat)} {c : Bool}
         (hr : Py.setAbundances s ps c = .ok r) : Inv r
   Counterexample (`setAbundances_inv_counterexample`): same cause as `addHashAb_inv`.
   Minimal correction: the hypothesis `Excl s`. -/
theorem setAbundances_inv_partial {s r : MH} (hs : Inv s) (hx : Excl s) {ps : List (Nat × Nat)}
    {c : Bool} (hr : Py.setAbundances s ps c = .ok r) : Inv r :=
  Sm.inv_pySetAbundances hs hx hr

theorem setAbundances_inv_counterexample :
    let s := MH.new 1 21 1 42 true 2
    Inv s ∧ ∃ r, Py.setAbundances s [(1, 1), (2, 1), (3, 1)] false = .ok r ∧ ¬ Inv r := by
  refine ⟨Sm.inv_new .., _, rfl, ?_⟩
  intro h
  have := h.capped (by decide)
  revert this
  decide

theorem downsample_inv {s r : MH} (hs : Inv s) {n sc : Option Nat}
    (hr : Py.downsample s n sc = .ok r) : Inv r :=
  Sm.inv_pyDownsample hs hr

theorem copy_inv {s r : MH} (hs : Inv s) (hr : Py.copy s = .ok r) : Inv r :=
  Sm.inv_pyCopy hs hr

/- `Op` (one API-level operation on a sketch: the Python surface that C01 quantifies
   over), `step s op` (the sketch after the operation, unchanged when the operation is
   refused) and `Op.Ok` (operands of binary operations must themselves be valid sketches)
   are defined, in this namespace, in `SmVerif/Lemmas/MinHashOps.lean`. -/

/- FULL STATEMENT (not proved / false):
     theorem inv_reachable (s : MH) (hs : Inv s) (ops : List Op) (hops : ∀ op ∈ ops, op.Ok) :
         Inv (ops.foldl step s)
   Counterexample (`inv_reachable_counterexample`): same cause as `addHashAb_inv`.
   Minimal correction: the hypothesis `Excl s` on the initial sketch (it is preserved by
   every operation, `excl_reachable`). -/

/-- **the invariant holds after every history** of operations -/
theorem inv_reachable_partial (s : MH) (hs : Inv s) (hx : Excl s) (ops : List Op)
    (hops : ∀ op ∈ ops, op.Ok) : Inv (ops.foldl step s) :=
  Sm.inv_foldl_step s hs hx ops hops

theorem excl_reachable (s : MH) (hs : Inv s) (hx : Excl s) (ops : List Op)
    (hops : ∀ op ∈ ops, op.Ok) : Excl (ops.foldl step s) :=
  (Sm.invx_foldl_step s hs hx ops hops).2

/-- every sketch the Python constructor returns is valid and not both num and scaled -/
theorem mkMinHash_inv {n k hf seed : Nat} {tr : Bool} {mh sc : Nat} {r : MH}
    (h : Py.mkMinHash n k hf seed tr mh sc = .ok r) : Inv r ∧ Excl r :=
  Sm.inv_mkMinHash h

theorem inv_reachable_counterexample :
    let s := MH.new 1 21 1 42 false 2
    Inv s ∧ ¬ Inv ([Op.add 1, Op.add 2, Op.add 3].foldl step s) := by
  refine ⟨Sm.inv_new .., ?_⟩
  intro h
  have := h.capped (by decide)
  revert this
  decide

/-! ### scaled sketches refine the finite-map specification -/

/-- adding hash `h` with abundance `a` to the abstract content of a sketch with
threshold `M` (`M = 0`: no threshold) -/
def Spec.add (M : Nat) (track : Bool) (m : Nat → Nat) (h a : Nat) : Nat → Nat :=
  if M ≠ 0 ∧ h > M then m
  else if a = 0 then fun x => if x = h then 0 else m x
  else fun x => if x = h then (if track then m h + a else 1) else m x

theorem count_addHashAb_scaled {s : MH} (hs : Inv s) (hn : s.num = 0) (hM : s.maxHash ≠ 0)
    (h a x : Nat) :
    count (s.addHashAb h a) x = Spec.add s.maxHash s.trackAbundance (count s) h a x :=
  Sm.count_addHashAb_scaled' hs hn hM h a x

theorem count_removeHash {s : MH} (hs : Inv s) (h x : Nat) :
    count (s.removeHash h) x = if x = h then 0 else count s x :=
  Sm.count_removeHash' hs h x

theorem count_clear (s : MH) (x : Nat) : count s.clear x = 0 :=
  Sm.count_clear' s x

/-- merge: a sketch that tracks abundance keeps doing so and the merged
abundances are the sums (a flat operand counts once per hash); a flat sketch
holds the union.  (Before the repair of D5 an abundance sketch merged with a
flat one silently became flat.) -/
theorem count_merge_scaled {s o r : MH} (hs : Inv s) (ho : Inv o) (hn : s.num = 0)
    (hr : s.merge o = .ok r) (x : Nat) :
    r.trackAbundance = s.trackAbundance ∧
    count r x = if s.trackAbundance then count s x + count o x
                else min 1 (count s x + count o x) :=
  Sm.count_merge_scaled' hs ho hn hr x

/-- a hash is present iff its count is positive -/
theorem mem_iff_count_pos {s : MH} (hs : Inv s) (x : Nat) : x ∈ s.mins ↔ 0 < count s x :=
  Sm.mem_iff_count_pos' hs x

/-- the abstraction is injective on valid sketches: same counts, same vectors -/
theorem ext_of_count {s t : MH} (hs : Inv s) (ht : Inv t)
    (htr : s.trackAbundance = t.trackAbundance) (h : ∀ x, count s x = count t x) :
    s.mins = t.mins ∧ s.abunds = t.abunds :=
  Sm.ext_of_count' hs ht htr h

/-- a scaled sketch never loses a hash because other hashes were added -/
theorem scaled_never_loses {s : MH} (hs : Inv s) (hn : s.num = 0) (hM : s.maxHash ≠ 0)
    (h a x : Nat) (hx : x ∈ s.mins) (hne : x ≠ h) : x ∈ (s.addHashAb h a).mins ∧
    count (s.addHashAb h a) x = count s x := by
  have h1 := count_addHashAb_scaled hs hn hM h a x
  have hc : count (s.addHashAb h a) x = count s x := by
    rw [h1]; unfold Spec.add; split
    · rfl
    · split <;> simp [hne]
  refine ⟨?_, hc⟩
  rw [mem_iff_count_pos (addHashAb_inv_partial hs (Or.inl hn) h a), hc]
  exact (mem_iff_count_pos hs x).1 hx

/-- insertion order and duplicates do not matter: any permutation of a block
of additions (positive abundances) gives the same sketch -/
theorem scaled_order_independent {s : MH} (hs : Inv s) (hn : s.num = 0) (hM : s.maxHash ≠ 0)
    (ps qs : List (Nat × Nat)) (hp : ps.Perm qs) (hpos : ∀ p ∈ ps, 0 < p.2) :
    (s.addManyAb ps).mins = (s.addManyAb qs).mins ∧ (s.addManyAb ps).abunds = (s.addManyAb qs).abunds :=
  Sm.scaled_order_independent' hs hn hM ps qs hp hpos

/-- batching does not matter: `set_abundances(values, clear=False)` (which sorts
its pairs first) equals adding the pairs one at a time in the order given -/
theorem scaled_batching_independent {s : MH} (hs : Inv s) (hn : s.num = 0) (hM : s.maxHash ≠ 0)
    (ps : List (Nat × Nat)) (hpos : ∀ p ∈ ps, 0 < p.2) :
    (s.ffiSetAbundances ps false).mins = (s.addManyAb ps).mins ∧
    (s.ffiSetAbundances ps false).abunds = (s.addManyAb ps).abunds :=
  Sm.scaled_batching_independent' hs hn hM ps hpos

/-! ### num sketches -/

/-- For a removal-free history a num sketch is the first `num` entries of the
unbounded sketch `u` (no threshold, no capacity) fed the same addition. -/
theorem num_add_take {s u : MH} (hs : Inv s) (hu : Inv u)
    (hn : s.num ≠ 0) (hsM : s.maxHash = 0) (hun : u.num = 0) (huM : u.maxHash = U64MAX)
    (htr : s.trackAbundance = u.trackAbundance)
    (hrep : s.pairs = u.pairs.take s.num) (h a : Nat) (ha : 0 < a) (hh : h ≤ U64MAX) :
    (s.addHashAb h a).pairs = (u.addHashAb h a).pairs.take s.num :=
  Sm.num_add_take' hs hu hn hsM hun huM htr hrep h a ha hh

/-- merging num sketches keeps the `num` smallest of the sorted union -/
theorem num_merge_take {s o r : MH} (hr : s.merge o = .ok r) (hn : s.num ≠ 0) :
    r.pairs.map Prod.fst = ((mergeP s.pairs o.pairs).take s.num).map Prod.fst :=
  Sm.num_merge_take' hr hn

/-- **D21 (known finding).**  "exactly the num smallest among values added and
not since removed" is false of a bottom-k sketch once a removal follows an
eviction: num = 2; add 1, 2, 3; remove 1 leaves {2}, not {2, 3}. -/
theorem num_remove_counterexample :
    let s := (((MH.new 0 21 1 42 false 2).addHash 1).addHash 2).addHash 3
    (s.removeHash 1).mins = [2] ∧ [2, 3] ≠ (s.removeHash 1).mins := by decide

/-- D5 (repaired): an abundance sketch merged with a flat sketch keeps tracking
abundance; the flat operand's hashes count once. -/
theorem merge_abund_flat_example :
    let a := ((MH.new 1 21 1 42 true 0).addHashAb 5 3).addHashAb 7 2
    let f := (MH.new 1 21 1 42 false 0).addHash 7
    ∃ r, a.merge f = .ok r ∧ r.abunds = some [3, 3] ∧ r.mins = [5, 7] := by
  refine ⟨_, rfl, ?_, ?_⟩ <;> decide

/-! non-vacuity of the hypotheses used above -/
example : Inv ((MH.new 1 21 1 42 true 0).addHashAb 5 3) ∧
    ((MH.new 1 21 1 42 true 0).addHashAb 5 3).maxHash ≠ 0 :=
  ⟨addHashAb_inv_partial (new_inv ..) (Or.inl rfl) 5 3, by decide⟩

end Sm.C01
