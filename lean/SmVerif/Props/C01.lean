/-
C01 — a sketch holds exactly the retained hashes of everything added to it.

Statements only (helper lemmas live in `SmVerif/Lemmas/MinHashInv.lean`).

* `Inv` : the representation invariant (strictly ascending `mins`, aligned
  positive abundances, threshold and capacity respected), preserved by every
  operation, hence true in every reachable state (`inv_reachable`).
* `count s x` : the abstraction — the count sketch `s` carries for hash `x`
  (0 = absent; flat sketches carry 1).
* scaled sketches refine the finite-map specification `Spec` for *every*
  operation, including remove / clear / merge / set-abundances
  (`count_addHashAb_scaled`, `count_removeHash`, `count_clear`, `count_merge_scaled`),
  and two sketches with the same counts are the same vectors (`ext_of_count`).
  Order-, duplicate- and batching-independence and "never loses a hash" are
  corollaries.
* num sketches: for removal-free histories the sketch is the first `num`
  entries of the unbounded sketch fed the same additions (`num_add_take`,
  `num_merge_take`); with removals the statement is false of any bottom-k sketch
  (`num_remove_counterexample`, known finding D21).
* `merge_abund_flat_example`: an abundance sketch merged with a flat one keeps its
  counts (defect D5, repaired in /repo).
* **finding**: `Inv` (its `capped` clause) is *not* preserved by `add_hash_with_abundance`
  on a sketch that has both `num != 0` and `max_hash != 0` (the Rust constructor
  allows it, the Python constructor refuses it): the `hash <= self.max_hash`
  disjunct lets the push-at-the-end branch grow the vector beyond `num`
  (`addHashAb_inv_counterexample`).  The three statements that quantify over
  such sketches (`addHashAb_inv`, `setAbundances_inv`, `inv_reachable`) are
  false as first stated; they are proved under the extra hypothesis
  `Excl s : s.num = 0 ∨ s.maxHash = 0` (`*_partial`), which every sketch built
  by the Python layer satisfies and which every operation preserves.
* **every history of the whole modelled API, all handles** (`inv_every_history`): for sketches created through
  the Python constructor (which refuses num together with scaled) the invariant holds in EVERY cell of the
  handle table of the `mh` stream — sketch handles and signature objects — after EVERY list of operations
  (add / add_many / abundance adds / set_abundances / remove_many / clear / merge / `+` / copy / pickle /
  downsample(scaled | num) / flatten / intersection / inflate / md5 queries / signature wrap, set, add_sequence,
  pickle), and at every intermediate step; no hypothesis, no `_partial`.  Abundance alignment and positivity
  (`abundances_aligned_positive_every_history`) is the corresponding clause of `Inv`.
* **num semantics** (`num_history_take`, `num_sketch_is_bottom_n`): after any removal-free history across any
  number of sketches with the same `num` (adds, add_many, set_abundances, merge / `+=`, `+`, copy) a num sketch is
  the first `num` entries of the unbounded reference sketch of the same history, i.e. it holds exactly the `num`
  smallest distinct hashes offered, each with the total abundance offered (`num_retained_counts`).  What removals do,
  exactly: `num_remove_exact` / `num_remove_keeps_rep_iff`.
* **tie to the source** (`add_decisions_match_model`, `merge_decisions_match_model`, `glue_calls_match_model`):
  the comparison operators, guards, truncation lengths and callees the model hard-codes are re-read from
  minhash.rs / ffi/minhash.rs by `harness/translators/mhcore.py` on every run.
-/
import SmVerif.Lemmas.MinHashInv
import SmVerif.Lemmas.MhMachineInv
import SmVerif.Lemmas.MinHashNumHist
import SmVerif.Model.Generated

namespace Sm.C01

open Sm MH

/-! ### invariant in every reachable state -/

theorem new_inv (sc k hf seed : Nat) (tr : Bool) (n : Nat) : Inv (MH.new sc k hf seed tr n) :=
  Sm.inv_new sc k hf seed tr n

/- FULL STATEMENT (not proved / false):
     theorem addHashAb_inv {s : MH} (hs : Inv s) (h a : Nat) : Inv (s.addHashAb h a)
   Counterexample (`addHashAb_inv_counterexample`): num = 2 and scaled = 1 (max_hash = 2^64-1)
   together; after add 1, add 2 the sketch is valid and full, add 3 makes it [1, 2, 3].
   Minimal correction: the hypothesis `Excl s` (not both a num and a scaled sketch). -/
theorem addHashAb_inv_partial {s : MH} (hs : Inv s) (hx : Excl s) (h a : Nat) :
    Inv (s.addHashAb h a) :=
  Sm.inv_addHashAb hs hx h a

theorem addHashAb_inv_counterexample :
    let s := ((MH.new 1 21 1 42 false 2).addHash 1).addHash 2
    Inv s ∧ ¬ Inv (s.addHashAb 3 1) := by
  intro s
  have hm : s.mins = [1, 2] := by decide
  have ha : s.abunds = none := by decide
  have hM : s.maxHash = U64MAX := by decide
  have hn : s.num = 2 := by decide
  refine ⟨⟨?_, ?_, ?_, ?_, ?_⟩, ?_⟩
  · rw [hm]; simp [Sorted]
  · intro ab h; rw [ha] at h; cases h
  · intro ab h; rw [ha] at h; cases h
  · intro _ x hx
    rw [hm] at hx; rw [hM]
    simp at hx
    rcases hx with rfl | rfl <;> decide
  · intro _; rw [hm, hn]; decide
  · intro h
    have := h.capped (by decide)
    revert this
    decide

theorem removeHash_inv {s : MH} (hs : Inv s) (h : Nat) : Inv (s.removeHash h) :=
  Sm.inv_removeHash hs h

theorem clear_inv {s : MH} (hs : Inv s) : Inv s.clear :=
  Sm.inv_clear hs

theorem merge_inv {s o r : MH} (hs : Inv s) (ho : Inv o) (hr : s.merge o = .ok r) : Inv r :=
  Sm.inv_merge hs ho hr

/- FULL STATEMENT (not proved / false):
     theorem setAbundances_inv {s r : MH} (hs : Inv s) {ps : List (Nat × Nat)} {c : Bool}
         (hr : Py.setAbundances s ps c = .ok r) : Inv r
   Counterexample (`setAbundances_inv_counterexample`): same cause as `addHashAb_inv`.
   Minimal correction: the hypothesis `Excl s`. -/
theorem setAbundances_inv_partial {s r : MH} (hs : Inv s) (hx : Excl s) {ps : List (Nat × Nat)}
    {c : Bool} (hr : Py.setAbundances s ps c = .ok r) : Inv r :=
  Sm.inv_pySetAbundances hs hx hr

theorem setAbundances_inv_counterexample :
    let s := MH.new 1 21 1 42 true 2
    Inv s ∧ ∃ r, Py.setAbundances s [(1, 1), (2, 1), (3, 1)] false = .ok r ∧ ¬ Inv r := by
  refine ⟨Sm.inv_new .., _, rfl, ?_⟩
  intro h
  have := h.capped (by decide)
  revert this
  decide

theorem downsample_inv {s r : MH} (hs : Inv s) {n sc : Option Nat}
    (hr : Py.downsample s n sc = .ok r) : Inv r :=
  Sm.inv_pyDownsample hs hr

theorem copy_inv {s r : MH} (hs : Inv s) (hr : Py.copy s = .ok r) : Inv r :=
  Sm.inv_pyCopy hs hr

/- `Op` (one API-level operation on a sketch: the Python surface that C01 quantifies
   over), `step s op` (the sketch after the operation, unchanged when the operation is
   refused) and `Op.Ok` (operands of binary operations must themselves be valid sketches)
   are defined, in this namespace, in `SmVerif/Lemmas/MinHashOps.lean`. -/

/- FULL STATEMENT (not proved / false):
     theorem inv_reachable (s : MH) (hs : Inv s) (ops : List Op) (hops : ∀ op ∈ ops, op.Ok) :
         Inv (ops.foldl step s)
   Counterexample (`inv_reachable_counterexample`): same cause as `addHashAb_inv`.
   Minimal correction: the hypothesis `Excl s` on the initial sketch (it is preserved by
   every operation, `excl_reachable`). -/

/-- **the invariant holds after every history** of operations -/
theorem inv_reachable_partial (s : MH) (hs : Inv s) (hx : Excl s) (ops : List Op)
    (hops : ∀ op ∈ ops, op.Ok) : Inv (ops.foldl step s) :=
  Sm.inv_foldl_step s hs hx ops hops

theorem excl_reachable (s : MH) (hs : Inv s) (hx : Excl s) (ops : List Op)
    (hops : ∀ op ∈ ops, op.Ok) : Excl (ops.foldl step s) :=
  (Sm.invx_foldl_step s hs hx ops hops).2

/-- every sketch the Python constructor returns is valid and not both num and scaled -/
theorem mkMinHash_inv {n k hf seed : Nat} {tr : Bool} {mh sc : Nat} {r : MH}
    (h : Py.mkMinHash n k hf seed tr mh sc = .ok r) : Inv r ∧ Excl r :=
  Sm.inv_mkMinHash h

theorem inv_reachable_counterexample :
    let s := MH.new 1 21 1 42 false 2
    Inv s ∧ ¬ Inv ([Op.add 1, Op.add 2, Op.add 3].foldl step s) := by
  refine ⟨Sm.inv_new .., ?_⟩
  intro h
  have := h.capped (by decide)
  revert this
  decide

/-! ### the tie to the source: the decision structure of minhash.rs the model transcribes
(`harness/translators/mhcore.py`; a body that no longer has the modelled shape at all fails the translation) -/

/-- `add_hash_with_abundance`: `hash > max_hash && max_hash != 0` is skipped; the "good hash" test is
`hash <= max_hash || hash <= current_max || len < num`; after a middle insertion the vector is popped when
`len > num` — the comparisons `MH.addHashAb` has; `remove_hash`, `clear` and the one-line loops are as modelled -/
theorem add_decisions_match_model :
    Sm.Gen.mhAddGuardCmp = .cmpGt ∧ Sm.Gen.mhAddGuardAnd = true ∧ Sm.Gen.mhAddGuardNzCmp = .cmpNe ∧
    Sm.Gen.mhAddGoodCmps = [.cmpLe, .cmpLe, .cmpLt] ∧
    Sm.Gen.mhAddTruncCmp = .cmpGt ∧ Sm.Gen.mhAddTruncOff = 0 ∧ Sm.Gen.mhLoopsAsModelled = true := by decide

/-- `merge`: arms `x < value` / `x == value` / `x > value`, the abundances of a common hash are summed, the result is
truncated to `num` (both vectors, no offset) when `len > num && num != 0` — what `mergeP` / `MH.merge` have;
`downsample_scaled` refuses `self.scaled() > scaled`; `intersection` has the modelled body -/
theorem merge_decisions_match_model :
    Sm.Gen.mhMergeArmCmps = [.cmpLt, .cmpEq, .cmpGt] ∧ Sm.Gen.mhMergeSumsBoth = true ∧
    Sm.Gen.mhMergeTruncCmp = .cmpGt ∧ Sm.Gen.mhMergeTruncAnd = true ∧ Sm.Gen.mhMergeTruncNzCmp = .cmpNe ∧
    Sm.Gen.mhMergeTruncMinsOff = 0 ∧ Sm.Gen.mhMergeTruncAbundsOff = 0 ∧
    Sm.Gen.mhDownsampleRefuseCmp = .cmpGt ∧ Sm.Gen.mhDownsampleMaxHashViaScaled = true ∧
    Sm.Gen.mhIntersectionAsModelled = true := by decide

/-- the FFI entry points call what the model's glue functions call, in that order -/
theorem glue_calls_match_model :
    Sm.Gen.mhFfiGlueAsModelled = true ∧
    Sm.Gen.mhFfiCalls.lookup "kmerminhash_add_hash" = some ["add_hash"] ∧
    Sm.Gen.mhFfiCalls.lookup "kmerminhash_add_hash_with_abundance" = some ["add_hash_with_abundance"] ∧
    Sm.Gen.mhFfiCalls.lookup "kmerminhash_add_many" = some ["add_hash"] ∧
    Sm.Gen.mhFfiCalls.lookup "kmerminhash_add_from" = some ["add_from"] ∧
    Sm.Gen.mhFfiCalls.lookup "kmerminhash_remove_hash" = some ["remove_hash"] ∧
    Sm.Gen.mhFfiCalls.lookup "kmerminhash_remove_many" = some ["remove_many"] ∧
    Sm.Gen.mhFfiCalls.lookup "kmerminhash_remove_from" = some ["mins", "remove_many"] ∧
    Sm.Gen.mhFfiCalls.lookup "kmerminhash_set_abundances" = some ["sort(pairs)", "clear", "add_many_with_abund"] ∧
    Sm.Gen.mhFfiCalls.lookup "kmerminhash_clear" = some ["clear"] ∧
    Sm.Gen.mhFfiCalls.lookup "kmerminhash_merge" = some ["merge"] ∧
    Sm.Gen.mhFfiCalls.lookup "kmerminhash_intersection" = some ["intersection", "clone", "clear", "add_many"] := by
  decide

/-! ### every history of the whole modelled API, over the handle table -/

open Sm.DriverMh in
/-- **the invariant in every reachable state of the whole API.**  Run ANY list of operations of the `mh` stream from
the empty table (sketches are created by the Python constructor): after every step every sketch in the table —
plain handles and the sketches inside signature objects — satisfies `Inv` and is not both num and scaled. -/
theorem inv_every_history (ops : List DriverMh.Op) :
    (∀ i s, get (run init ops).1 i = some s → Inv s ∧ Excl s) ∧
    (∀ t ∈ trace init ops, ∀ i s, get t.1 i = some s → Inv s ∧ Excl s) :=
  ⟨Sm.table_good ops, Sm.trace_good ops⟩

open Sm.DriverMh in
/-- abundance vector alignment and positivity over the same histories: every stored abundance is ≥ 1 and there is
exactly one per hash -/
theorem abundances_aligned_positive_every_history (ops : List DriverMh.Op) :
    ∀ i s, get (run init ops).1 i = some s → ∀ ab, s.abunds = some ab →
      ab.length = s.mins.length ∧ ∀ a ∈ ab, 1 ≤ a := fun i s h ab hab =>
  ⟨(Sm.table_good ops i s h).1.aligned ab hab, (Sm.table_good ops i s h).1.positive ab hab⟩

open Sm.DriverMh in
/-- every sketch the driver SHOWS (`ok num=… mins=… ab=…`, the line compared with the real code) is valid -/
theorem shown_sketch_valid (ops : List DriverMh.Op) (op : DriverMh.Op) {s : MH}
    (h : (exec (run init ops).1 op).2 = .mh s) : Inv s :=
  (Sm.exec_shown_good (Sm.table_good ops) op h).1

/-- the same about the text lines of a case: what the driver prints is the rendering of a trace all of whose
tables are valid -/
theorem inv_every_history_lines (lines : List String) :
    (DriverMh.stepLines DriverMh.init lines).2 =
      (DriverMh.trace DriverMh.init (lines.map DriverMh.parseD)).map (fun t => DriverMh.render t.2.2) ∧
    ∀ t ∈ DriverMh.trace DriverMh.init (lines.map DriverMh.parseD), DriverMh.All Sm.Good t.1 :=
  ⟨DriverMh.lines_trace _ _, Sm.trace_good _⟩

/-! ### scaled sketches refine the finite-map specification -/

/-- adding hash `h` with abundance `a` to the abstract content of a sketch with
threshold `M` (`M = 0`: no threshold) -/
def Spec.add (M : Nat) (track : Bool) (m : Nat → Nat) (h a : Nat) : Nat → Nat :=
  if M ≠ 0 ∧ h > M then m
  else if a = 0 then fun x => if x = h then 0 else m x
  else fun x => if x = h then (if track then m h + a else 1) else m x

theorem count_addHashAb_scaled {s : MH} (hs : Inv s) (hn : s.num = 0) (hM : s.maxHash ≠ 0)
    (h a x : Nat) :
    count (s.addHashAb h a) x = Spec.add s.maxHash s.trackAbundance (count s) h a x :=
  Sm.count_addHashAb_scaled' hs hn hM h a x

theorem count_removeHash {s : MH} (hs : Inv s) (h x : Nat) :
    count (s.removeHash h) x = if x = h then 0 else count s x :=
  Sm.count_removeHash' hs h x

theorem count_clear (s : MH) (x : Nat) : count s.clear x = 0 :=
  Sm.count_clear' s x

/-- merge: a sketch that tracks abundance keeps doing so and the merged
abundances are the sums (a flat operand counts once per hash); a flat sketch
holds the union.  (Before the repair of D5 an abundance sketch merged with a
flat one silently became flat.) -/
theorem count_merge_scaled {s o r : MH} (hs : Inv s) (ho : Inv o) (hn : s.num = 0)
    (hr : s.merge o = .ok r) (x : Nat) :
    r.trackAbundance = s.trackAbundance ∧
    count r x = if s.trackAbundance then count s x + count o x
                else min 1 (count s x + count o x) :=
  Sm.count_merge_scaled' hs ho hn hr x

/-- a hash is present iff its count is positive -/
theorem mem_iff_count_pos {s : MH} (hs : Inv s) (x : Nat) : x ∈ s.mins ↔ 0 < count s x :=
  Sm.mem_iff_count_pos' hs x

/-- the abstraction is injective on valid sketches: same counts, same vectors -/
theorem ext_of_count {s t : MH} (hs : Inv s) (ht : Inv t)
    (htr : s.trackAbundance = t.trackAbundance) (h : ∀ x, count s x = count t x) :
    s.mins = t.mins ∧ s.abunds = t.abunds :=
  Sm.ext_of_count' hs ht htr h

/-- a scaled sketch never loses a hash because other hashes were added -/
theorem scaled_never_loses {s : MH} (hs : Inv s) (hn : s.num = 0) (hM : s.maxHash ≠ 0)
    (h a x : Nat) (hx : x ∈ s.mins) (hne : x ≠ h) : x ∈ (s.addHashAb h a).mins ∧
    count (s.addHashAb h a) x = count s x := by
  have h1 := count_addHashAb_scaled hs hn hM h a x
  have hc : count (s.addHashAb h a) x = count s x := by
    rw [h1]; unfold Spec.add; split
    · rfl
    · split <;> simp [hne]
  refine ⟨?_, hc⟩
  rw [mem_iff_count_pos (addHashAb_inv_partial hs (Or.inl hn) h a), hc]
  exact (mem_iff_count_pos hs x).1 hx

/-- insertion order and duplicates do not matter: any permutation of a block
of additions (positive abundances) gives the same sketch -/
theorem scaled_order_independent {s : MH} (hs : Inv s) (hn : s.num = 0) (hM : s.maxHash ≠ 0)
    (ps qs : List (Nat × Nat)) (hp : ps.Perm qs) (hpos : ∀ p ∈ ps, 0 < p.2) :
    (s.addManyAb ps).mins = (s.addManyAb qs).mins ∧ (s.addManyAb ps).abunds = (s.addManyAb qs).abunds :=
  Sm.scaled_order_independent' hs hn hM ps qs hp hpos

/-- batching does not matter: `set_abundances(values, clear=False)` (which sorts
its pairs first) equals adding the pairs one at a time in the order given -/
theorem scaled_batching_independent {s : MH} (hs : Inv s) (hn : s.num = 0) (hM : s.maxHash ≠ 0)
    (ps : List (Nat × Nat)) (hpos : ∀ p ∈ ps, 0 < p.2) :
    (s.ffiSetAbundances ps false).mins = (s.addManyAb ps).mins ∧
    (s.ffiSetAbundances ps false).abunds = (s.addManyAb ps).abunds :=
  Sm.scaled_batching_independent' hs hn hM ps hpos

/-! ### num sketches -/

/-- For a removal-free history a num sketch is the first `num` entries of the
unbounded sketch `u` (no threshold, no capacity) fed the same addition. -/
theorem num_add_take {s u : MH} (hs : Inv s) (hu : Inv u)
    (hn : s.num ≠ 0) (hsM : s.maxHash = 0) (hun : u.num = 0) (huM : u.maxHash = U64MAX)
    (htr : s.trackAbundance = u.trackAbundance)
    (hrep : s.pairs = u.pairs.take s.num) (h a : Nat) (ha : 0 < a) (hh : h ≤ U64MAX) :
    (s.addHashAb h a).pairs = (u.addHashAb h a).pairs.take s.num :=
  Sm.num_add_take' hs hu hn hsM hun huM htr hrep h a ha hh

/-- merging num sketches keeps the `num` smallest of the sorted union -/
theorem num_merge_take {s o r : MH} (hr : s.merge o = .ok r) (hn : s.num ≠ 0) :
    r.pairs.map Prod.fst = ((mergeP s.pairs o.pairs).take s.num).map Prod.fst :=
  Sm.num_merge_take' hr hn

/-! ### num semantics over whole histories -/

/-- **removal-free histories** (adds, add_many, abundance adds, set_abundances, merge / `+=`, `+`, copy, across any
number of sketches created with the same `num`): the num sketch is the first `num` entries — hashes AND
abundances — of the unbounded reference sketch of the same history -/
theorem num_history_take {n k hf seed : Nat} (hn : n ≠ 0) (t : NumHist) {s : MH} (hw : t.WF)
    (he : t.eval n k hf seed = .ok s) :
    ∃ u, t.ref k hf seed = .ok u ∧ s.pairs = u.pairs.take n ∧ s.mins = u.mins.take n ∧
      ∀ z, z ∈ u.mins ↔ z ∈ t.offered := by
  obtain ⟨u, hu, hr, hnum⟩ := Sm.numHist_rep hn t hw he
  exact ⟨u, hu, hnum ▸ hr.rep, hnum ▸ hr.mins, (Sm.numHist_ref_mem t hw hu).2⟩

/-- **a num sketch holds exactly the `num` smallest distinct hashes offered** (`sortDedup l` is the strictly
ascending list with the members of `l`: `sortDedup_spec`) -/
theorem num_sketch_is_bottom_n {n k hf seed : Nat} (hn : n ≠ 0) (t : NumHist) {s : MH} (hw : t.WF)
    (he : t.eval n k hf seed = .ok s) : s.mins = (sortDedup t.offered).take n :=
  Sm.num_sketch_is_bottom_n' hn t hw he

theorem sortDedup_spec (l : List Nat) : Sorted (sortDedup l) ∧ ∀ z, z ∈ sortDedup l ↔ z ∈ l :=
  ⟨Sm.sorted_sortDedup l, fun z => Sm.mem_sortDedup z l⟩

/-- every retained hash carries the count the unbounded reference carries (for which C01's scaled specification —
`count_addHashAb_scaled`, `count_merge_scaled` — says: the total abundance offered) -/
theorem num_retained_counts {n k hf seed : Nat} (hn : n ≠ 0) (t : NumHist) {s : MH} (hw : t.WF)
    (he : t.eval n k hf seed = .ok s) :
    ∃ u, t.ref k hf seed = .ok u ∧ ∀ x ∈ s.mins, count s x = count u x := by
  obtain ⟨u, hu, hr, _⟩ := Sm.numHist_rep hn t hw he
  exact ⟨u, hu, fun x hx => hr.count_eq hx⟩

/-- **what a removal does to a num sketch, exactly.**  With `s` the bottom-`num` of the reference `u`: the removal
erases the hash from both and restores nothing, so the sketch is afterwards the bottom-`num` of the reference iff
the hash was not retained or nothing had been evicted (`u` no longer than `num`); otherwise it is exactly one
short: the bottom-(`num`-1).  (This is D21: the evicted hash cannot come back.) -/
theorem num_remove_exact {s u : MH} (h : NumRep s u) (x : Nat) :
    (s.removeHash x).mins = s.mins.erase x ∧ (u.removeHash x).mins = u.mins.erase x ∧
    (s.removeHash x).mins =
      if x ∈ s.mins ∧ s.num < u.mins.length then (u.removeHash x).mins.take (s.num - 1)
      else (u.removeHash x).mins.take s.num :=
  Sm.num_remove_exact' h x

theorem num_remove_keeps_rep_iff {s u : MH} (h : NumRep s u) (x : Nat) :
    (s.removeHash x).mins = (u.removeHash x).mins.take s.num ↔ ¬ (x ∈ s.mins ∧ s.num < u.mins.length) :=
  Sm.num_remove_keeps_rep_iff h x

/-- non-vacuity: three sketches, `+`, merge and add_many in one history; num = 3 -/
example :
    let t : NumHist := .merge (.plus (.addMany (.fresh false) [9, 4, 4, 7]) (.add (.fresh false) 1))
                              (.addMany (.fresh false) [8, 2, 9])
    t.WF ∧ (∃ s, t.eval 3 21 1 42 = .ok s ∧ s.mins = [1, 2, 4]) ∧ sortDedup t.offered = [1, 2, 4, 7, 8, 9] := by
  refine ⟨by simp only [NumHist.WF]; decide, ⟨_, rfl, by decide⟩, by decide⟩

/-- **D21 (known finding).**  "exactly the num smallest among values added and
not since removed" is false of a bottom-k sketch once a removal follows an
eviction: num = 2; add 1, 2, 3; remove 1 leaves {2}, not {2, 3}. -/
theorem num_remove_counterexample :
    let s := (((MH.new 0 21 1 42 false 2).addHash 1).addHash 2).addHash 3
    (s.removeHash 1).mins = [2] ∧ [2, 3] ≠ (s.removeHash 1).mins := by decide

/-- D5 (repaired): an abundance sketch merged with a flat sketch keeps tracking
abundance; the flat operand's hashes count once. -/
theorem merge_abund_flat_example :
    let a := ((MH.new 1 21 1 42 true 0).addHashAb 5 3).addHashAb 7 2
    let f := (MH.new 1 21 1 42 false 0).addHash 7
    ∃ r, a.merge f = .ok r ∧ r.abunds = some [3, 3] ∧ r.mins = [5, 7] := by
  refine ⟨_, rfl, ?_, ?_⟩ <;> decide

/-! non-vacuity of the hypotheses used above -/
example : Inv ((MH.new 1 21 1 42 true 0).addHashAb 5 3) ∧
    ((MH.new 1 21 1 42 true 0).addHashAb 5 3).maxHash ≠ 0 :=
  ⟨addHashAb_inv_partial (new_inv ..) (Or.inl rfl) 5 3, by decide⟩

end Sm.C01
