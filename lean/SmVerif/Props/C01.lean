import SmVerif.Model.MinHash
namespace Sm.C01
theorem placeholder : (1 : Nat) = 1 := rfl
end Sm.C01
