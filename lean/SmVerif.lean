-- Root of the `SmVerif` library.
import SmVerif.Model.Float64
import SmVerif.Model.Generated
import SmVerif.Model.Scaled
import SmVerif.Model.MinHash
import SmVerif.Model.Proto
import SmVerif.Model.DriverMh
