#!/usr/bin/env python3
"""C02 - sequences are hashed by the published canonical k-mer scheme."""
import os, sys
sys.path.insert(0, os.path.dirname(os.path.abspath(__file__)))
sys.path.insert(0, os.path.dirname(os.path.dirname(os.path.abspath(__file__))))
import streamlib
from streams import seq

TB = [
    "Lean 4.33 kernel; axioms allowed: propext, Classical.choice, Quot.sound (checked by #print axioms on every theorem)",
    "translator harness/translators/seq.py: COMPLEMENT, VALID, CODONTABLE, DAYHOFFTABLE, HPTABLE and the literal bytes b'X' / b'N' of translate_codon, aa_to_dayhoff, aa_to_hp are re-extracted from src/core/src/encodings.rs on every run; the table theorems are re-checked by `decide` against the regenerated tables",
    "hand-written model lean/SmVerif/Model/SeqToHashes.lean of SeqToHashes::new/next, add_sequence/add_protein, kmerminhash_seq_to_hashes and the Python glue (seq_to_hashes, kmers_and_hashes, add_sequence, add_protein), tied to /repo by the seq correspondence stream (differential testing, not a proof about the code)",
    "MurmurHash3_x64_128 re-implemented in Lean (Model/Murmur3.lean) from the published algorithm and compared with hash_murmur on every generated k-mer; the theorems treat the hash as an arbitrary function (they are about WHICH byte strings are hashed, in which order); nothing is claimed about its distribution",
    "bytes are modelled as naturals; Rust panics (slice index, from_utf8().unwrap(), windows(0)) as error values turned into a Python exception by the FFI landing pad; cffi / CStr / Vec semantics trusted",
]
AS = [
    "a k-mer whose hash is exactly 0 is dropped by add_sequence / seq_to_hashes (0 is the in-band skip marker of the iterator): theorems about the hashes offered to a sketch assume hash(w) != 0 for the windows involved. MurmurHash3 of k NUL bytes with seed k is 0 (theorem zero_hash_exhibit), reachable for amino-acid input (known finding C02.4); no ACGT k-mer with hash 0 is known",
    "translated DNA with non-ACGT letters IS judged by the oracle for ASCII input: a codon with a letter other than A/C/G/T has no standard translation (X) unless it is xyN of a four-fold degenerate family; the other strand is the reverse complement under A<->T, C<->G, N->N (anything else has no complement); strand symmetry is checked through seq_to_hashes. Not judged: input with bytes >= 0x80 in translated mode (a codon that is not UTF-8 makes Rust panic -> exception; modelled and compared), and kmers_and_hashes on translated input with letters outside ACGTN (screed.rc raises AssertionError; modelled and compared)",
    "k = 0 is outside the property: DNA sketches hash len+1 empty k-mers (covered by dna_iter_eq_spec), protein-type sketches panic on every input (theorem translate_k0_panics, corpus/C02/panics.ops); ksize*3 beyond uint32 is refused by cffi with OverflowError in MinHash.__init__ (nothing wraps, not modelled)",
]
RULE = ("one base sequence per case (length 0..80 biased to k-2..k+2, 3k-1..3k+1, 0..3; alphabets: ACGT, +N, +IUPAC, amino acids, "
        "odd ASCII incl. NUL/space/newline, multi-byte UTF-8 characters, raw bytes >= 0x80; random lower-casing), "
        "k in {1,2,3,4,7,21,31}, seeds {0,42,1,2^32,2^63,2^64-1}, four molecule types; pushed through hash_murmur, seq_to_hashes "
        "(force x bad_kmers_as_zeroes x str/bytes), kmers_and_hashes (force on/off), add_sequence (whole, force on/off, two pieces "
        "overlapping by k-1, reverse complement or re-cased copy, record by record), add_protein, and seq_to_hashes of the reverse complement under the code's complement table (strand symmetry for any ASCII letters); the oracle recomputes every "
        "observation from the statement (own MurmurHash3, own windows, own genetic code / Dayhoff / HP classes) and checks the "
        "rc / case / pieces relations between ops; non-trivial = some op returned >= 3 hashes; distinct = distinct op lists")


if __name__ == "__main__":
    streamlib.run_property("C02", seq, ["dna", "translate", "dna", "protein", "malformed", "dna", "translate", "malformed"],
                           seq.oracle, 12000, 150000, TB, AS, RULE, nontrivial=seq.nontrivial)
