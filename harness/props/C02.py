#!/usr/bin/env python3
"""C02 - sequences are hashed by the published canonical k-mer scheme."""
import os, sys
sys.path.insert(0, os.path.dirname(os.path.abspath(__file__)))
sys.path.insert(0, os.path.dirname(os.path.dirname(os.path.abspath(__file__))))
import streamlib
from streams import seq

TB = [
    "Lean 4.33 kernel; axioms allowed: propext, Classical.choice, Quot.sound (checked by #print axioms on every theorem)",
    "translator harness/translators/seq.py: COMPLEMENT, VALID, CODONTABLE, DAYHOFFTABLE, HPTABLE and the literal bytes b'X' / b'N' of translate_codon, aa_to_dayhoff, aa_to_hp are re-extracted from src/core/src/encodings.rs on every run; the table theorems are re-checked by `decide` against the regenerated tables",
    "hand-written model lean/SmVerif/Model/SeqToHashes.lean of SeqToHashes::new/next, add_sequence/add_protein, kmerminhash_seq_to_hashes and the Python glue (seq_to_hashes, kmers_and_hashes, add_sequence, add_protein), tied to /repo by the seq correspondence stream (differential testing, not a proof about the code)",
    "MurmurHash3_x64_128 re-implemented in Lean (Model/Murmur3.lean) from the published algorithm and compared with hash_murmur on every generated k-mer; the theorems treat the hash as an arbitrary function (they are about WHICH byte strings are hashed, in which order); nothing is claimed about its distribution",
    "bytes are modelled as naturals; Rust panics (slice index, from_utf8().unwrap(), windows(0)) as error values turned into a Python exception by the FFI landing pad; cffi / CStr / Vec semantics trusted",
]
AS = [
    "a k-mer whose hash is exactly 0 is dropped by add_sequence / seq_to_hashes (0 is the in-band skip marker of the iterator): theorems about the hashes offered to a sketch assume hash(w) != 0 for the windows involved. MurmurHash3 of k NUL bytes with seed k is 0 (theorem zero_hash_exhibit), reachable for amino-acid input (known finding C02.4); no ACGT k-mer with hash 0 is known",
    "translated DNA with non-ACGT letters IS judged by the oracle for ASCII input: a codon with a letter other than A/C/G/T has no standard translation (X) unless it is xyN of a four-fold degenerate family; the other strand is the reverse complement under A<->T, C<->G, N->N (anything else has no complement); strand symmetry is checked through seq_to_hashes. Not judged: input with bytes >= 0x80 in translated mode (a codon that is not UTF-8 makes Rust panic -> exception; modelled and compared), and kmers_and_hashes on translated input with letters outside ACGTN (screed.rc raises AssertionError; modelled and compared)",
    "k = 0 is outside the property: DNA sketches hash len+1 empty k-mers (covered by dna_iter_eq_spec), protein-type sketches panic on every input (theorem translate_k0_panics, corpus/C02/panics.ops); ksize*3 beyond uint32 is refused by cffi with OverflowError in MinHash.__init__ (nothing wraps, not modelled)",
]
RULE = ("PERIPHERY (adapter-side, invisible to the model): per-case counter alternates the spellings of each operation "
        "(bytes/str/int argument; positional/keyword/defaulted force; MinHash- vs SourmashSignature-level add_sequence/add_protein; "
        "read-only calls on num/scaled/abundance/pre-filled/frozen/signature-derived sketches; hash_murmur default seed / int); after every op "
        "views must agree (len/iter/.hashes, copy, pickle, frozen, signature wrap, JSON round trip incl. seed/ksize/moltype; "
        "add_many(seq_to_hashes()) and add_kmer per window vs add_sequence; every sketch of a from_params multi-sketch signature vs the "
        "stand-alone sketch; an accumulating sketch vs the sum of the fresh ones; repeated read-only calls; frozen sketches refuse); every "
        "result object is kept to the end of the case and re-read after each later op; `sourmash sketch dna|translate|protein` and "
        "`compute` run in-process on a FASTA file of the records; translate_codon / aa_to_dayhoff / aa_to_hp ops.  "
        "one base sequence per case (length 0..80 biased to k-2..k+2, 3k-1..3k+1, 0..3; alphabets: ACGT, +N, +IUPAC, amino acids, "
        "odd ASCII incl. NUL/space/newline, multi-byte UTF-8 characters, raw bytes >= 0x80; random lower-casing), "
        "k in {1,2,3,4,7,21,31}, seeds {0,42,1,2^32,2^63,2^64-1}, four molecule types; pushed through hash_murmur, seq_to_hashes "
        "(force x bad_kmers_as_zeroes x str/bytes), kmers_and_hashes (force on/off), add_sequence (whole, force on/off, two pieces "
        "overlapping by k-1, reverse complement or re-cased copy, record by record), add_protein, and seq_to_hashes of the reverse complement under the code's complement table (strand symmetry for any ASCII letters); the oracle recomputes every "
        "observation from the statement (own MurmurHash3, own windows, own genetic code / Dayhoff / HP classes) and checks the "
        "rc / case / pieces relations between ops; non-trivial = some op returned >= 3 hashes; distinct = distinct op lists")


REF_DRIVER = r"""
import contextlib, io, json, os, runpy, sys, tempfile
sys.path.insert(0, os.environ["VERIF_HARNESS"])
from streams.seq import murmur64
import types
# stand-in for the mmh3 package (not installed offline): hash64 -> (low, high) as SIGNED 64-bit ints
mmh3 = types.ModuleType("mmh3")
def hash64(key, seed=0, x64arch=True, signed=True):
    if isinstance(key, str):
        key = key.encode("utf-8")
    h = murmur64(bytes(key), seed)
    return (h - 2 ** 64 if h >= 2 ** 63 else h, 0)
mmh3.hash64 = hash64
sys.modules["mmh3"] = mmh3
import sourmash, sourmash.signature as sg
# the util still calls SourmashSignature(email, minhash, name=...): accept the legacy positional form
_Orig = sg.SourmashSignature
class Legacy(_Orig):
    def __init__(self, *a, **kw):
        if len(a) == 2 and isinstance(a[0], str):
            a = a[1:]
        super().__init__(*a, **kw)
sg.SourmashSignature = Legacy
if not hasattr(sg, "save_signatures"):           # renamed save_signatures_to_json since the util was written
    def save_signatures(sigs, fp=None):
        js = sg.save_signatures_to_json(sigs)
        return js.decode("utf-8") if isinstance(js, bytes) else js
    sg.save_signatures = save_signatures
util, d = sys.argv[1], sys.argv[2]
out = []
for line in sys.stdin:
    seq = line.strip()
    if not seq:
        continue
    fa = os.path.join(d, "ref.fa")
    with open(fa, "w") as f:
        f.write(">r\n" + seq + "\n")
    buf = io.StringIO()
    sys.argv = [util, fa]
    try:
        with contextlib.redirect_stdout(buf), contextlib.redirect_stderr(io.StringIO()):
            runpy.run_path(util, run_name="__main__")
        js = json.loads(buf.getvalue().strip().split("\n")[-1])
        ref = js[0]["signatures"][0]["mins"]
        err = None
    except BaseException as e:
        ref, err = None, type(e).__name__ + ": " + str(e)[:200]
    mh = sourmash.MinHash(n=500, ksize=21)
    mh.add_sequence(seq)
    out.append({"seq": seq, "ref": ref, "err": err, "real": sorted(mh.hashes)})
print(json.dumps(out))
"""


def extra(chk, pkg):
    """third implementation: utils/compute-dna-mh-another-way.py (its own k-mer / reverse-complement / min logic,
    bottom-500 sketch through add_hash) on clean upper-case DNA.  It needs the mmh3 package (absent offline) and
    still uses two pre-4.0 API calls: all three are shimmed, the util itself runs unmodified."""
    import json as _json
    import shutil
    import subprocess
    import tempfile
    from common import BUILD, REPO, PY, VERIF
    util = os.path.join(REPO, "utils", "compute-dna-mh-another-way.py")
    if not os.path.exists(util):
        chk.cov["reference_util"] = "utils/compute-dna-mh-another-way.py not found"
        return
    n = 120 if chk.tier == "thorough" else 16
    seqs = []
    for i in range(n):
        ln = chk.rng.choice([21, 22, 25, 40, 60]) if i % 3 == 0 else chk.rng.randint(21, 700)
        seqs.append("".join(chk.rng.choice("ACGT") for _ in range(ln)))
    os.makedirs(os.path.join(BUILD, "tmp"), exist_ok=True)
    d = tempfile.mkdtemp(prefix="c02ref", dir=os.path.join(BUILD, "tmp"))
    try:
        drv = os.path.join(d, "drv.py")
        with open(drv, "w") as f:
            f.write(REF_DRIVER)
        env = dict(os.environ, PYTHONPATH=pkg, VERIF_HARNESS=os.path.join(VERIF, "harness"))
        r = subprocess.run([PY, drv, util, d], input="\n".join(seqs) + "\n", env=env, text=True,
                           stdout=subprocess.PIPE, stderr=subprocess.PIPE, timeout=900)
        if r.returncode != 0:
            chk.cov["reference_util"] = "driver failed: " + r.stderr[-300:]
            return
        res = _json.loads(r.stdout.strip().split("\n")[-1])
    finally:
        shutil.rmtree(d, ignore_errors=True)
    ran = [x for x in res if x["ref"] is not None]
    for x in ran:
        chk.cov["evaluations"] += 1
        if x["ref"] != x["real"]:
            chk.add_violation("oracle", "C02:reference-util-disagrees",
                              f"utils/compute-dna-mh-another-way.py and MinHash(n=500, ksize=21).add_sequence disagree on "
                              f"{x['seq'][:60]}... ({len(x['seq'])} nt): {len(set(x['ref']) ^ set(x['real']))} hashes differ",
                              {"seq": x["seq"], "reference": x["ref"][:20], "real": x["real"][:20]})
    errs = sorted({x["err"] for x in res if x["err"]})
    chk.cov["reference_util"] = (f"utils/compute-dna-mh-another-way.py run unmodified on {len(ran)}/{len(res)} clean DNA sequences "
                                 f"(mmh3 shimmed by the oracle's MurmurHash3; its pre-4.0 calls SourmashSignature(email, mh) and signature.save_signatures shimmed); "
                                 + ("all agree with add_sequence" if not errs else "errors: " + "; ".join(errs)[:300]))


if __name__ == "__main__":
    streamlib.run_property("C02", seq, ["dna", "translate", "dna", "protein", "malformed", "dna", "translate", "malformed"],
                           seq.oracle, 12000, 100000, TB, AS, RULE, nontrivial=seq.nontrivial, extra=extra)
