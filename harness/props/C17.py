#!/usr/bin/env python3
"""C17 - ANI estimates are well-formed functions of containment or Jaccard.  (partial by nature)"""
import os, sys
sys.path.insert(0, os.path.dirname(os.path.abspath(__file__)))
sys.path.insert(0, os.path.dirname(os.path.dirname(os.path.abspath(__file__))))
import streamlib
from streams import ani

TB = [
    "Lean 4.33 kernel + Mathlib v4.33 (Real.rpow); axioms allowed: propext, Classical.choice, Quot.sound (checked by #print axioms on every theorem)",
    "NOT PROVED, observed only: the binary64 evaluation of the closed forms. The model evaluates them with Lean's runtime Float "
    "(C library pow/exp/log, the same library CPython uses) in Python's operation order and is compared with the implementation "
    "through same(a, b) of harness/streams/ani.py: identical lines, or every bit-pattern field within 1e-12 RELATIVE; lines of the "
    "decision-logic ops (`res ...`) must be identical. The theorems about the closed forms are over the reals.",
    "scipy.optimize.brentq, scipy.stats.norm.ppf (confidence intervals) and scipy.stats.binom (size_is_accurate) are not modelled: their "
    "results are INPUTS of the model (pasted from a helper process running the real code, re-computed by the adapter); bracketing of the "
    "point estimate is checked by the oracle on the implementation's outputs and proved only under the hypothesis sol2 <= point <= sol1",
    "translator (harness/translators/ani.py): default thresholds, check_distance, the ani/ani_low/ani_high properties, __post_init__ bodies, "
    "point-estimate expressions, r1_to_q, var_n_mutated, the error bound, get_exp_probability_nothing_common, the MinHash wrappers' "
    "n_unique_kmers / size flags, and the two shapes of ani_utils.rs are re-read by AST / token matching on every run",
    "Python vs native estimator: src/core/src/ani_utils.rs is NOT reachable through the Python FFI (include/sourmash.h exports no ANI function; "
    "revindex_gather drops the ANI fields): nothing of it is executed here. Its point estimate is the same expression (translator + theorem "
    "native_same_closed_form over the reals); its interval code differs (finding D17, from the source text only)",
    "the independent oracle evaluates 1 - x^(1/k) with Python's decimal module at 60 digits",
]
AS = [
    "ratios a/b with b <= 5000 (plus 1-2^-53, ~1e-10, (10^7-1)/10^7 and 1+2^-52), k in 1..130, scaled in {1,2,10,...,10^6}, "
    "n_unique_kmers from 1 upward, confidence levels 0.01..0.999, thresholds None / 0 / 1e-3 / 1",
    "jaccard_to_distance raising ValueError('varN <0.0!') when n_unique_kmers < ksize is treated as the documented refusal of inputs that are "
    "too small ('this seems to happen only with super tiny test data'); the same error for n_unique_kmers >= ksize is finding D16",
    "monotonicity in binary64 is checked as non-strict (the real functions are strictly monotone: theorems strict_mono_c / strict_mono_j)",
    "inputs outside [0,1] (not ratios of sketch sizes) are only compared with the model, the property says nothing about them",
]
RULE = ("four case flavours: closed (groups of containment_to_distance / jaccard_to_distance calls sharing k, on attainable ratios biased to "
        "0, 1/b, (b-1)/b, 1, one ulp below 1, ~1e-10), res (ANIResult / jaccardANIResult / ciANIResult constructed from boundary values incl. "
        "NaN, inf, -0.0, 1+ulp, thresholds +- ulp; compared exactly), ci (estimate_ci=True over confidence levels and sizes incl. sizes where brentq fails), "
        "mh (containment_ani / max_containment_ani / avg_containment_ani / jaccard_ani on real sketches of 1..3000 hashes, identical / disjoint / partial overlap); "
        "oracle (independent of the model): range, exact values at 0 and 1, ani == 1 - dist, closed form vs 60-digit reference (1e-12 relative + 4e-16 absolute), "
        "monotone in the ratio for fixed k, CI present => 0 <= low <= ani <= high <= 1, withheld iff size inaccurate or jaccard error above threshold, "
        "constructor refuses iff a distance is outside [0,1]; non-trivial = >= 3 answered ops with different outputs; distinct = distinct op lists")


def extra(chk, pkg):
    chk.cov["level"] = "partial: real-analysis and decision-logic theorems are proved; the binary64 / scipy numerics are tied by tolerance correspondence only"
    chk.cov["tolerance"] = {"same": "identical, or bit-pattern fields within 1e-12 relative; `exact` lines identical", "proved": False}
    tr = ((chk.translator or {}).get("outputs") or {}).get("ani") or {}
    if tr.get("rust.ci_defaults_on_failure"):
        chk.add_violation("source", "C17:native-ci:unwrap_or_default",
                          "ani_utils.rs ani_ci_from_containment replaces a failed root search by the default 0.0 "
                          "(find_root_brent(..).unwrap_or_default()): the native interval is fabricated (bound 1.0), not withheld; "
                          "from the source text, the native estimator cannot be executed through the Python FFI",
                          {"translator": tr, "theorem": "Sm.C17.native_ci_fabricated_counterexample"}, concrete=False)
    # how often is the 1e-12 tolerance actually used?  (measured on a fresh sample of closed-form cases)
    sample = [ani.gen_case(chk.rng, "closed") for _ in range(300)] + [ani.gen_case(chk.rng, "mh") for _ in range(100)]
    ident = tol = 0
    for case, impl, model, crash in streamlib.run_cases(ani, sample, pkg, procs=8):
        if crash is None:
            for a, b in zip(impl, model):
                if a == b:
                    ident += 1
                elif ani.same(a, b):
                    tol += 1
    chk.cov["tolerance"]["measured"] = f"{ident} of {ident + tol} sampled output lines bit-identical, {tol} needed the tolerance"
    if chk.tier != "thorough":
        return
    # sweep: every denominator b <= 5000 for the usual k, every k in 1..120 for b <= 200; a in {1, b//2, b-1}; both closed forms
    kmax = int(os.environ.get("VERIF_C17_SWEEP_K", "120"))
    bmax = int(os.environ.get("VERIF_C17_SWEEP_B", "5000"))
    cases = []
    for k in range(1, kmax + 1):
        top = bmax if k in (1, 2, 3, 7, 21, 31, 51, 100, 120) else min(bmax, 200)
        for op in ("c2d", "j2d"):
            lines = []
            for b in range(2, top + 1):
                for a in sorted({1, b // 2, b - 1}):
                    x = ani.bits(a / b)
                    n = b * 1000
                    lines.append(f"{op} {x} {k} 1000 {n} {ani.bits(1e-3)}" + (f" {ani.bits(1e-4)}" if op == "j2d" else ""))
            cases.append(lines)
    res = streamlib.run_cases(ani, cases, pkg, procs=16, per_proc_min=1)
    n_ops = 0
    for case, impl, model, crash in res:
        chk.cov["evaluations"] += 1
        if crash is not None:
            chk.add_violation("crash", "C17:adapter-crash", "real code died in sweep", {"case": case[:5]})
            continue
        chk.cov["traces_validated_against_impl"] += 1
        n_ops += len(case)
        ob = [b for b in ani.oracle(case, impl) if not b[1].startswith("skip:")]
        k = streamlib.first_diff(ani, impl, model)
        if ob:
            idx, sig, msg = ob[0]
            chk.add_violation("oracle", sig, msg, {"case": case[max(0, idx - 2):idx + 1], "impl": impl[max(0, idx - 2):idx + 1], "op_index": idx})
        elif k is not None:
            chk.add_violation("correspondence", "C17:corr:sweep", f"model and implementation disagree in sweep at {case[k]}",
                              {"case": [case[k]], "impl": [impl[k]], "model": [model[k]]}, concrete=False)
    chk.cov["sweep"] = (f"b in 2..{bmax} for k in {{1,2,3,7,21,31,51,100,120}}, b in 2..200 for every k in 1..{kmax}; a in {{1, b//2, b-1}}; "
                        f"containment and jaccard: {n_ops} ops on implementation, model and oracle")


if __name__ == "__main__":
    streamlib.run_property("C17", ani, ["closed", "res", "ci", "mh", "closed", "res"], ani.oracle,
                           5000, 40000, TB, AS, RULE, nontrivial=ani.nontrivial, extra=extra)
