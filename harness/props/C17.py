#!/usr/bin/env python3
"""C17 - ANI estimates are well-formed functions of containment or Jaccard.  (partial by nature)"""
import os, sys
sys.path.insert(0, os.path.dirname(os.path.abspath(__file__)))
sys.path.insert(0, os.path.dirname(os.path.dirname(os.path.abspath(__file__))))
import common
import rust_harness
import streamlib
from streams import ani

TB = [
    "Lean 4.33 kernel + Mathlib v4.33 (Real.rpow); axioms allowed: propext, Classical.choice, Quot.sound (checked by #print axioms on every theorem)",
    "NOT PROVED, observed only: the binary64 evaluation of the closed forms. The model evaluates them with Lean's runtime Float "
    "(C library pow/exp/log, the same library CPython uses) in Python's operation order and is compared with the implementation "
    "through same(a, b) of harness/streams/ani.py: identical lines, or every bit-pattern field within 1e-12 RELATIVE; lines of the "
    "decision-logic ops (`res ...`) must be identical. The theorems about the closed forms are over the reals.",
    "scipy.optimize.brentq, scipy.stats.norm.ppf (confidence intervals) and scipy.stats.binom (size_is_accurate) are not modelled: their "
    "results are INPUTS of the model (pasted from a helper process running the real code, re-computed by the adapter); bracketing of the "
    "point estimate is checked by the oracle on the implementation's outputs and proved only under the hypothesis sol2 <= point <= sol1",
    "translator (harness/translators/ani.py): default thresholds, check_distance, the ani/ani_low/ani_high properties, __post_init__ bodies, "
    "point-estimate expressions, r1_to_q, var_n_mutated, the error bound, get_exp_probability_nothing_common, the MinHash wrappers' "
    "n_unique_kmers / size flags, and the two shapes of ani_utils.rs are re-read by AST / token matching on every run",
    "Python vs native estimator: src/core/src/ani_utils.rs is not reachable through the Python FFI (include/sourmash.h exports no ANI function). "
    "It is EXECUTED through the out-of-tree rust-harness (`smharness ani`, built offline against the working tree's sourmash crate): the two pub "
    "functions through the crate, the private helpers (r1_to_q, exp_n_mutated, var_n_mutated, exp_n_mutated_squared, probit, "
    "get_exp_probability_nothing_common are plain `fn`, neither pub nor pub(crate)) through a textual include of the same source file, "
    "compiled by the same compiler and profile; `inc-ani` / `inc-ci` run the included copy of the pub functions next to the library's. "
    "The +-*/ shapes (incl. powi = compiler-builtins' multiplication loop) are modelled and compared bit for bit; statrs' inverse normal CDF "
    "and roots' find_root_brent are not modelled (the model echoes those results, the oracle judges them against the Python twin: 1e-6 absolute)",
    "src/core/src/index/mod.rs (anchor): the ANI fields of the native GatherResult come from calculate_gather_stats, whose only caller is the RocksDB "
    "RevIndex (`pub mod revindex` needs the `branchwater` cargo feature, not part of this build; the Python RevIndex.gather that would call the "
    "revindex_gather FFI is commented out, and that FFI returns only (f_match, signature, filename)): NOT reachable through the Python FFI. It is "
    "`pub`, so rust-harness calls it directly (`nat gstats`) next to search.GatherResult on the same three sketches; point fields modelled (rustGatherAni) "
    "and bit-identical, intervals judged by the oracle",
    "sketchcomparison.py / search.py: the comparison and result classes are modelled as plumbing over the MinHash-level answers (inputs of the model, "
    "pasted from the helper process; re-computed by the adapter): which answer feeds which field, None propagation, max / average of two optional values, "
    "which CSV cells are written",
    "MinHash.size_is_accurate: scipy.stats.binom.cdf / pmf are INPUTS of the model (recorded by a proxy around distance_utils.binom inside the adapter); "
    "the model reproduces which functions are called with which arguments (binary64 +-*/ only), the probability and the answer",
    "the independent oracle evaluates 1 - x^(1/k) with Python's decimal module at 60 digits",
]
AS = [
    "ratios a/b with b <= 5000 (plus 1-2^-53, ~1e-10, (10^7-1)/10^7 and 1+2^-52), k in 1..130, scaled in {1,2,10,...,10^6}, "
    "n_unique_kmers from 1 upward, confidence levels 0.01..0.999, thresholds None / 0 / 1e-3 / 1",
    "jaccard_to_distance raising ValueError('varN <0.0!') when n_unique_kmers < ksize is treated as the documented refusal of inputs that are "
    "too small ('this seems to happen only with super tiny test data'); the same error for n_unique_kmers >= ksize is finding D16",
    "the only output lines that are not bit-identical between model and implementation are `nat pnc` at scaled = 1, where both sides "
    "return NaN (0 * -inf; Rust yields the negative quiet NaN, Lean's Float.toBits the canonical one) - same() treats NaN = NaN; the native "
    "get_exp_probability_nothing_common is dead code (#[allow(dead_code)]) and returns NaN there where the Python twin returns 0.0",
    "monotonicity in binary64 is checked as non-strict (the real functions are strictly monotone: theorems strict_mono_c / strict_mono_j)",
    "inputs outside [0,1] (not ratios of sketch sizes) are only compared with the model, the property says nothing about them",
]
RULE = ("(ONE operation, several routes: every estimate of the mh flavour is evaluated through all its spellings - sketch / frozen-sketch / signature level, defaults and the "
        "documented values spelled out, pre-computed containment / Jaccard handed in, downsample=True, the module-level function, n_unique_kmers= vs sequence_len_bp= - the answering "
        "spelling alternates under a per-case counter, all must agree: C17:routes-differ / C17:views-differ; the cls ops also read every result through resultdict / prefetchresultdict / "
        "gatherresultdict and through the database layer - LinearIndex + search_databases_with_flat_query / prefetch_database / GatherDatabases; size_is_accurate is asked again on the same "
        "and on a grown object: C17:history-differs; boundary flavour jewin: size-accurate pairs whose Jaccard error bound lies just below / inside / just above 1e-4 and 1e-3) "
        "(the mh flavour also sends a third of its sketch pairs through the compare-level ANI entry points: compare_all_pairs(return_ani=True) with n_jobs None and 2, "
        "compare_serial, compare_serial_containment / _max_containment / _avg_containment(return_ani=True); a withheld MinHash-level estimate must be exactly 0.0 in the matrix) "
        "seven case flavours: cls (the mh flavour's sketch pairs through FracMinHashComparison - every estimate_* method and ANI property, cmp_scaled "
        "None / max / coarser / finer, estimate_ani_ci, ani_confidence - NumMinHashComparison, PrefetchResult, GatherResult, SearchResult incl. the CSV row "
        "written through their own DictWriter; relation oracle: every class-level ANI equals the MinHash-level answer on the correspondingly downsampled "
        "sketches, 0.0 for reliable disjoint, 1.0 for reliable identical, withheld iff a size estimate is inaccurate), six more flavours: native (the Rust estimator next to the Python one on the same inputs: point estimate, interval, r1_to_q, exp/var_n_mutated, "
        "prob_nothing_in_common, probit), sia (size_is_accurate around its flip points, every parameter boundary, both branches of set_size_exact_prob), closed (groups of containment_to_distance / jaccard_to_distance calls sharing k, on attainable ratios biased to "
        "0, 1/b, (b-1)/b, 1, one ulp below 1, ~1e-10), res (ANIResult / jaccardANIResult / ciANIResult constructed from boundary values incl. "
        "NaN, inf, -0.0, 1+ulp, thresholds +- ulp; compared exactly), ci (estimate_ci=True over confidence levels and sizes incl. sizes where brentq fails), "
        "mh (containment_ani / max_containment_ani / avg_containment_ani / jaccard_ani on real sketches of 1..3000 hashes, identical / disjoint / partial overlap); "
        "oracle (independent of the model): range, exact values at 0 and 1, ani == 1 - dist, closed form vs 60-digit reference (1e-12 relative + 4e-16 absolute), "
        "monotone in the ratio for fixed k, CI present => 0 <= low <= ani <= high <= 1, withheld iff size inaccurate or jaccard error above threshold, "
        "constructor refuses iff a distance is outside [0,1]; non-trivial = >= 3 answered ops with different outputs; distinct = distinct op lists")


def extra(chk, pkg):
    chk.cov["level"] = "partial: real-analysis and decision-logic theorems are proved; the binary64 / scipy numerics are tied by tolerance correspondence only"
    chk.cov["tolerance"] = {"same": "identical, or bit-pattern fields within 1e-12 relative; `exact` lines identical", "proved": False}
    # how often is the 1e-12 tolerance actually used?  (measured on a fresh sample of closed-form cases)
    sample = [ani.gen_case(chk.rng, "closed") for _ in range(300)] + [ani.gen_case(chk.rng, "mh") for _ in range(100)] + \
        [ani.gen_case(chk.rng, "native") for _ in range(150)] + [ani.gen_case(chk.rng, "sia") for _ in range(100)]
    ident = tol = 0
    for case, impl, model, crash in streamlib.run_cases(ani, sample, pkg, procs=8):
        if crash is None:
            for a, b in zip(impl, model):
                if a == b:
                    ident += 1
                elif ani.same(a, b):
                    tol += 1
    chk.cov["tolerance"]["measured"] = f"{ident} of {ident + tol} sampled output lines bit-identical, {tol} needed the tolerance"
    if chk.tier != "thorough":
        return
    # sweep: every denominator b <= 5000 for the usual k, every k in 1..120 for b <= 200; a in {1, b//2, b-1}; both closed forms
    kmax = int(os.environ.get("VERIF_C17_SWEEP_K", "120"))
    bmax = int(os.environ.get("VERIF_C17_SWEEP_B", "5000"))
    cases = []
    for k in range(1, kmax + 1):
        top = bmax if k in (1, 2, 3, 7, 21, 31, 51, 100, 120) else min(bmax, 200)
        for op in ("c2d", "j2d"):
            lines = []
            for b in range(2, top + 1):
                for a in sorted({1, b // 2, b - 1}):
                    x = ani.bits(a / b)
                    n = b * 1000
                    lines.append(f"{op} {x} {k} 1000 {n} {ani.bits(1e-3)}" + (f" {ani.bits(1e-4)}" if op == "j2d" else ""))
            cases.append(lines)
    res = streamlib.run_cases(ani, cases, pkg, procs=16, per_proc_min=1)
    n_ops = 0
    for case, impl, model, crash in res:
        chk.cov["evaluations"] += 1
        if crash is not None:
            chk.add_violation("crash", "C17:adapter-crash", "real code died in sweep", {"case": case[:5]})
            continue
        chk.cov["traces_validated_against_impl"] += 1
        n_ops += len(case)
        ob = [b for b in ani.oracle(case, impl) if not b[1].startswith("skip:")]
        k = streamlib.first_diff(ani, impl, model)
        if ob:
            idx, sig, msg = ob[0]
            chk.add_violation("oracle", sig, msg, {"case": case[max(0, idx - 2):idx + 1], "impl": impl[max(0, idx - 2):idx + 1], "op_index": idx})
        elif k is not None:
            chk.add_violation("correspondence", "C17:corr:sweep", f"model and implementation disagree in sweep at {case[k]}",
                              {"case": [case[k]], "impl": [impl[k]], "model": [model[k]]}, concrete=False)
    chk.cov["sweep"] = (f"b in 2..{bmax} for k in {{1,2,3,7,21,31,51,100,120}}, b in 2..200 for every k in 1..{kmax}; a in {{1, b//2, b-1}}; "
                        f"containment and jaccard: {n_ops} ops on implementation, model and oracle")


if __name__ == "__main__":
    try:
        rust_harness.build()
    except SystemExit:
        print("TOOL-FAILURE property=C17 rust harness does not build against the working tree")
        sys.exit(2)
    streamlib.run_property("C17", ani, ["closed", "res", "ci", "mh", "native", "sia", "cls", "closed", "res", "mh", "native", "jewin"], ani.oracle,
                           2400, 40000, TB, AS, RULE, nontrivial=ani.nontrivial, extra=extra)
