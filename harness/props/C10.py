#!/usr/bin/env python3
"""C10 - every collection format returns what was stored, with a truthful manifest."""
import os, sys
sys.path.insert(0, os.path.dirname(os.path.abspath(__file__)))
sys.path.insert(0, os.path.dirname(os.path.dirname(os.path.abspath(__file__))))
import streamlib
from streams import store

TB = [
    "Lean 4.33 kernel; axioms allowed: propext, Classical.choice, Quot.sound (checked by #print axioms on every theorem)",
    "signatures are abstract records; JSON / gzip / Python zipfile / sqlite3 / csv bytes are NOT modelled: a member's content is the list of records it decodes to, equal bytes <=> equal records (serialisation deterministic and injective: property C09), a CSV manifest reads back as the rows written",
    "member names are structured (<md5>, <md5>_n); the string rendering signatures/<md5>.sig.gz[_n] is assumed injective (32 hex digits)",
    "Python zipfile semantics used: writestr on a read-only ZipFile raises ValueError; a second writestr under an existing name is what read(name) returns afterwards; set(namelist()) has one entry per name (modelled as replace-or-append)",
    "translator (harness/translators/store.py, strict/fail closed): @add_loader priorities and _load_database shape, _save_classes + matches predicates, required_keys and the assignments of make_manifest_row, MAX_SQLITE_INT and the two's-complement shape of convert_hash_to/from, the shapes of _RwZipStorage._content_matches/_generate_filename/save/flush, whether SqliteIndex.insert records the seed, whether LCA_Database._signatures creates an entry for every idx (each of these three selects the model variant the driver runs; theorem source_has_the_repaired_variants pins the repaired ones)",
    "hand-written model (lean/SmVerif/Model/Storage.lean) tied to /repo by the `store` stream: real files written by SaveSignaturesToLocation / SBT.save / LCA_Database.save under .build/tmp and reloaded by load_file_as_index, load_file_as_signatures, a sig-collect style standalone manifest, a path list, the directory loader (differential testing)",
    "max_hash for a scaled value (LCA downsampling) is supplied by the harness with the formula tied in C03; md5 values are computed by the harness (hashlib) and checked against the implementation's on every `sig` op",
]
AS = [
    "SBT: only the leaves (signatures) are modelled, not the internal nodes (C13); which of two equal-md5 leaves gets the `_0` name depends on tree order and is canonicalised away",
    "LCA databases: identifiers are the signature names (unnamed signatures are not generated for LCA); lineages are not modelled (C18); only (name, md5, hashes) of what an LCA database returns is compared by the oracle",
    "a single JSON file is written in one session (a second session on the same path truncates it, by design)",
]
RULE = ("a set of 0..11 signatures (pools of 1-4 hash sets and 3-4 names, so equal md5 under different names and exact duplicates are frequent; "
        "empty sketches; hashes 0, 2^63-1, 2^63, 2^64-1, max_hash; flat / abundance / num / other scaled / other k / protein) saved to one format "
        "(zip and sqldb and directory in 1-3 create-then-append sessions; .sig/.sig.gz; SBT; LCA), then members, manifest, len and every way of "
        "reloading (generic, standalone manifest in CSV and in SQLite format, PARTIAL standalone manifests that split an md5 group, path list, directory), for zips also the manifest rebuilt from the members (sig manifest); the command line in-process (sourmash.__main__.main): sig cat (2-4 input collections of mixed kinds, -o to .sig/.sig.gz/.zip/dir/.sqldb, --unique, --from-file), sig split, sig collect (-F csv/sql, --abspath/--relpath/default, collections in nested directories, manifest loaded by absolute path from another working directory), sig manifest (rebuild / --no-rebuild-manifest, csv/sql), sig fileinfo --json-out; peripheral routes (signatures derived by downsample/flatten/rename through three spellings before saving, SaveSignaturesToLocation(None), `-` stdout + stdin loader, SBT on FSStorage (.sbt.json), LCA in SQLite format, manifest-less zip reading, nested directory trees with junk/--force, add() after close(), SqliteIndex.create(append).insert); every save/load goes through alternating equivalent spellings (context manager / open+close / add_many / LinearIndex.save / save_signatures_to_json; five generic loader entry points and the classes' own loaders), after every generic load the adapter asserts that all views agree (md5 of signature vs sketch, `in manifest`, signatures_with_location, locations exist, LazyLinearIndex, bool, row attributes of every returned signature, len vs rows, manifest algebra and CSV round trip, index unchanged by manifest.write_to_csv) and re-verifies every earlier index object and returned signature (VIEW:/HIST: observations); plus loader-choice probes on real files of 15 kinds and convert_hash round trips. "
        "non-trivial = >= 2 signatures defined and a reload that returned something (or >= 2 loader probes); distinct = distinct op lists")

FLAVOURS = ["zip", "zipappend", "sqldb", "dir", "sigfile", "sbt", "lca", "kind", "zip", "zipappend", "sqlseed", "sbt", "lca", "dir",
            "cli_cat", "cli_collect", "cli_misc", "partial", "cli_cat", "cli_collect", "periph", "periph", "periph"]

if __name__ == "__main__":
    n_quick = int(os.environ.get("VERIF_C10_N", "5000"))
    n_thorough = int(os.environ.get("VERIF_C10_N", "150000"))
    streamlib.run_property("C10", store, FLAVOURS, store.oracle, n_quick, n_thorough, TB, AS, RULE,
                           nontrivial=store.nontrivial, classify=store.classify)
