"""Shared runner for the properties decided over the `mh` stream (C01, C11)."""
import json
import os
import sys

sys.path.insert(0, os.path.dirname(os.path.dirname(os.path.abspath(__file__))))
import common  # noqa: E402
from streams import mh  # noqa: E402


def corpus_cases(prop_id):
    d = os.path.join(common.VERIF, "corpus", prop_id)
    out = []
    if os.path.isdir(d):
        for f in sorted(os.listdir(d)):
            if f.endswith(".ops"):
                out.append([l.rstrip("\n") for l in open(os.path.join(d, f)) if l.strip() and not l.startswith("#")])
    return out


def run(prop_id, flavours, oracle, n_quick, n_thorough, trusted_base, assumptions, rule):
    chk = common.Check(prop_id, trusted_base, assumptions)
    pkg = chk.build()
    chk.translate()
    chk.prove()
    if chk.replay:
        data = json.load(open(os.path.join(common.VERIF, chk.replay) if not os.path.isabs(chk.replay) else chk.replay))
        cases = [data["data"]["case"]] if "case" in data.get("data", {}) else []
    else:
        n = n_thorough if chk.tier == "thorough" else n_quick
        cases = corpus_cases(prop_id)
        for i in range(n):
            cases.append(mh.gen_case(chk.rng, flavours[i % len(flavours)]))
    try:
        results = mh.run_cases(cases, pkg, procs=16)
    except common.ToolFailure as e:
        chk.exit_tool(str(e))
    distinct = set()
    opcount = {}
    n_corr_bad = 0
    shrink_budget = 3
    for case, impl, model, crash in results:
        chk.cov["evaluations"] += 1
        for l in case:
            o = l.split()[0]
            opcount[o] = opcount.get(o, 0) + 1
        if crash is not None:
            chk.add_violation("crash", f"{prop_id}:adapter-crash", f"the real code died on a history (exit {crash[1]})",
                              {"case": case, "stderr": crash[2]})
            continue
        chk.cov["traces_validated_against_impl"] += 1
        # non-trivial: at least 3 ops changed the observed state of some sketch
        changes = 0
        last = {}
        for op, obs in zip(case, impl):
            w = op.split()
            if obs.startswith("ok num=") and last.get(w[1]) != obs:
                changes += 1
                last[w[1]] = obs
        if changes >= 3:
            distinct.add(hash(tuple(case)))
        k = mh.first_diff(impl, model)
        if k is not None:
            n_corr_bad += 1
            small = case
            if shrink_budget > 0:
                shrink_budget -= 1
                small = mh.shrink(case, pkg, lambda c, i, m, cr: cr is None and mh.first_diff(i, m) is not None)
                r = mh.run_cases([small], pkg, procs=1)[0]
                k2 = mh.first_diff(r[1], r[2])
                info = {"case": small, "impl": r[1], "model": r[2], "first_diff_at": k2, "original_case": case}
                opname = small[k2].split()[0] if k2 is not None and k2 < len(small) else "?"
            else:
                info = {"case": case, "impl": impl, "model": model, "first_diff_at": k}
                opname = case[k].split()[0] if k < len(case) else "?"
            # is the property itself violated on this input?  (failing-input search, step 1)
            ob = oracle(info["case"], info["impl"])
            ob = [b for b in ob if not b[1].startswith("skip:")]
            if ob:
                for idx, sig, msg in ob[:1]:
                    chk.add_violation("oracle", sig, msg, dict(info, op_index=idx))
            else:
                chk.add_violation("correspondence", f"{prop_id}:corr:{opname}",
                                  f"model and implementation disagree at op `{info['case'][info['first_diff_at']] if info['first_diff_at'] is not None and info['first_diff_at'] < len(info['case']) else '?'}`: "
                                  f"impl={info['impl'][info['first_diff_at']][:120] if info['first_diff_at'] is not None and info['first_diff_at'] < len(info['impl']) else '?'} "
                                  f"model={info['model'][info['first_diff_at']][:120] if info['first_diff_at'] is not None and info['first_diff_at'] < len(info['model']) else '?'}",
                                  info, concrete=False)
        # the property oracle runs on every history, agreement or not
        for idx, sig, msg in oracle(case, impl):
            if sig.startswith("skip:"):
                continue
            chk.add_violation("oracle", sig, msg, {"case": case[:idx + 1], "impl": impl[:idx + 1], "op_index": idx})
    chk.cov["distinct_nontrivial"] = len(distinct)
    chk.cov["rule"] = rule
    chk.cov["op_distribution"] = opcount
    chk.cov["correspondence_disagreements"] = n_corr_bad
    chk.cov["samples"] = [{"case": c, "impl": i[:len(c)]} for c, i, m, cr in results[-3:] if i is not None]
    # shrink concrete oracle violations that are not known (keep the replay small)
    chk.finish()
