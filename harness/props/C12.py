#!/usr/bin/env python3
"""C12 - selection and picklists keep exactly the signatures that satisfy them."""
import os, sys
sys.path.insert(0, os.path.dirname(os.path.abspath(__file__)))
sys.path.insert(0, os.path.dirname(os.path.dirname(os.path.abspath(__file__))))
import streamlib
from streams import select

TB = [
    "Lean 4.33 kernel; axioms allowed: propext, Classical.choice, Quot.sound (checked by #print axioms on every theorem)",
    "translator harness/translators/select.py (Python ast, strict): select_signature, CollectionManifest._select and "
    "SqliteCollectionManifest._make_select are re-extracted on every run as terms of a small statement/expression language and "
    "*interpreted* by the model; likewise picklist.preprocess, the coltype lists, the attribute/column chosen per coltype, "
    "whether _get_value_for_manifest_row still asserts, and the field sources of make_manifest_row",
    "hand-written model of the index classes (LinearIndex, LazyLinearIndex, MultiIndex, ZipFileLinearIndex with/without "
    "manifest, StandaloneManifestIndex over CSV and SQLite manifests, SBT with/without manifest, LCA_Database, SqliteIndex), "
    "tied to /repo by the select stream (differential testing)",
    "LCA_Database._signatures (cached_property) is modelled as an explicit cache filled by signatures()/find and left alone by select; "
    "LCA insert (the only invalidation) is outside the stream",
    "md5 is hashlib.md5 over str(ksize)+mins, applied by the harness and compared with the real md5sum() of every sketch; "
    "strings are latin-1 (one code point per character)",
    "not modelled: scores and thresholds of searches (C06); searches use a Jaccard query at threshold 0 over tiny hash values "
    "(no downsampling loss), so a match is 'shares a hash'; gather output is produced with queries made of private hashes only; "
    "storage (zip file naming, SQLite UNIQUE(internal_location, md5sum)) is C10's subject: same-md5 members are kept out of "
    "zip-without-manifest and of one file of a SQLite manifest",
    "command line (every tier): harness/adapters/select_cli.py calls sourmash.__main__.main(argv) in process for `sig extract` (every selector), "
    "`sig check` (missing-values CSV, matching manifest, one or two databases), `sig grep` (-v, -i, --silent, --count, --csv), `search --picklist`, "
    "`gather --picklist` over every container kind a path can load, and compares with the reference meaning of each selector; this pass is an "
    "oracle test (no Lean model of the argument parsing / command glue)",
    "adapter-level assertions (reported as ` !flag` suffixes, judged by the oracle, unknown to the model): every listing is read twice and "
    "through signatures_with_location(); len()/bool()/manifest rows against the listing; every collection listed earlier in the case is "
    "re-listed after later calls; CollectionManifest._select and the SQL of an in-memory SqliteCollectionManifest are compared row for "
    "signature with select_signature on every signature a select is applied to; picklist.filter() against `in`; searches are asked through "
    "two of search / search(do_containment) / prefetch / find and best_containment() must lie inside a non-empty result; picklists are built "
    "through four spellings (argument string with / without style, constructor + load, init + add); LinearIndex ksize/moltype selections "
    "alternate with the loader's native selector (DNA members only, see C09.1)",
    "python csv, zipfile, sqlite3, json",
]
AS = [
    "scaled and num are passed as ints (0 = not requested), as every caller in the code base does; None is exercised for ksize, moltype, abund",
    "SBT collections are homogeneous in ksize / molecule / num-or-scaled (what `sourmash index` enforces); LCA and SqliteIndex members are what `insert` accepts",
    "a refusal is a ValueError (Index.select docstring); any other exception class raised by select()/signatures() is reported",
    "source state: fixes b86e966 (no assert in the manifest-row path), b14179d (num compared by value), 73316d8 (abund in SQL / refused by "
    "SqliteIndex), cee6873 (SqliteIndex.find restricted to the selected ids), f20102b (SBT.select on an empty selection) are in /repo; the "
    "theorems are stated for that source, the old variants are regression examples; StandaloneManifestIndex reloading by (ident, md5[:8]) "
    "stays known finding C12.3",
]
RULE = ("cases = a pool of 4-10 sketches with mixed k / molecule / scaled / num / abundance, names with spaces, dots, repeated "
        "identifiers, empty names, same-content twins, md5-prefix collisions (cached pair search), 1-3 collections per case over all 13 "
        "container kinds, 0-3 picklists (every coltype x include/exclude; hand-written CSVs and CSVs written by the real manifest / "
        "search / prefetch / gather writers), chains of 1-3 select calls each followed by signatures() and half of the time a search; "
        "a `twins` flavour puts same-hash / different-name sketches into the containers that filter loaded signatures (LinearIndex, "
        "LazyLinearIndex, SBT, LCA) with name-type and tuple picklists separating them, include and exclude, each picklist object used by "
        "several selects on several collections; "
        "the oracle recomputes the expected subset from the documented meaning of each criterion and coltype; "
        "non-trivial = >= 2 listed selections of different sizes; distinct = distinct op lists")
FLAVOURS = ["mixed", "inplace", "sqlite", "picklists", "collide", "twins", "mixed", "picklists"]


def classify(case, impl, model, k):
    op = case[k].split()[0] if k < len(case) and case[k].split() else "?"
    return f"C12:corr:{op}"


def extra(chk, pkg):
    chk.cov["md5_prefix_collisions"] = [(p["a"]["md5"], p["b"]["md5"]) for p in select.collisions()][:3]
    chk.cov["containers"] = list(select.ALL_KINDS)
    cli_inprocess(chk, pkg, int(os.environ.get("VERIF_C12_CLI_QUICK", "26" if chk.tier == "quick" else "150")))
    if chk.tier == "thorough":
        cli_pass(chk, pkg, int(os.environ.get("VERIF_C12_CLI", "12")))


def cli_inprocess(chk, pkg, n):
    """every tier: `sig extract` / `sig check` / `sig grep` / `search --picklist` / `gather --picklist` run in process
    (sourmash.__main__.main(argv)) over every container kind a path can load; outcome against the reference meaning of
    each selector (harness/adapters/select_cli.py)"""
    import json, subprocess
    import common
    root = os.path.join(common.BUILD, "tmp", f"c12-cliq-{os.getpid()}")
    env = dict(os.environ, PYTHONPATH=pkg + os.pathsep + os.path.join(common.VERIF, "harness"), PYTHONHASHSEED="0")
    r = subprocess.run([common.PY, os.path.join(common.VERIF, "harness", "adapters", "select_cli.py"), str(chk.seed), str(n), root],
                       env=env, stdout=subprocess.PIPE, stderr=subprocess.PIPE, text=True, timeout=1500)
    if r.returncode != 0:
        chk.add_violation("crash", "C12:cli-inprocess-driver", "the in-process CLI pass died: " + r.stderr[-400:],
                          {"stderr": r.stderr[-3000:]}, concrete=False)
        return
    res = json.loads(r.stdout.strip().split("\n")[-1])
    okc = 0
    dist = {}
    for e in res:
        chk.cov["evaluations"] += 1
        dist[e["cmd"] + ":" + e["kind"]] = dist.get(e["cmd"] + ":" + e["kind"], 0) + 1
        if e["status"] == "ok":
            okc += 1
        else:
            chk.add_violation("oracle", e.get("signature", "C12:cli"),
                              f"`sourmash {' '.join(str(a) for a in e.get('argv', []))[:200]}` on a {e['kind']} collection: "
                              f"got {str(e.get('got'))[:220]}, the selectors mean {str(e.get('expect'))[:220]}. {e.get('detail', '')[:260]}", e)
    chk.cov["cli_inprocess_ok"] = okc
    chk.cov["cli_inprocess_cases"] = len(res)
    chk.cov["cli_inprocess_distribution"] = dist


CLI_DRIVER = r"""
import sys, os, csv, json, subprocess, random, shutil
import sourmash
from sourmash import MinHash, SourmashSignature
from sourmash.sourmash_args import SaveSignaturesToLocation
from sourmash.signature import save_signatures_to_json
seed, n, root = int(sys.argv[1]), int(sys.argv[2]), sys.argv[3]
rng = random.Random(seed)
NAMES = ["GCF_001.1 Escherichia coli", "GCF_001.2 E. coli K-12", "GCF_002.1 B. subtilis", "a b.c", "a.b c", "x.y.z w", "", "GCF_003"]
def run(*args):
    r = subprocess.run([sys.executable, "-m", "sourmash"] + list(args), stdout=subprocess.PIPE, stderr=subprocess.PIPE, text=True)
    return r.returncode, r.stderr[-400:]
def keys(path):
    return sorted((s.md5sum(), s.name) for s in sourmash.load_file_as_signatures(path))
out = []
for it in range(n):
    d = os.path.join(root, f"cli{it}")
    os.makedirs(d)
    sigs = []
    for i in range(rng.randint(3, 6)):
        mh = MinHash(0, 31, scaled=1000)
        mh.add_many([100 + i] + [h for h in range(1, 7) if rng.random() < 0.5])
        sigs.append(SourmashSignature(mh, name=rng.choice(NAMES)))
    q = MinHash(0, 31, scaled=1000)
    q.add_many([100 + i for i in range(len(sigs)) if rng.random() < 0.6] or [100])
    qs = SourmashSignature(q, name="query")
    db = os.path.join(d, "db.zip")
    with SaveSignaturesToLocation(db) as save:
        for s in sigs:
            save.add(s)
    qp = os.path.join(d, "q.sig")
    with open(qp, "w") as fp:
        save_signatures_to_json([qs], fp)
    expect_hits = sorted((s.md5sum(), s.name) for s in sigs if set(s.minhash.hashes) & set(q.hashes))
    for kind in ("manifest", "search", "prefetch", "gather"):
        csvp = os.path.join(d, kind + ".csv")
        if kind == "manifest":
            rc, err = run("sig", "manifest", db, "-o", csvp, "--no-rebuild-manifest")
            expect = sorted((s.md5sum(), s.name) for s in sigs)
        elif kind == "search":
            rc, err = run("search", qp, db, "-o", csvp, "--threshold", "0", "-n", "0")
            expect = expect_hits
        elif kind == "prefetch":
            rc, err = run("prefetch", qp, db, "-o", csvp, "--threshold-bp", "0")
            expect = expect_hits
        else:
            rc, err = run("gather", qp, db, "-o", csvp, "--threshold-bp", "0")
            expect = expect_hits
        if rc != 0 or not os.path.exists(csvp):
            out.append({"it": it, "kind": kind, "status": "cli-failed", "err": err, "expect": expect})
            continue
        for style in ("include", "exclude"):
            picked = os.path.join(d, f"{kind}-{style}.zip")
            rc, err = run("sig", "cat", db, "--picklist", f"{csvp}::{kind}:{style}", "-o", picked)
            if rc != 0:
                out.append({"it": it, "kind": kind, "style": style, "status": "cat-failed", "err": err})
                continue
            got = keys(picked) if os.path.exists(picked) else []
            allk = sorted((s.md5sum(), s.name) for s in sigs)
            exp = expect if style == "include" else [k for k in allk if k not in expect]
            out.append({"it": it, "kind": kind, "style": style, "status": "ok" if got == exp else "mismatch",
                        "got": got, "expect": exp})
    shutil.rmtree(d, ignore_errors=True)
print(json.dumps(out))
"""


def cli_pass(chk, pkg, n):
    """thorough tier: picklists taken from the CSV files the *command line* writes (sig manifest / search / prefetch /
    gather -o), fed back through `sig cat --picklist file::coltype[:exclude]`; every sketch of the database has its own
    private hash and the query is made of private hashes, so the expected rows are known"""
    import json, shutil, subprocess, tempfile
    import common
    root = os.path.join(common.BUILD, "tmp", f"c12-cli-{os.getpid()}")
    os.makedirs(root, exist_ok=True)
    procs = 12
    per = max(1, (n + procs - 1) // procs)
    res = []
    try:
        env = dict(os.environ, PYTHONPATH=pkg)
        running = []
        for j in range(procs):
            sub = os.path.join(root, f"p{j}")
            os.makedirs(sub, exist_ok=True)
            running.append(subprocess.Popen([common.PY, "-c", CLI_DRIVER, str(chk.seed * 1000 + j), str(per), sub], env=env,
                                            stdout=subprocess.PIPE, stderr=subprocess.PIPE, text=True))
        for pr in running:
            out, err = pr.communicate(timeout=3000)
            if pr.returncode != 0:
                chk.add_violation("crash", "C12:cli-driver", "the CLI pass died: " + err[-400:], {"stderr": err[-3000:]},
                                  concrete=False)
                continue
            res += json.loads(out.strip().split("\n")[-1])
    finally:
        shutil.rmtree(root, ignore_errors=True)
    okc = 0
    for e in res:
        chk.cov["evaluations"] += 1
        if e["status"] == "ok":
            okc += 1
        else:
            chk.add_violation("oracle", f"C12:cli-picklist-from-{e['kind']}-output",
                              f"`sig cat --picklist {e['kind']}.csv::{e['kind']}:{e.get('style')}` after the CLI wrote the CSV: "
                              f"{e['status']} got={str(e.get('got'))[:200]} expect={str(e.get('expect'))[:200]} {e.get('err', '')[:200]}", e)
    chk.cov["cli_picklist_roundtrips_ok"] = okc
    chk.cov["cli_picklist_roundtrips"] = len(res)


if __name__ == "__main__":
    streamlib.run_property("C12", select, FLAVOURS, select.oracle, 1500, 40000, TB, AS, RULE,
                           nontrivial=select.nontrivial, extra=extra, classify=classify)
