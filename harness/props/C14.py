#!/usr/bin/env python3
"""C14 - the sketch command builds exactly the sketches its parameters describe; the tree-backed
builder used while sketching and the array-backed sketch used everywhere else agree on every input."""
import os, sys, shutil, subprocess, tempfile, json
sys.path.insert(0, os.path.dirname(os.path.abspath(__file__)))
sys.path.insert(0, os.path.dirname(os.path.dirname(os.path.abspath(__file__))))
import common
import streamlib
import rust_harness
from streams import twin, sketch

TB = [
    "Lean 4.33 kernel; axioms allowed: propext, Classical.choice, Quot.sound (checked by #print axioms on every theorem)",
    "hand-written model lean/SmVerif/Model/MinHashBTree.lean of KmerMinHashBTree (BTreeSet/BTreeMap as ascending lists, current_max, md5 cache, From conversions, serde) tied to /repo by the twin stream: the same histories through the Lean twin and through rust-harness (real KmerMinHash + KmerMinHashBTree), differential testing, not proof",
    "hand-written model lean/SmVerif/Model/SketchParams.lean of _parse_params_str / _signatures_for_sketch_factory / ComputeParameters / build_template / signature_first_mh tied to /repo by the sketch stream (in-process Python API)",
    "translator harness/translators/sketch.py: DEFAULTS, DEFAULT_MMHASH_SEED, the x3 multiplier, the order of the item tests of _parse_params_str, the molecule order and builder calls of build_template, ComputeParameters defaults (Rust and Python), and which of the two known shapes (repaired by 779da1d / as first found) the four D14 sites of KmerMinHashBTree have; theorem source_has_repair fails to build if they are not in the repaired shape",
    "Rust std BTreeSet/BTreeMap (insert/remove/entry/union/iteration order), serde_json, cffi marshalling; Python int()/float() on ASCII strings (non-ASCII parameter strings are outside the model)",
    "md5 is not modelled (pre-image compared; the harness applies hashlib.md5); the sequence -> hashes path is C02's model (Model/SeqToHashes.lean, hash function a parameter in the theorems, Model/Murmur3.lean in the driver): sketch_eq_direct_sequences composes it with the two sketch models, and the sketch stream's feed/names ops have the Lean driver compute every hash of every generated record itself and compare hashes, abundances and md5 with the real factory-built and directly-created sketches",
    "hand-written decision model lean/SmVerif/Model/SketchFromfile.lean of `sketch fromfile` (requested / already done / missing / built, grouping, exits) tied to /repo by fromfile ops that run the real command in-process (CSV, FASTA files and an --already-done zip in a temp dir); the Rust path ComputeParameters -> Signature::from_params -> add_sequence/add_protein tied by rust-harness module `sketch` (native ops)",
    "hand-written decision model lean/SmVerif/Model/SketchNames.lean of _compute_individual / _compute_merged / set_sig_name (grouping of records into signatures, names, recorded file name), tied to /repo by `names` ops that run the real _execute_sketch in-process on temp FASTA files under .build/tmp",
    "hand-written model lean/SmVerif/Model/SketchCompute.lean of `sourmash compute`'s option -> ComputeParameters mapping and its exits, tied to /repo by `cmp` ops; `sk` / `cmp` / `fromfilecli` ops go through sourmash.__main__.main(argv) in the adapter process (argparse, sourmash.cli.sketch.*, command_sketch.dna/protein/translate/fromfile/_compute_sigs/_add_from_file_to_filenames, command_compute.compute) on temp files and read the written signatures back; the translator refuses to run when any definition shared by command_sketch.py and command_compute.py differs between the two files, and reads off whether --output-dir is created (sketchCreatesOutdir)",
    "periphery (adapter-side, the model does not see it): ROUTES - the adapter alternates, as a function of the op text, among the spellings that end in one helper / native call (ComputeParameters: constructor keywords / defaults + every property setter in rotated order / overwrite of an object built with other values / from_args, of the command_sketch and the command_compute copy; add_sequence / add_protein vs add_seq of either module; set_sig_name of either module, positional vs keyword; _execute_sketch vs command_sketch.dna vs main(); long and short option names, --merge/--name, --output-dir/--outdir, --dna/--rna/--nucleotide; input container FASTA / wrapped FASTA / FASTQ / gzip; `-` = standard input through a child interpreter); VIEWS - after every op the adapter asserts that the routes to one fact agree (md5sum FIELD written by the command = md5sum() of the loaded signature = md5 of its sketch; mins / len / hashes / abundances; name / filename / license fields vs attributes; signatures_save_buffer plain vs gzip vs signature_save_json; sig.minhash vs the first written sketch; `-o` .sig vs .sig.gz / .zip (+ manifest rows) / directory / .sqldb of the same command; ComputeParameters fields read back, ==, repr, to_param_str and manifest-row round trips; --output-csv-info rows vs the signatures built) and reports a disagreement as `view-mismatch` (oracle signature C14:sketch:views-disagree); HISTORIES - every object a call returned is kept until the end of the case with what was observed then, and observed again after every later op",
    "Stable (max_hash_for_scaled . scaled_for_max_hash = id on the threshold) is a hypothesis of the conversion theorems; proved here by kernel evaluation for 13 common scaled values, in general it is C03's theorem for scaled <= 2^31",
]
AS = ["sketches are num or scaled, not both (Excl): proved for everything the factory builds (factory_builds_excl); the Rust constructors also accept both, where KmerMinHash overgrows (C01 finding) and the two types disagree",
      "u64 abundance sums assumed not to wrap",
      "the first divergence of a twin history is the one reported (afterwards the twins are different objects)"]
RULE = ("twin stream: histories of 1..50 ops (add, add_hash_with_abundance incl. 0, add_many, add_many_with_abund, remove_many, clear, merge, "
        "add_from, downsample_scaled, From conversions in both directions, serde round trip, md5, count_common, intersection_size) over "
        "(plus enable/disable_abundance, set_hash_function, downsample_max_hash) over 2-4 handles each holding a KmerMinHash and a KmerMinHashBTree, hash pool biased to 0, 1, max_hash-1/max_hash/max_hash+1, 2^63, "
        "2^64-1; num in {1,2,3,5,20} or scaled from a boundary pool; flavour 'excl' (3/4 of the cases) runs every operation in every order "
        "on sketches that are num or scaled (the former D14 classes included), 'any' also creates sketches that are both (D14e); "
        "non-trivial = >= 3 ops changed an observed state; sketch stream: parameter strings from a grammar (1-3 -p groups, repeated k, "
        "every moltype, scaled incl. 1/93/99/186, num, abund/noabund, seeds up to 2^64-1, Python int() spellings, ~60 malformed strings) "
        "through parse / factory / sig.minhash / JSON exits, and feed ops adding generated DNA (invalid characters, short records, lower "
        "case) or protein records to factory-built and directly-created sketches (the model computes the same hashes with its own "
        "Murmur3), and names ops: 1-3 FASTA files (some empty) through the real _execute_sketch in default / --name-from-first / "
        "--singleton / --merge mode, with -o / --output-dir (existing or not) / current directory, --randomize, --check-sequence, inputs in "
        "sub-directories; fromfile ops: 1-3 -p groups, a CSV of 1-4 rows with blank cells / duplicate or blank names, genome and protein "
        "FASTA files, an --already-done zip holding matches, near misses and strangers, through the real command_sketch.fromfile; native "
        "ops: ComputeParameters / Signature::from_params / add_sequence / add_protein through the Rust harness (any flag combination, num "
        "and/or scaled); cli ops (1 case in 9): `sourmash sketch dna|protein|translate` with -p strings, `sourmash compute` with -k lists, "
        "--dna/--protein/--dayhoff/--hp/--input-is-protein, --num-hashes, --scaled (0, < 1, fractional, integer), --track-abundance, "
        "--seed, and `sourmash sketch fromfile`, each with the layout options above and --from-file, in-process through "
        "sourmash.__main__.main; the independent oracle expects one sketch per requested (k, moltype) for every unit the documentation "
        "names; also: subcommand aliases as typed (rna / nucleotide / nt, aa / prot), --license other than CC0 (8 spellings), -f/--force "
        "and an output file that exists before the run (+pre), record names that are empty / repeated / 300-3000 characters long, the "
        "same record twice, an input on standard input; sigeq ops (implementation only, the model answers skip): == / != between factory-built "
        "(tree-backed) signatures, a signature around a directly created sketch fed the same records, and unfed ones; every refusal is compared with its reason code (one per raise site); non-trivial = a fed sketch holds >= 2 hashes; "
        "distinct = distinct op lists")


def classify(case, impl, model, k):
    op = case[k].split()[0] if k < len(case) and case[k].split() else "?"
    return f"C14:corr:twin:{op}"


def run_sketch_stream(chk, pkg, n):
    cases = streamlib.corpus_cases("C14-sketch")
    for i in range(n):
        cases.append(sketch.gen_case(chk.rng, ["grammar", "feed", "feed", "names", "grammar", "feed", "names", "feed", "cli"][i % 9]))
    res = streamlib.run_cases(sketch, cases, pkg, procs=16, per_proc_min=10)
    distinct = set()
    opcount = {}
    bad_corr = 0
    for case, impl, model, crash in res:
        chk.cov["evaluations"] += 1
        for l in case:
            o = "sketch:" + l.split()[0]
            opcount[o] = opcount.get(o, 0) + 1
        if crash is not None:
            chk.add_violation("crash", "C14:sketch:adapter-crash", f"the real code died (exit {crash[1]}): {crash[2][-300:]}",
                              {"case": case, "stderr": crash[2]})
            continue
        chk.cov["traces_validated_against_impl"] += 1
        if sketch.nontrivial(case, impl):
            distinct.add(hash(tuple(case)))
        k = streamlib.first_diff(sketch, impl, model)
        if k is not None and any(o[0] == k for o in sketch.oracle(case, impl)):
            k = None          # the independent oracle condemns this very op (reported below): no shrinking / re-running
        if k is not None:
            bad_corr += 1
            small = case
            if bad_corr <= 2:
                small = streamlib.shrink(sketch, case, pkg,
                                         lambda c, i, m, cr: cr is None and streamlib.first_diff(sketch, i, m) is not None)
            r = streamlib.run_cases(sketch, [small], pkg, procs=1)[0]
            k2 = streamlib.first_diff(sketch, r[1], r[2])
            info = {"case": small, "impl": r[1], "model": r[2], "first_diff_at": k2, "original_case": case}
            if k2 is None:
                info = {"case": case, "impl": impl, "model": model, "first_diff_at": k}
                k2 = k
            opl = info["case"][k2]
            decoded = []
            for t in opl.split()[3:9]:
                try:
                    decoded.append(sketch.unhx(t))
                except ValueError:
                    pass
            ob = sketch.oracle(info["case"], info["impl"])
            if ob:
                idx, sig, msg = ob[0]
                chk.add_violation("oracle", sig, msg, dict(info, op_index=idx))
            else:
                chk.add_violation("correspondence", "C14:corr:sketch:" + opl.split()[0],
                                  f"model and implementation disagree at `{opl[:80]}` {decoded}: impl={info['impl'][k2][:160]} "
                                  f"model={info['model'][k2][:160]}", info, concrete=False)
        for idx, sig, msg in sketch.oracle(case, impl):
            chk.add_violation("oracle", sig, msg, {"case": case[:idx + 1], "impl": impl[:idx + 1], "op_index": idx})
    chk.cov["sketch_stream"] = {"cases": len(res), "distinct_nontrivial": len(distinct), "op_distribution": opcount,
                                "correspondence_disagreements": bad_corr}
    chk.cov["samples"] = [{"case": c[:6], "impl": [x[:300] for x in i[:6]]} for c, i, m, cr in res[-2:] if i is not None] + \
        chk.cov.get("samples", [])
    return len(distinct)


# --------------------------------------------------------------------------
# thorough tier: the command line

def fasta(records, prefix):
    return "".join(f">{prefix}{i} rec\n{s}\n" for i, s in enumerate(records))


def run_cli(chk, pkg, n):
    """`sourmash sketch dna|protein|translate` on temp FASTA files vs MinHash(...) created directly"""
    tmp = tempfile.mkdtemp(prefix="c14cli", dir=os.path.join(common.BUILD, "tmp"))
    env = dict(os.environ, PYTHONPATH=pkg + os.pathsep + os.path.join(common.VERIF, "harness"), PYTHONHASHSEED="0")
    jobs = []
    rng = chk.rng
    for j in range(n):
        sub = rng.choice(["dna", "dna", "protein", "translate"])
        if sub == "dna":
            cmd_mol, kind = "dna", "dna"
        else:
            cmd_mol = rng.choice(["protein", "dayhoff", "hp"])
            kind = "protein" if sub == "protein" else "dna"
        groups, strs = [], []
        for _ in range(rng.choice([1, 1, 2, 3])):
            g, s = sketch.gen_group(rng, cmd_mol, fancy=False, zero_ok=False)
            if not s:
                s = "k=5"
                g["ks"] = [5]
            groups.append(g)
            strs.append(s)
        nrec = rng.choice([1, 2, 5])
        recs = [sketch.prot_record(rng) if kind == "protein" else sketch.dna_record(rng) for _ in range(nrec)]
        nfiles = rng.choice([1, 1, 2])
        files = []
        for f in range(nfiles):
            p = os.path.join(tmp, f"in{j}_{f}.fa")
            with open(p, "w") as fh:
                fh.write(fasta(recs if f == 0 else recs[::-1], f"s{j}_{f}_"))
            files.append(p)
        mode = rng.choice(["file", "file", "merge", "singleton", "name-from-first"])
        jobs.append({"j": j, "sub": sub, "mol": cmd_mol, "kind": kind, "strs": strs, "mode": mode, "files": files,
                     "records": recs, "D": sketch.direct_specs(groups, cmd_mol, 0), "out": os.path.join(tmp, f"out{j}.sig")})
    spec = os.path.join(tmp, "jobs.json")
    json.dump(jobs, open(spec, "w"))
    r = subprocess.run([common.PY, os.path.join(common.VERIF, "harness", "adapters", "sketch_cli.py"), spec],
                       env=env, stdout=subprocess.PIPE, stderr=subprocess.PIPE, text=True, timeout=3000)
    nbad = 0
    if r.returncode != 0:
        chk.add_violation("crash", "C14:cli:driver-failed", r.stderr[-600:], {"stderr": r.stderr[-3000:]}, concrete=False)
    else:
        for line in r.stdout.split("\n"):
            if not line.strip():
                continue
            rec = json.loads(line)
            chk.cov["evaluations"] += 1
            chk.cov["traces_validated_against_impl"] += 1
            if rec["problems"]:
                nbad += 1
                chk.add_violation("oracle", "C14:cli:" + rec["problems"][0][0], rec["problems"][0][1],
                                  {"job": jobs[rec["j"]], "problems": rec["problems"]})
    chk.cov["cli"] = {"jobs": len(jobs), "with_problems": nbad}
    shutil.rmtree(tmp, ignore_errors=True)


def replay_sketch(data):
    """--replay of a violation found by the sketch stream: the stored case through adapter, model and oracle"""
    chk = common.Check("C14", TB, AS)
    pkg = chk.build()
    chk.translate()
    chk.prove()
    case = data["data"].get("case")
    if not case:
        chk.exit_tool("replay file carries no sketch-stream case")
    c, impl, model, crash = streamlib.run_cases(sketch, [case], pkg, procs=1)[0]
    chk.cov["evaluations"] = 1
    if crash is not None:
        chk.add_violation("crash", "C14:sketch:adapter-crash", crash[2][-300:], {"case": case})
    else:
        chk.cov["traces_validated_against_impl"] = 1
        for l, a, b in zip(case, impl, model):
            common.log("op   ", l[:160]); common.log(" impl", a[:300]); common.log(" model", b[:300])
        k = streamlib.first_diff(sketch, impl, model)
        ob = sketch.oracle(case, impl)
        for idx, sig, msg in ob:
            chk.add_violation("oracle", sig, msg, {"case": case, "impl": impl, "op_index": idx})
        if k is not None and not ob:
            chk.add_violation("correspondence", "C14:corr:sketch:" + case[k].split()[0],
                              f"model and implementation disagree at `{case[k][:80]}`: impl={impl[k][:160]} model={model[k][:160]}",
                              {"case": case, "impl": impl, "model": model, "first_diff_at": k}, concrete=False)
    chk.cov["rule"] = RULE
    chk.finish()


def extra(chk, pkg):
    os.makedirs(os.path.join(common.BUILD, "tmp"), exist_ok=True)
    if chk.replay:
        return
    thorough = chk.tier == "thorough"
    d = run_sketch_stream(chk, pkg, 5000 if thorough else 600)
    chk.cov["distinct_nontrivial_sketch_stream"] = d
    if thorough:
        run_cli(chk, pkg, 150)
    chk.cov["btree_d14_repaired_in_source"] = (chk.translator or {}).get("outputs", {}).get("btree_d14")


if __name__ == "__main__":
    try:
        rust_harness.build()
    except SystemExit:
        print("TOOL-FAILURE property=C14 rust harness does not build against the working tree")
        sys.exit(2)
    if "--replay" in sys.argv:
        rp = sys.argv[sys.argv.index("--replay") + 1]
        rp = rp if os.path.isabs(rp) else os.path.join(common.VERIF, rp)
        data = json.load(open(rp))
        if data.get("signature", "").startswith(("C14:sketch", "C14:corr:sketch")):
            replay_sketch(data)
    streamlib.run_property("C14", twin, ["excl", "excl", "excl", "any"], twin.oracle, 2500, 80000, TB, AS, RULE,
                           nontrivial=twin.nontrivial, extra=extra, classify=classify)
