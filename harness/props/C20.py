#!/usr/bin/env python3
"""C20 - malformed or hostile files produce an error, never a crash or a hang.  PARTIAL by nature.

(1) Lean: decision + resource models of the hand-written readers
      Nodegraph::from_reader                         (Model/NgReader.lean)
      CollectionManifest.load_from_csv               (Model/CsvReaders.lean)
      SignaturePicklist.from_picklist_args / .load   (Model/CsvReaders.lean)
      LCA_Database.load, SBT.load/_load_v1.._v6      (Model/JsonReaders.lean)
      _load_database (the loader chain)              (Model/LoaderChain.lean)
    over what the trusted decoders (UTF-8, csv, json, file system) report; theorems in Props/C20.lean
    (escaping exception classes, accepted => structure, work <= c*|input| or the counterexample).
    Every mutated file of a modelled kind is run through the model (driver c20r) and compared with
    what the real reader did when called directly in the worker: outcome class, the facts it
    extracted, and (second tie) the number of source lines the reader executed against the model's
    work count.
(2) Crash-isolated differential run (testing, labelled so): mutated versions of every file kind are
    loaded by worker processes under an address-space limit and a per-file time limit; any signal,
    timeout or damaged process state is a violation with the bytes as replay."""
import base64
import gzip
import io
import json
import os
import select
import shutil
import struct
import subprocess
import sys
import time
import zipfile
import re
from zlib import error as zlib_error

sys.path.insert(0, os.path.dirname(os.path.abspath(__file__)))
sys.path.insert(0, os.path.dirname(os.path.dirname(os.path.abspath(__file__))))
import common  # noqa: E402

TB = [
    "Lean 4.33 kernel; axioms allowed: propext, Classical.choice, Quot.sound",
    "translator: allocation discipline of Nodegraph::from_reader (pre-allocation from the size field vs bounded read) re-read from the source each run",
    "hand-written model of the nodegraph byte reader, compared with the real reader on every mutated nodegraph file (outcome class and table sizes)",
    "translator c20readers: 59 source definitions pinned to the text the reader models were written against (harness/translators/c20_pins.json) + literal slots (header prefix, required keys, coltype tables, versions, storage back ends, loader table, swallowed classes)",
    "hand-written models of the manifest / picklist / LCA / SBT readers and of the loader chain over the answers of trusted decoders (UTF-8 text layer, csv module, json module, os.path / file system, ast.literal_eval as an oracle with a stated exception range); compared with the real readers on every mutated file of those kinds",
    "sys.settrace line counts inside the readers' own frames as the measured counterpart of the models' work count",
    "referential damages: the oracle 'an intact index never silently loses a listed signature' is testing over 8 fixed signatures x 7 formats x all single-file damages; the theorem part is the lazy node loader (Model/SbtNodes.lean: a storage failure is re-raised, an empty substitute filter prunes) with the swallowed classes re-read by the translator",
    "NOT modelled, only observed by crash-isolated workers: memory safety of native code, serde_json / zip / gzip / sqlite / csv decoders, the allocator, CPython",
]
AS = ["PARTIAL by nature: the hand-written readers' decisions are inside theorems (over decoded input); memory safety, the decoders and everything native is differential testing in isolated workers",
      "worker limits: RLIMIT_AS 6 GB, 30 s per file"]
RULE = ("for each of 13 file kinds (sig JSON, sig.gz, zip with and without manifest, sqldb, manifest CSV, picklist CSV, SBT zip, SBT json, LCA json, nodegraph, HyperLogLog, taxonomy CSV) "
        "a valid seed file is produced with the current code and mutated: bit flips, truncation, insertion, 8-byte size-field inflation at every offset "
        "(binary kinds), JSON tree edits (field deletion/duplication/type change/deep nesting/huge integers), CSV column edits, member edits inside zip and "
        "gzip containers; for the four kinds with a reader model (manifest, picklist, SBT json, LCA json) also targeted damages aimed at single decisions "
        "(version strings around the float comparison, every required key deleted / retyped, per-cell conversions incl. int()/literal_eval edge cases, "
        "short/long/blank rows, duplicated header columns, picklist argument strings x coltypes, index versions 1-6 and documents shaped for them, "
        "storage back ends, factory args, position keys in every int() spelling and as size fields, d, manifest pointers, undecodable bytes before and after "
        "the decoder's first chunk; gzip streams whole / cut / corrupted / with trailing bytes under *.gz and plain names; zip-stored SBTs with zero, one, two "
        "description members and damaged descriptions) and two list-of-paths files that name themselves / each other; each file is loaded through the loader a user reaches "
        "(generic loader + iteration + a search, manifest, picklist, taxonomy loaders) in a worker; after a failed load a sentinel sketch must still have "
        "the right md5; for modelled kinds the real reader is also called directly (facts + executed-line count) and the Lean model is run on the decoders' "
        "answers for the same file; every load_file_as_index call is recorded loader by loader and replayed through the chain model; "
        "periphery: besides the primary loader every file goes through one alternate route of its kind, chosen by a counter inside the worker "
        "(load_signatures_from_json on path / bytes / text / file handle / with filters, load_one_signature*, LinearIndex / MultiIndex / "
        "ZipFileLinearIndex(+no manifest) / SqliteIndex / load_sqlite_index / load_sbt_index / SBT.load(cache_size=1) / leaves() / load_single_database / "
        "load_databases / StandaloneManifestIndex / get_manifest(rebuild) / sourmash_args.load_query_signature / load_many_signatures / load_picklist / "
        "stdin / Nodegraph.from_buffer / extract_nodegraph_info / HLL.from_buffer / LineageDB.load / lca load_taxonomy_assignments / the command line "
        "in-process: sig describe, cat, fileinfo, manifest, check, lca summarize); two routes that both succeed must have read the same signatures; after a "
        "successful load the views must agree (len, signatures(), manifest rows, signatures_with_location, md5 of signature vs sketch) and the loaded "
        "index is used (select variants, leaves, lineage lookups, downsample); every loaded object is kept and re-read after later jobs; each file is "
        "loaded twice; "
        "damage class 'declared sizes': data correct, a length / count field inflated or zeroed — zip member uncompressed / compressed size (32-bit field and "
        "zip64 extra 2^33..2^62, identically in local header and central directory, and one-sided; stored and deflated; manifest, signature / leaf, SBT "
        "node and description members; end-of-directory counts), gzip ISIZE trailer and FEXTRA length (standalone and inside a zip member), SQLite page "
        "size / page count / freelist count; honest re-writes with true sizes must load; "
        "damage class 'referential': seven multi-file collections of 8 signatures with pairwise disjoint hashes (SBT json+directory, SBT zip, zip "
        "collection with manifest, directory of .sig files, standalone manifest CSV and SQLite manifest pointing at files, list of paths) whose index / "
        "manifest stays intact while every referenced file or zip member in turn is deleted, renamed, truncated to 0 bytes, swapped with another, or has "
        "one byte of its name flipped in the zip central directory / local header; after a successful load a fixed battery runs (len, signatures(), and "
        "for each listed signature a search, a gather step, a prefetch, on a shared and on a fresh index) and no answer may silently omit a signature the "
        "index / manifest lists: either an ordinary exception or the signature; "
        "non-trivial = the file differs from the seed and the loader got past opening it (outcome recorded); distinct = distinct mutated byte strings")

PER_FILE_TIMEOUT = 30


# ---------------------------------------------------------------------------------- mutators

def flip(b, rng, n=1):
    b = bytearray(b)
    for _ in range(n):
        if b:
            i = rng.randrange(len(b))
            b[i] ^= 1 << rng.randrange(8)
    return bytes(b)


def truncate(b, rng):
    return b[:rng.randrange(len(b) + 1)] if b else b


def insert(b, rng):
    i = rng.randrange(len(b) + 1)
    return b[:i] + bytes(rng.randrange(256) for _ in range(rng.randint(1, 16))) + b[i:]


def inflate_at(b, off, val):
    b = bytearray(b)
    b[off:off + 8] = struct.pack("<Q", val)[:max(0, min(8, len(b) - off))]
    return bytes(b)


def json_mutations(text, rng, n):
    out = []
    try:
        doc = json.loads(text)
    except ValueError:
        return out
    paths = []

    def walk(x, path):
        paths.append(path)
        if isinstance(x, dict):
            for k in x:
                walk(x[k], path + [k])
        elif isinstance(x, list):
            for i, v in enumerate(x[:6]):
                walk(v, path + [i])
    walk(doc, [])

    def get(d, path):
        for p in path:
            d = d[p]
        return d

    for _ in range(n):
        d = json.loads(text)
        path = rng.choice([p for p in paths if p])
        parent = get(d, path[:-1])
        key = path[-1]
        kind = rng.choice(["delete", "null", "string", "number", "huge", "negative", "list", "dict", "nest", "dup", "float", "bool", "emptystr",
                           "emptylist", "shortlist", "longlist"])
        try:
            if kind == "delete":
                del parent[key]
            elif kind == "null":
                parent[key] = None
            elif kind == "string":
                parent[key] = "x" * rng.choice([0, 1, 100])
            elif kind == "number":
                parent[key] = rng.choice([0, 1, -1, 2 ** 31, 2 ** 32, 2 ** 63, 2 ** 64 - 1])
            elif kind == "huge":
                parent[key] = 2 ** rng.choice([64, 65, 100, 200])
            elif kind == "negative":
                parent[key] = -rng.choice([1, 2 ** 40, 2 ** 64])
            elif kind == "list":
                parent[key] = [parent[key]] * rng.choice([0, 1, 3])
            elif kind == "dict":
                parent[key] = {"a": parent[key]}
            elif kind == "nest":
                x = parent[key]
                for _ in range(rng.choice([10, 200, 3000])):
                    x = [x]
                parent[key] = x
            elif kind == "dup" and isinstance(parent, list):
                parent.append(parent[key])
            elif kind == "emptylist" and isinstance(parent[key], list):
                parent[key] = []
            elif kind == "shortlist" and isinstance(parent[key], list):
                parent[key] = parent[key][:len(parent[key]) // 2]
            elif kind == "longlist" and isinstance(parent[key], list):
                parent[key] = parent[key] + parent[key][:3]
            elif kind == "float":
                parent[key] = rng.choice([0.5, 1e308, -1e-320, 3.0])
            elif kind == "bool":
                parent[key] = rng.choice([True, False])
            elif kind == "emptystr":
                parent[key] = ""
            try:
                out.append(json.dumps(d).encode())
            except (RecursionError, ValueError):
                pass
        except (KeyError, IndexError, TypeError):
            pass
    # every list-valued field: emptied / halved / extended (length invariants between parallel arrays)
    for path in paths:
        if not path:
            continue
        try:
            if isinstance(get(doc, path), list) and get(doc, path) and not isinstance(get(doc, path)[0], (dict, list)):
                for how in ("empty", "half", "extend"):
                    d = json.loads(text)
                    parent = get(d, path[:-1])
                    v = parent[path[-1]]
                    parent[path[-1]] = [] if how == "empty" else (v[:len(v) // 2] if how == "half" else v + v[:3])
                    out.append(json.dumps(d).encode())
        except (KeyError, IndexError, TypeError):
            pass
    # nesting bomb and junk
    out.append(b"[" * 100000)
    out.append(b"{\"a\":" * 50000)
    out.append(text.encode()[:len(text) // 2] + b"\x00\xff" + text.encode()[len(text) // 2:])
    return out


def csv_mutations(b, rng, n):
    lines = b.decode("utf-8", "replace").split("\n")
    out = [b"", b"\n", b",,,\n", b"\xff\xfe\x00garbage", lines[0].encode() + b"\n"]
    for _ in range(n):
        ls = list(lines)
        k = rng.choice(["dropcol", "addcol", "dropheader", "dupheader", "quote", "longfield", "shuffle", "comment", "nul"])
        try:
            i = rng.randrange(len(ls))
            cells = ls[i].split(",")
            if k == "dropcol" and cells:
                cells.pop(rng.randrange(len(cells)))
                ls[i] = ",".join(cells)
            elif k == "addcol":
                cells.insert(rng.randrange(len(cells) + 1), "zz")
                ls[i] = ",".join(cells)
            elif k == "dropheader":
                ls = ls[1:]
            elif k == "dupheader":
                ls = [ls[0]] + ls
            elif k == "quote":
                ls[i] = ls[i] + '"'
            elif k == "longfield":
                ls[i] = ls[i] + "," + "A" * 200000
            elif k == "shuffle":
                rng.shuffle(ls)
            elif k == "comment":
                ls[0] = "# SOURMASH-MANIFEST-VERSION: 99.0"
            elif k == "nul":
                ls[i] = ls[i][:len(ls[i]) // 2] + "\x00" + ls[i][len(ls[i]) // 2:]
            out.append("\n".join(ls).encode())
        except (IndexError, ValueError):
            pass
    return out


def rezip(seed, rng, member_mutator):
    out = []
    try:
        zf = zipfile.ZipFile(io.BytesIO(seed))
        names = zf.namelist()
        for _ in range(6):
            victim = rng.choice(names)
            buf = io.BytesIO()
            with zipfile.ZipFile(buf, "w") as zo:
                for n in names:
                    data = zf.read(n)
                    if n == victim:
                        k = rng.random()
                        if k < 0.15:
                            continue            # member deleted
                        data = member_mutator(n, data)
                    zo.writestr(n, data)
                    if n == victim and rng.random() < 0.15:
                        import warnings
                        with warnings.catch_warnings():
                            warnings.simplefilter("ignore")
                            zo.writestr(n, data)   # member duplicated
            out.append(buf.getvalue())
    except (zipfile.BadZipFile, KeyError):
        pass
    return out


def mutations(kind, seed, rng, n):
    res = []
    for _ in range(n):
        r = rng.random()
        if r < 0.4:
            res.append(flip(seed, rng, rng.choice([1, 1, 2, 8])))
        elif r < 0.7:
            res.append(truncate(seed, rng))
        else:
            res.append(insert(seed, rng))
    if kind in ("nodegraph",):
        for off in range(0, len(seed)):
            for val in (2 ** 40, 2 ** 63, 2 ** 64 - 1, 0, 2 ** 32):
                res.append(inflate_at(seed, off, val))
    if kind == "hll":
        # header: "HLL" version p q ksize, then 2^p registers: every header byte through a ladder of values
        for off in range(0, min(8, len(seed))):
            for val in (0, 1, 3, 4, 5, 13, 17, 18, 19, 20, 24, 31, 32, 33, 40, 47, 62, 63, 64, 65, 127, 128, 200, 255):
                b = bytearray(seed)
                b[off] = val
                res.append(bytes(b))
        for off in range(0, min(16, len(seed))):
            for val in (2 ** 40, 2 ** 63, 2 ** 64 - 1, 0):
                res.append(inflate_at(seed, off, val))
    if kind in ("sqldb", "zip", "zipnomf", "sbtzip"):
        for _ in range(n // 2):
            res.append(inflate_at(seed, rng.randrange(max(1, len(seed) - 8)), rng.choice([2 ** 40, 2 ** 63, 2 ** 64 - 1, 0])))
    if kind in ("sig", "lca", "sbtjson"):
        res += json_mutations(seed.decode("utf-8", "replace"), rng, n)
    if kind == "siggz":
        try:
            inner = gzip.decompress(seed)
            for m in json_mutations(inner.decode("utf-8", "replace"), rng, n // 2)[:n]:
                res.append(gzip.compress(m))
            res.append(gzip.compress(b""))
            res.append(seed + seed)
        except OSError:
            pass
    if kind in ("manifest", "picklist", "taxonomy"):
        res += csv_mutations(seed, rng, n)
    if kind in ("zip", "zipnomf", "sbtzip"):
        def mm(name, data):
            k = rng.random()
            if name.endswith((".sig", ".sig.gz", ".json")) and k < 0.5:
                try:
                    raw = gzip.decompress(data) if data[:2] == b"\x1f\x8b" else data
                    ms = json_mutations(raw.decode("utf-8", "replace"), rng, 2)
                    m = rng.choice(ms)
                    return gzip.compress(m) if data[:2] == b"\x1f\x8b" else m
                except (OSError, IndexError):
                    return flip(data, rng, 2)
            if name.endswith(".csv") and k < 0.7:
                ms = csv_mutations(data, rng, 2)
                return rng.choice(ms)
            if k < 0.85:
                if len(data) > 16:
                    return inflate_at(data, rng.randrange(len(data) - 8), rng.choice([2 ** 40, 2 ** 63, 2 ** 64 - 1]))
                return flip(data, rng, 1)
            return truncate(data, rng)
        res += rezip(seed, rng, mm)
    # de-duplicate, drop the unmodified seed
    seen = set()
    out = []
    for m in res:
        if m != seed and m not in seen:
            seen.add(m)
            out.append(m)
    return out


# ---------------------------------------------------------------------------------- isolated workers

def run_worker(jobs, pkg):
    """jobs: list of (kind, path, extra).  Returns list of result dicts, one per job:
    {'o': 'ok..' | 'exc X' | 'signal N' | 'timeout' (+ sentinel suffix), 'facts': {...}, 'enc': {...}}"""
    env = dict(os.environ, PYTHONPATH=pkg, PYTHONHASHSEED="0")
    outcomes = []
    i = 0
    while i < len(jobs):
        p = subprocess.Popen([common.PY, os.path.join(common.VERIF, "harness", "c20", "worker.py")],
                             stdin=subprocess.PIPE, stdout=subprocess.PIPE, stderr=subprocess.DEVNULL, env=env, text=True)
        try:
            while i < len(jobs):
                kind, path, extra = jobs[i]
                try:
                    p.stdin.write("\t".join([kind, path] + ([extra] if extra is not None else [])) + "\n")
                    p.stdin.flush()
                except BrokenPipeError:
                    pass
                r, _, _ = select.select([p.stdout], [], [], PER_FILE_TIMEOUT)
                if not r:
                    p.kill()
                    p.wait()
                    outcomes.append({"o": "timeout"})
                    i += 1
                    break
                line = p.stdout.readline()
                if not line:
                    rc = p.wait()
                    outcomes.append({"o": f"signal {-rc}" if rc < 0 else f"died exit={rc}"})
                    i += 1
                    break
                try:
                    outcomes.append(json.loads(line))
                except ValueError:
                    outcomes.append({"o": "died garbled-output"})
                i += 1
        finally:
            if p.poll() is None:
                try:
                    p.stdin.close()
                except OSError:
                    pass
                try:
                    p.wait(timeout=10)
                except subprocess.TimeoutExpired:
                    p.kill()
    return outcomes


def _worker_entry(args):
    return run_worker(*args)


# ---------------------------------------------------------------------------------- model vs reader

WORK_K, WORK_K0 = 25, 400         # lines executed by the reader  <=  WORK_K * model work + WORK_K0
WORK_L, WORK_L0 = 3, 60           # model work                    <=  WORK_L * lines + WORK_L0

READERS = {"mf": "manifest-reader", "mff": "manifest-file-reader", "pl": "picklist-reader", "lca": "lca-reader", "sbt": "sbt-reader", "chain": "loader-chain"}


def split_w(m):
    mm = re.search(r" w=(\d+)$", m)
    return (m[:mm.start()], int(mm.group(1))) if mm else (m, None)


def kv(s):
    return dict(x.split("=", 1) for x in s.split(" ")[1:] if "=" in x)


def compare(tag, model, fact):
    """-> None when model and reader agree, 'skip' when the model declines, else a description"""
    body, _ = split_w(model)
    if body.startswith("skip"):
        return "skip"
    if body == "bad-op":
        return "the encoder produced an op line the driver cannot parse"
    if tag == "chain":
        if body.startswith("order"):
            return "loaders were not tried in the order of the sorted loader table: " + body
        m = kv("x " + body)
        outers = [o.split("<")[0] for _, o in fact["calls"]]
        if m.get("outer", "").split(",") != outers:
            return f"per-loader outcomes differ: model {m.get('outer')} reader {','.join(outers)}"
        fin = m.get("final", "")
        if fin == "more":
            return "the reader's chain stopped although the model says every loader so far declines"
        want = fact["final"]
        got = fin.split("@")[0]
        if want == "idx":
            return None if got == "idx" else f"final: model {fin} reader {want}"
        return None if got == want else f"final: model {fin} reader {want}"
    if body.split(" ")[0] != fact.split(" ")[0]:
        return f"model `{body[:70]}` reader `{fact[:70]}`"
    if body.startswith("exc"):
        return None if body == fact else f"model `{body}` reader `{fact}`"
    if tag == "sbt":
        a, b = kv(body), kv(fact)
        for k in ("d", "n", "l", "m", "mf", "cc"):
            if k == "cc" and b.get(k) == "-":
                continue
            if a.get(k) != b.get(k):
                return f"{k}: model {a.get(k)} reader {b.get(k)}  (model `{body[:90]}` reader `{fact[:90]}`)"
        return None
    return None if body.rstrip() == fact.rstrip() else f"model `{body[:90]}` reader `{fact[:90]}`"


def huge_key(doc):
    """does an SBT index document carry a node / leaf position key beyond 10^4 ?"""
    try:
        for tab in ("nodes", "signatures", "leaves"):
            for k in (doc.get(tab) or {}):
                try:
                    if int(k) > 10 ** 4:
                        return True
                except ValueError:
                    pass
    except (AttributeError, TypeError):
        pass
    return False


def ref_oracle(rm, o, b):
    """referential damage, index / manifest intact.  Acceptable: an ordinary exception (at load or at the query), or the
    listed signature reported.  Not acceptable: an answer that silently omits a signature the index / manifest lists.
    -> (signature, text) or None"""
    kind, dmg, tcls = rm["refkind"], rm["damage"], rm["target_class"]
    what = f"{dmg} {rm['target']}" + (f" <-> {rm['other']}" if rm.get("other") else "")
    if dmg == "intact":
        if o is None or not o.startswith("ok") or b is None:
            return None            # reported as seed-rejected below
        bad = [k for k in ("search", "gather", "prefetch", "search_fresh") if b.get(k) and set(b.get(k)) != {"F"}]
        if bad or b.get("signatures") != rm["expected"]:
            return (f"C20:{kind}:intact-collection-wrong-answers", f"the undamaged {kind} seed collection does not answer for its own signatures: {b}")
        return None
    if o is None or not o.startswith("ok") or b is None:
        return None                # loud (or a crash / timeout, reported by the crash oracle)
    if tcls == "manifest":
        detail = "manifest-unreadable"
    elif dmg == "swap":
        detail = "swap"
    else:
        detail = f"{dmg}-{tcls}"
    sig = f"C20:{kind}:silently-missing-signature:{detail}"
    exp = rm["expected"]
    sg = b.get("signatures")
    if isinstance(sg, list):
        missing = [n for n in exp if n not in sg]
        if missing:
            return (sig, f"{kind} with intact index, {what}: loads, len()={b.get('len')}, and signatures() yields {len(sg)} of the "
                         f"{len(exp)} listed signatures without any error (missing {','.join(missing)})")
    for op in ("search", "gather", "prefetch", "search_fresh"):
        res = b.get(op) or []
        for n, r in zip(referential_names(), res):
            if n in exp and r == "M":
                return (sig, f"{kind} with intact index, {what}: {op} for {n} returns without error and without {n}, "
                             f"although the index lists it ({op}: {' '.join(res)})")
    return None


def referential_names():
    return [f"genome{i}" for i in range(8)]


def main():
    chk = common.Check("C20", TB, AS)
    pkg = chk.build()
    chk.translate()
    chk.prove()
    sys.path.insert(0, os.path.join(common.VERIF, "harness", "c20"))
    import targeted
    tmp = os.path.join(common.BUILD, "tmp", f"c20_{os.getpid()}")
    shutil.rmtree(tmp, ignore_errors=True)
    os.makedirs(tmp)
    try:
        seeddir = os.path.join(tmp, "seed")
        r = subprocess.run([common.PY, os.path.join(common.VERIF, "harness", "c20", "seeds.py"), seeddir],
                           env=dict(os.environ, PYTHONPATH=pkg), stdout=subprocess.PIPE, stderr=subprocess.PIPE, text=True)
        if r.returncode != 0:
            chk.exit_tool("cannot create seed files: " + r.stderr[-1500:])
        seeds = [l.split(" ", 1) for l in r.stdout.strip().split("\n") if " " in l]
        jobs = []
        meta = []       # (kind, bytes, suffix, extra, targeted?)
        if chk.replay and "refkind" in json.load(open(chk.replay if os.path.isabs(chk.replay) else os.path.join(common.VERIF, chk.replay)))["data"]:
            seeds = []              # a referential replay: rebuilt below from (refkind, damage, target, other)
        elif chk.replay:
            p = chk.replay if os.path.isabs(chk.replay) else os.path.join(common.VERIF, chk.replay)
            d = json.load(open(p))["data"]
            kind, data = d["kind"], base64.b64decode(d["bytes_b64"])
            rd = os.path.join(tmp, "replay")
            os.makedirs(rd)
            if kind == "sbtjson":
                for k2, sp in seeds:
                    if k2 == "sbtjson":
                        sd = os.path.dirname(sp)
                        for f in os.listdir(sd):
                            if f.startswith(".sbt.") and os.path.isdir(os.path.join(sd, f)):
                                shutil.copytree(os.path.join(sd, f), os.path.join(rd, f), dirs_exist_ok=True)
                        path = os.path.join(rd, os.path.basename(sp))
            else:
                path = os.path.join(rd, "m" + d.get("suffix", ""))
            seeds = []
            open(path, "wb").write(data)
            jobs.append((kind, path, d.get("extra")))
            meta.append((kind, data, d.get("suffix", ""), d.get("extra"), True))
        n = 60 if chk.tier == "quick" else 1500
        kinds = {}
        seed_bytes = {k: open(p, "rb").read() for k, p in seeds}
        seed_paths = set(p for _, p in seeds)

        declared_label = {}

        def add_mutant(kind, seedpath, suffix, j, m, extra, tgt):
            d = os.path.join(tmp, f"{kind}_{'t' if tgt else 'r'}{j}")
            os.makedirs(d)
            if extra is not None and extra.startswith("suffix="):
                suffix, extra = extra[len("suffix="):], None      # the file name is part of the damage (manifest: *.gz)
            mp = os.path.join(d, "m" + suffix)
            if kind == "sbtjson":
                # keep the node directory reachable
                sd = os.path.dirname(seedpath)
                for f in os.listdir(sd):
                    if f.startswith(".sbt.") and os.path.isdir(os.path.join(sd, f)):
                        shutil.copytree(os.path.join(sd, f), os.path.join(d, f), dirs_exist_ok=True)
                mp = os.path.join(d, os.path.basename(seedpath))
            with open(mp, "wb") as f:
                f.write(m)
            jobs.append((kind, mp, extra))
            meta.append((kind, m, suffix, extra, tgt))

        for kind, path in seeds:
            seed = seed_bytes[kind]
            suffix = path[path.index(".", len(os.path.dirname(path))):]
            jobs.append((kind, path, None))          # the unmodified seed must load
            meta.append((kind, seed, suffix, None, False))
            muts = mutations(kind, seed, chk.rng, n)
            tg = []
            if kind == "manifest":
                tg = targeted.manifest(seed, chk.rng)
            elif kind == "picklist":
                tg = targeted.picklist(seed, seed_bytes["manifest"], chk.rng)
            elif kind == "sbtjson":
                tg = targeted.sbtjson(seed, chk.rng, thorough=chk.tier == "thorough")
            elif kind == "lca":
                tg = targeted.lca(seed, chk.rng)
            elif kind == "sbtzip":
                tg = targeted.sbtzip(seed, chk.rng)
            if chk.tier == "quick" and len(tg) > 450:
                keep = set(chk.rng.sample(range(len(tg)), 450))
                tg = [t for i, t in enumerate(tg) if i in keep]
            kinds[kind] = len(muts) + len(tg)
            for j, m in enumerate(muts):
                add_mutant(kind, path, suffix, j, m, None, False)
            # damage class 'declared sizes': data correct, a length / count field lies
            import declared
            dl = []
            if kind in ("zip", "zipnomf", "sbtzip"):
                dl = declared.zip_declared(seed, chk.rng, chk.tier == "thorough")
            elif kind == "siggz":
                dl = declared.gzip_declared(seed)
            elif kind == "sqldb":
                dl = declared.sqlite_declared(seed)
            for j, (label, m) in enumerate(dl):
                declared_label[len(jobs)] = label
                add_mutant(kind, path, suffix, 100000 + j, m, None, True)
            kinds[kind] += len(dl)
            seen = set()
            for j, (m, extra) in enumerate(tg):
                if (m, extra) in seen:
                    continue
                seen.add((m, extra))
                add_mutant("plarg" if (kind == "picklist" and extra) else kind, path, suffix, j, m, extra, True)
        if seeds:
            # a list-of-paths file that names itself, and two that name each other (the chain recurses through them)
            d = os.path.join(tmp, "pathlist")
            os.makedirs(d)
            a, b, c = (os.path.join(d, x) for x in ("self.txt", "a.txt", "b.txt"))
            for pth, content in ((a, a + "\n"), (b, b + "\n" + c + "\n"), (c, b + "\n" + c + "\n")):
                open(pth, "w").write(content)
            for pth in (a, b):
                jobs.append(("pathlist", pth, None))
                meta.append(("pathlist", open(pth, "rb").read(), ".txt", None, True))
            kinds["pathlist"] = 2
        # ---- damage class 'referential': index / manifest intact, a referenced file or zip member damaged
        import referential
        ref_meta = {}
        replay_ref = None
        if chk.replay:
            rd_ = json.load(open(chk.replay if os.path.isabs(chk.replay) else os.path.join(common.VERIF, chk.replay)))["data"]
            if "refkind" in rd_:
                replay_ref = rd_
                jobs, meta = [], []
        if seeds or replay_ref:
            refroot = os.path.join(tmp, "refseed")
            r = subprocess.run([common.PY, os.path.join(common.VERIF, "harness", "c20", "referential.py"), refroot],
                               env=dict(os.environ, PYTHONPATH=pkg), stdout=subprocess.PIPE, stderr=subprocess.PIPE, text=True)
            if r.returncode != 0:
                chk.exit_tool("cannot create the referential seed collections: " + r.stderr[-1500:])
            nref = 0
            for rkind in referential.KINDS:
                todo = [("intact", None, None, None)] + referential.plan(refroot, rkind, chk.rng, chk.tier == "thorough")
                if replay_ref:
                    todo = [(replay_ref["damage"], replay_ref["target"], replay_ref.get("other"), replay_ref.get("target_class"))] \
                        if replay_ref["refkind"] == rkind else []
                for j, (dmg, target, other, tcls) in enumerate(todo):
                    dst = os.path.join(tmp, f"ref_{rkind}_{j}")
                    path = referential.instantiate(refroot, rkind, dst)
                    if dmg != "intact":
                        referential.apply(rkind, dst, dmg, target, other)
                    ref_meta[len(jobs)] = {"refkind": rkind, "damage": dmg, "target": target, "other": other, "target_class": tcls,
                                           "expected": referential.expected_names(rkind, dmg, target) if dmg != "intact" else referential.names()}
                    jobs.append(("ref", path, None))
                    meta.append(("ref-" + rkind, b"", "", None, True))
                    nref += 1
            kinds["referential"] = nref
        if chk.tier == "thorough":
            os.environ["C20_ALL_ROUTES"] = "1"        # every alternate route on every file
        # distribute over workers
        nw = 16
        chunks = [list(range(i, len(jobs), nw)) for i in range(nw)]
        chunks = [c for c in chunks if c]
        res = common.par_map(_worker_entry, [([jobs[i] for i in c], pkg) for c in chunks], procs=len(chunks))
        result = [None] * len(jobs)
        for c, r in zip(chunks, res):
            for i, o in zip(c, r):
                result[i] = o
        outcome = [(r or {}).get("o") for r in result]
        # nodegraph files also go through the Lean model
        ng_idx = [i for i, j in enumerate(jobs) if j[0] == "nodegraph"]
        text = "# case\n" + "".join("ng " + meta[i][1].hex() + "\n" for i in ng_idx)
        model = common.run_model("ng", text)[1:]
        # HyperLogLog files through the reader model
        hl_idx = [i for i, j in enumerate(jobs) if j[0] == "hll"]
        hl_model = common.run_model("ng", "# case\n" + "".join("hll " + meta[i][1].hex() + "\n" for i in hl_idx))[1:] if hl_idx else []
        hl_cmp = {"compared": 0, "agreed": 0, "skipped": 0}
        for i, m in zip(hl_idx, hl_model):
            o = outcome[i] or ""
            chk.cov["traces_validated_against_impl"] += 1
            if m == "skip" or o.startswith(("signal", "timeout", "died")):
                hl_cmp["skipped"] += 1          # compressed input / reported by the crash oracle
                continue
            hl_cmp["compared"] += 1
            impl_cls = "ok" if o.startswith("ok") else "err"
            if m.startswith("alloc"):
                good = impl_cls == "err"        # 2^p zero-filled bytes requested, then the registers are not there
            else:
                good = m.split(" ")[0] == impl_cls and (impl_cls == "err" or m == o)
            if good:
                hl_cmp["agreed"] += 1
            else:
                chk.add_violation("correspondence", "C20:corr:hll-reader",
                                  f"HyperLogLog reader model says `{m[:60]}` but the implementation says `{o[:60]}` for a {len(meta[i][1])}-byte file",
                                  {"kind": "hll", "suffix": ".hll", "bytes_b64": base64.b64encode(meta[i][1]).decode(), "model": m, "impl": o},
                                  concrete=False)
        chk.cov["hll_reader_model"] = hl_cmp
        # the reader models
        ops = []        # (job index, tag)
        for i, r in enumerate(result):
            for tag, line in ((r or {}).get("enc") or {}).items():
                if tag in READERS and (tag in ((r or {}).get("facts") or {})):
                    ops.append((i, tag, line))
        rmodel = common.run_model("c20r", "# case\n" + "".join(l + "\n" for _, _, l in ops))[1:] if ops else []
        if len(rmodel) != len(ops):
            chk.exit_tool(f"reader-model driver answered {len(rmodel)} lines for {len(ops)} ops")
        stats = {}
        routes_seen = {}
        distinct = 0
        nv = 0
        for i, (job, (k2, data, suffix, extra, tgt), o) in enumerate(zip(jobs, meta, outcome)):
            kind, path = job[0], job[1]
            if kind == "ref":
                kind = k2
            chk.cov["evaluations"] += 1
            cls = (o or "none").split(" ")[0]
            stats.setdefault(kind, {}).setdefault(cls if cls != "exc" else o, 0)
            stats[kind][cls if cls != "exc" else o] += 1
            if o is not None and not o.startswith("none"):
                distinct += 1
            is_seed = path in seed_paths
            rp = {"kind": kind, "suffix": suffix, "extra": extra, "bytes_b64": base64.b64encode(data).decode(), "outcome": o,
                  "how": "write the bytes to a file with this suffix and load it as harness/c20/worker.py does"}
            facts = (result[i] or {}).get("facts") or {}
            direct_excs = [v for k, v in facts.items() if isinstance(v, str) and v.startswith("exc ")]
            if i in ref_meta:
                rm = ref_meta[i]
                rp = dict(rm, outcome=o, battery=facts.get("battery"),
                          how="python harness/c20/referential.py <dir> builds the seed collections with the current code; "
                              "referential.instantiate(<dir>, refkind, <copy>) + referential.apply(refkind, <copy>, damage, target, other); "
                              "then load_file_as_index(<copy>/<entry>) and search / best_containment / prefetch for each genome<i>")
                is_seed = rm["damage"] == "intact"
                verdict = ref_oracle(rm, o, facts.get("battery"))
                if verdict is not None:
                    chk.add_violation("oracle", verdict[0], verdict[1], rp)
            if o is None or o.startswith(("signal", "timeout", "died")):
                nv += 1
                detail = ""
                sig = None
                if kind == "sbtjson":
                    try:
                        doc = json.loads(data)
                        dd = doc.get("d")
                        if isinstance(dd, int) and not isinstance(dd, bool) and dd > 1000 and o == "timeout":
                            detail = ":huge-d"
                        if isinstance(dd, (int, float)) and not isinstance(dd, bool) and dd < 1 and o == "timeout":
                            detail = ":d-below-one"
                        if huge_key(doc):
                            sig = "C20:sbtjson:huge-node-key"
                    except (ValueError, AttributeError, RecursionError):
                        pass
                try:
                    route = open(path + ".route").read()
                    detail += ":route:" + route
                    rp["route"] = route
                except OSError:
                    pass
                if kind == "nodegraph" and len(data) > 10 and data[:4] == b"OXLI" and data[10] == 0:
                    detail += ":no-tables"
                if i in declared_label:
                    detail += ":declared-size:" + declared_label[i].split(":")[0]
                    rp["declared"] = declared_label[i]
                chk.add_violation("crash", sig or f"C20:{kind}:{(o or 'none').split()[0]}{detail}",
                                  f"loading a damaged {kind} file ({len(data)} bytes"
                                  + (f"; declared-size damage {declared_label[i]}" if i in declared_label else "")
                                  + f") ended the worker: {o}", rp)
            elif "SENTINEL" in o:
                nv += 1
                chk.add_violation("crash", f"C20:{kind}:sentinel", f"after a failed load of a damaged {kind} file the process is damaged: {o}", rp)
            elif o.startswith("exc SystemExit") or "exc SystemExit" in direct_excs:
                # sys.exit() from library code on bad input is not an 'ordinary catchable error'
                chk.add_violation("oracle", f"C20:{kind}:SystemExit", f"loading a damaged {kind} file called sys.exit() instead of raising", rp)
            elif o.startswith("exc MemoryError") or "exc MemoryError" in direct_excs:
                detail = ""
                if kind == "manifest" and re.search(rb"[-+~(\[{]{1000,}", data):
                    detail = ":literal_eval-nesting"
                sig = None
                if kind == "sbtjson":
                    try:
                        if huge_key(json.loads(data)):
                            sig = "C20:sbtjson:huge-node-key"
                    except (ValueError, RecursionError):
                        pass
                chk.add_violation("oracle", sig or f"C20:{kind}:MemoryError{detail}",
                                  f"loading a damaged {kind} file ({len(data)} bytes) exhausted a resource: MemoryError", rp)
            elif i in declared_label and declared_label[i].startswith("honest") and not o.startswith("ok"):
                chk.add_violation("oracle", f"C20:{kind}:honest-rewrite-rejected",
                                  f"a re-write of the valid {kind} seed with TRUE sizes ({declared_label[i]}) was rejected: {o}", rp)
            elif is_seed and not o.startswith("ok"):
                chk.add_violation("oracle", f"C20:{kind}:seed-rejected", f"the unmodified valid {kind} seed file was rejected: {o}", rp)
            if kind in ("sig", "siggz") and (o or "").startswith("ok") and (result[i] or {}).get("n_primary") == 0 and data:
                raw = data
                try:
                    if raw[:2] == b"\x1f\x8b":
                        raw = gzip.decompress(raw)
                    doc_ = json.loads(raw)
                    valid_empty = isinstance(doc_, list)
                except (ValueError, OSError, EOFError, RecursionError, zlib_error):
                    valid_empty = False
                if not valid_empty:
                    chk.add_violation("oracle", f"C20:{kind}:silently-empty",
                                      f"a damaged {kind} file ({len(data)} bytes, not valid JSON / gzip) loads as an EMPTY collection without any error", rp)
            per = (result[i] or {}).get("periphery") or {}
            for name, out in per.get("alt") or []:
                routes_seen.setdefault(kind, {}).setdefault(name, {}).setdefault(out.split(" ")[0] if not out.startswith("exc") else out, 0)
                routes_seen[kind][name][out.split(" ")[0] if not out.startswith("exc") else out] += 1
            if (result[i] or {}).get("periphery_error"):
                chk.add_violation("oracle", f"C20:{kind}:periphery-harness-error", "the periphery layer itself failed: " + result[i]["periphery_error"], rp, concrete=False)
            for prob in per.get("problems") or []:
                cls_, _, text = prob.partition(": ")
                if cls_ == "routes-disagree":
                    m_ = re.search(r"signatures, ([^ ]+(?: [a-z_]+)?) read", text)
                elif cls_ == "route-silently-empty":
                    m_ = re.search(r"this file, ([^ ]+(?: [a-z_]+)?) returns", text)
                else:
                    m_ = re.match(r"\[([a-z0-9-]+)\] ", text)
                sig_ = f"C20:{kind}:{cls_}" + (":" + m_.group(1).replace(" ", "_") if m_ else "")
                # one defect seen through several routes / views: name the defect, not the route
                shape = re.match(r"\[(subset|md5-differ)\] ", text)
                if kind in ("sbtjson", "sbtzip") and (sig_.endswith(":len-vs-signatures") or (cls_ == "routes-disagree" and shape and shape.group(1) == "subset")):
                    sig_ = f"C20:{kind}:leaves-vs-manifest"
                elif kind == "sqldb" and (sig_.endswith(":manifest-md5-vs-signatures") or (cls_ == "routes-disagree" and shape and shape.group(1) == "md5-differ")):
                    sig_ = "C20:sqldb:stored-md5-vs-sketch"
                elif kind in ("zip", "zipnomf") and cls_ == "routes-disagree" and shape and shape.group(1) == "subset" \
                        and re.search(r"(get_manifest:rebuild|no-manifest|yield-all) read", text):
                    sig_ = f"C20:{kind}:same-md5-member-dropped"
                chk.add_violation("oracle", sig_, f"{kind} file ({len(data)} bytes): {text}", dict(rp, problem=prob))
            # C20.4 (repaired): a pickfile that is valid UTF-8 and valid CSV must not be refused by the version sniffing
            plf = facts.get("pl")
            if kind in ("picklist", "plarg") and plf == "exc Error" and not data.startswith(b"\x1f\x8b"):
                try:
                    import csv as _csv
                    import io as _io
                    list(_csv.reader(_io.StringIO(data.decode("utf-8"), newline="")))
                    chk.add_violation("oracle", "C20:picklist:valid-utf8-refused-at-buffer-edge",
                                      f"a {len(data)}-byte pickfile that is valid UTF-8 and valid CSV was refused with csv.Error "
                                      f"(a multi-byte character cut by the edge of the first buffered chunk?)", rp)
                except (UnicodeDecodeError, _csv.Error):
                    pass
            # amplification: the work a reader does must be bounded by the size of what it reads
            sb = facts.get("sbt")
            if isinstance(sb, str) and sb.startswith("ok"):
                m_ = kv(sb).get("m", "0")
                if m_.isdigit() and int(m_) > 20 * max(1, len(data)):
                    chk.add_violation("oracle", "C20:sbtjson:huge-node-key",
                                      f"a {len(data)}-byte SBT index JSON makes SBT.load build a set of {m_} missing positions "
                                      f"(it enumerates range(largest position key in the file))", rp)
        for i, m in zip(ng_idx, model):
            o = outcome[i] or ""
            chk.cov["traces_validated_against_impl"] += 1
            if m == "skip":
                continue
            if o.startswith(("signal", "timeout", "died")):
                continue                      # reported by the crash oracle
            impl_cls = "ok" if o.startswith("ok") else "err"
            if m.split(" ")[0] != impl_cls or (impl_cls == "ok" and " " in o and m != o):
                chk.add_violation("correspondence", "C20:corr:nodegraph-reader",
                                  f"reader model says `{m[:80]}` but the implementation says `{o[:80]}` for a {len(meta[i][1])}-byte nodegraph file",
                                  {"kind": "nodegraph", "suffix": ".ng", "bytes_b64": base64.b64encode(meta[i][1]).decode(), "model": m, "impl": o},
                                  concrete=False)
        # the lazy node loader: model (with the swallow list the translator reads) vs the battery on node files the storage cannot produce
        nd_model = dict(zip(("sbtjson", "sbtzip"), common.run_model("c20r", "# case\nnd fs FileNotFoundError\nnd zip ValueError\n")[1:]))
        nd_cmp = {"compared": 0, "agreed": 0}
        for i, rm in ref_meta.items():
            if rm["target_class"] != "node" or rm["damage"] not in ("delete", "rename", "cdflip", "lhflip"):
                continue
            b = ((result[i] or {}).get("facts") or {}).get("battery")
            if not b or not (outcome[i] or "").startswith("ok"):
                continue
            m = nd_model.get(rm["refkind"], "")
            entries = [e for op in ("search", "gather", "prefetch", "search_fresh") for e in (b.get(op) or [])]
            nd_cmp["compared"] += 1
            chk.cov["traces_validated_against_impl"] += 1
            if m.startswith("exc "):
                ok = set(entries) <= {"F", "E:" + m[4:]} and any(e.startswith("E:") for e in entries)
            elif m == "fresh":
                ok = set(entries) <= {"F", "M"}
            else:
                ok = False
            if ok:
                nd_cmp["agreed"] += 1
            else:
                chk.add_violation("correspondence", "C20:corr:sbt-node-loader",
                                  f"node-loader model says `{m}` for a {rm['refkind']} whose node file {rm['target']} is gone ({rm['damage']}), "
                                  f"the queries say {sorted(set(entries))}", dict(rm, battery=b, model=m), concrete=False)
        chk.cov["node_loader_model"] = nd_cmp
        corr = {t: {"compared": 0, "agreed": 0, "model_declined": 0, "ok": 0, "exc": 0, "work_checked": 0, "classes": {}} for t in READERS}
        decl = {}
        for (i, tag, line), m in zip(ops, rmodel):
            facts = result[i]["facts"]
            fact = facts[tag]
            c = corr[tag]
            c["compared"] += 1
            chk.cov["traces_validated_against_impl"] += 1
            kind, data, suffix, extra, _ = meta[i]
            rp = {"kind": kind, "suffix": suffix, "extra": extra, "bytes_b64": base64.b64encode(data).decode(), "model": m, "reader": fact,
                  "op": line if len(line) < 4000 else line[:4000] + "…",
                  "how": "load the bytes as harness/c20/worker.py does (direct call of the modelled reader); `op` is the model's input"}
            why = compare(tag, m, fact)
            if why == "skip":
                c["model_declined"] += 1
                w = split_w(m)[0][5:]
                decl[w] = decl.get(w, 0) + 1
                continue
            if why is not None:
                if os.environ.get("C20_DEBUG"):
                    print(f"[c20-debug] {tag} {kind} extra={extra!r}: {why}\n    data={data[:300]!r}", file=sys.stderr)
                chk.add_violation("correspondence", f"C20:corr:{READERS[tag]}",
                                  f"{READERS[tag]}: model and code disagree on a {len(data)}-byte {kind} file: {why}", rp, concrete=False)
                continue
            c["agreed"] += 1
            if tag != "chain":
                f0 = fact.split(" ")
                if f0[0] == "ok":
                    c["ok"] += 1
                else:
                    c["exc"] += 1
                    c["classes"][f0[1]] = c["classes"].get(f0[1], 0) + 1
                w = split_w(m)[1]
                lines = facts.get(tag + "_lines")
                if w is not None and lines is not None:
                    c["work_checked"] += 1
                    if lines > WORK_K * w + WORK_K0 or w > WORK_L * lines + WORK_L0:
                        chk.add_violation("correspondence", f"C20:work:{READERS[tag]}",
                                          f"{READERS[tag]}: the reader executed {lines} source lines where the model counts {w} loop iterations "
                                          f"(bounds: lines <= {WORK_K}*w+{WORK_K0}, w <= {WORK_L}*lines+{WORK_L0})", rp, concrete=False)
            else:
                fin = fact["final"]
                c["ok" if fin == "idx" else "exc"] += 1
                if fin != "idx":
                    c["classes"][fin[4:]] = c["classes"].get(fin[4:], 0) + 1
        chk.cov["alternate_routes"] = routes_seen
        chk.cov["declared_sizes"] = {}
        for i, label in declared_label.items():
            chk.cov["declared_sizes"].setdefault(jobs[i][0], {})[label] = outcome[i]
        chk.cov["distinct_nontrivial"] = distinct
        chk.cov["rule"] = RULE
        chk.cov["outcomes_by_kind"] = stats
        chk.cov["mutants_by_kind"] = kinds
        chk.cov["reader_models"] = corr
        chk.cov["reader_models_declined_because"] = decl
        chk.cov["samples"] = [{"kind": jobs[i][0], "bytes": len(meta[i][1]), "outcome": outcome[i]} for i in range(0, len(jobs), max(1, len(jobs) // 8))][:8]
        chk.cov["explanation"] = ("theorem part: obligations/discharged (Props/C20.lean); testing part: crash-isolated loads of mutated files "
                                  "(evaluations); traces_validated_against_impl = model-vs-reader comparisons (nodegraph reader + reader_models.*.compared); "
                                  "reader_models: per modelled reader, files compared / agreed / declined by the model (input outside the modelled fragment "
                                  "of a trusted primitive) / work_checked (executed-lines vs model work within the stated linear bounds)")
    finally:
        shutil.rmtree(tmp, ignore_errors=True)
    chk.finish()


if __name__ == "__main__":
    main()
