#!/usr/bin/env python3
"""C20 - malformed or hostile files produce an error, never a crash or a hang.  PARTIAL by nature.

(1) Lean: decision + resource model of Nodegraph::from_reader; `alloc_bounded` for the allocation
    discipline the translator reads from the current source; nodegraph files are also run through
    the model and the outcome class (ok + table sizes / err) is compared with the real reader.
(2) Crash-isolated differential run (testing, labelled so): mutated versions of every file kind are
    loaded by worker processes under an address-space limit and a per-file time limit; any signal,
    timeout or damaged process state is a violation with the bytes as replay."""
import base64
import gzip
import io
import json
import os
import select
import shutil
import struct
import subprocess
import sys
import time
import zipfile

sys.path.insert(0, os.path.dirname(os.path.abspath(__file__)))
sys.path.insert(0, os.path.dirname(os.path.dirname(os.path.abspath(__file__))))
import common  # noqa: E402

TB = [
    "Lean 4.33 kernel; axioms allowed: propext, Classical.choice, Quot.sound",
    "translator: allocation discipline of Nodegraph::from_reader (pre-allocation from the size field vs bounded read) re-read from the source each run",
    "hand-written model of the nodegraph byte reader, compared with the real reader on every mutated nodegraph file (outcome class and table sizes)",
    "NOT modelled, only observed by crash-isolated workers: memory safety of native code, serde_json / zip / gzip / sqlite / csv decoders, the allocator, CPython",
]
AS = ["PARTIAL by nature: only the hand-written size-taking reader is inside a theorem; everything else is differential testing in isolated workers",
      "worker limits: RLIMIT_AS 6 GB, 30 s per file"]
RULE = ("for each of 11 file kinds (sig JSON, sig.gz, zip, sqldb, manifest CSV, picklist CSV, SBT zip, SBT json, LCA json, nodegraph, taxonomy CSV) "
        "a valid seed file is produced with the current code and mutated: bit flips, truncation, insertion, 8-byte size-field inflation at every offset "
        "(binary kinds), JSON tree edits (field deletion/duplication/type change/deep nesting/huge integers), CSV column edits, member edits inside zip and "
        "gzip containers; each mutated file is loaded through the loader a user reaches (generic loader + iteration + a search, manifest, picklist, taxonomy "
        "loaders) in a worker; after a failed load a sentinel sketch must still have the right md5; non-trivial = the file differs from the seed and the "
        "loader got past opening it (outcome recorded); distinct = distinct mutated byte strings")

PER_FILE_TIMEOUT = 30


# ---------------------------------------------------------------------------------- mutators

def flip(b, rng, n=1):
    b = bytearray(b)
    for _ in range(n):
        if b:
            i = rng.randrange(len(b))
            b[i] ^= 1 << rng.randrange(8)
    return bytes(b)


def truncate(b, rng):
    return b[:rng.randrange(len(b) + 1)] if b else b


def insert(b, rng):
    i = rng.randrange(len(b) + 1)
    return b[:i] + bytes(rng.randrange(256) for _ in range(rng.randint(1, 16))) + b[i:]


def inflate_at(b, off, val):
    b = bytearray(b)
    b[off:off + 8] = struct.pack("<Q", val)[:max(0, min(8, len(b) - off))]
    return bytes(b)


def json_mutations(text, rng, n):
    out = []
    try:
        doc = json.loads(text)
    except ValueError:
        return out
    paths = []

    def walk(x, path):
        paths.append(path)
        if isinstance(x, dict):
            for k in x:
                walk(x[k], path + [k])
        elif isinstance(x, list):
            for i, v in enumerate(x[:6]):
                walk(v, path + [i])
    walk(doc, [])

    def get(d, path):
        for p in path:
            d = d[p]
        return d

    for _ in range(n):
        d = json.loads(text)
        path = rng.choice([p for p in paths if p])
        parent = get(d, path[:-1])
        key = path[-1]
        kind = rng.choice(["delete", "null", "string", "number", "huge", "negative", "list", "dict", "nest", "dup", "float", "bool", "emptystr",
                           "emptylist", "shortlist", "longlist"])
        try:
            if kind == "delete":
                del parent[key]
            elif kind == "null":
                parent[key] = None
            elif kind == "string":
                parent[key] = "x" * rng.choice([0, 1, 100])
            elif kind == "number":
                parent[key] = rng.choice([0, 1, -1, 2 ** 31, 2 ** 32, 2 ** 63, 2 ** 64 - 1])
            elif kind == "huge":
                parent[key] = 2 ** rng.choice([64, 65, 100, 200])
            elif kind == "negative":
                parent[key] = -rng.choice([1, 2 ** 40, 2 ** 64])
            elif kind == "list":
                parent[key] = [parent[key]] * rng.choice([0, 1, 3])
            elif kind == "dict":
                parent[key] = {"a": parent[key]}
            elif kind == "nest":
                x = parent[key]
                for _ in range(rng.choice([10, 200, 3000])):
                    x = [x]
                parent[key] = x
            elif kind == "dup" and isinstance(parent, list):
                parent.append(parent[key])
            elif kind == "emptylist" and isinstance(parent[key], list):
                parent[key] = []
            elif kind == "shortlist" and isinstance(parent[key], list):
                parent[key] = parent[key][:len(parent[key]) // 2]
            elif kind == "longlist" and isinstance(parent[key], list):
                parent[key] = parent[key] + parent[key][:3]
            elif kind == "float":
                parent[key] = rng.choice([0.5, 1e308, -1e-320, 3.0])
            elif kind == "bool":
                parent[key] = rng.choice([True, False])
            elif kind == "emptystr":
                parent[key] = ""
            try:
                out.append(json.dumps(d).encode())
            except (RecursionError, ValueError):
                pass
        except (KeyError, IndexError, TypeError):
            pass
    # every list-valued field: emptied / halved / extended (length invariants between parallel arrays)
    for path in paths:
        if not path:
            continue
        try:
            if isinstance(get(doc, path), list) and get(doc, path) and not isinstance(get(doc, path)[0], (dict, list)):
                for how in ("empty", "half", "extend"):
                    d = json.loads(text)
                    parent = get(d, path[:-1])
                    v = parent[path[-1]]
                    parent[path[-1]] = [] if how == "empty" else (v[:len(v) // 2] if how == "half" else v + v[:3])
                    out.append(json.dumps(d).encode())
        except (KeyError, IndexError, TypeError):
            pass
    # nesting bomb and junk
    out.append(b"[" * 100000)
    out.append(b"{\"a\":" * 50000)
    out.append(text.encode()[:len(text) // 2] + b"\x00\xff" + text.encode()[len(text) // 2:])
    return out


def csv_mutations(b, rng, n):
    lines = b.decode("utf-8", "replace").split("\n")
    out = [b"", b"\n", b",,,\n", b"\xff\xfe\x00garbage", lines[0].encode() + b"\n"]
    for _ in range(n):
        ls = list(lines)
        k = rng.choice(["dropcol", "addcol", "dropheader", "dupheader", "quote", "longfield", "shuffle", "comment", "nul"])
        try:
            i = rng.randrange(len(ls))
            cells = ls[i].split(",")
            if k == "dropcol" and cells:
                cells.pop(rng.randrange(len(cells)))
                ls[i] = ",".join(cells)
            elif k == "addcol":
                cells.insert(rng.randrange(len(cells) + 1), "zz")
                ls[i] = ",".join(cells)
            elif k == "dropheader":
                ls = ls[1:]
            elif k == "dupheader":
                ls = [ls[0]] + ls
            elif k == "quote":
                ls[i] = ls[i] + '"'
            elif k == "longfield":
                ls[i] = ls[i] + "," + "A" * 200000
            elif k == "shuffle":
                rng.shuffle(ls)
            elif k == "comment":
                ls[0] = "# SOURMASH-MANIFEST-VERSION: 99.0"
            elif k == "nul":
                ls[i] = ls[i][:len(ls[i]) // 2] + "\x00" + ls[i][len(ls[i]) // 2:]
            out.append("\n".join(ls).encode())
        except (IndexError, ValueError):
            pass
    return out


def rezip(seed, rng, member_mutator):
    out = []
    try:
        zf = zipfile.ZipFile(io.BytesIO(seed))
        names = zf.namelist()
        for _ in range(6):
            victim = rng.choice(names)
            buf = io.BytesIO()
            with zipfile.ZipFile(buf, "w") as zo:
                for n in names:
                    data = zf.read(n)
                    if n == victim:
                        k = rng.random()
                        if k < 0.15:
                            continue            # member deleted
                        data = member_mutator(n, data)
                    zo.writestr(n, data)
                    if n == victim and rng.random() < 0.15:
                        import warnings
                        with warnings.catch_warnings():
                            warnings.simplefilter("ignore")
                            zo.writestr(n, data)   # member duplicated
            out.append(buf.getvalue())
    except (zipfile.BadZipFile, KeyError):
        pass
    return out


def mutations(kind, seed, rng, n):
    res = []
    for _ in range(n):
        r = rng.random()
        if r < 0.4:
            res.append(flip(seed, rng, rng.choice([1, 1, 2, 8])))
        elif r < 0.7:
            res.append(truncate(seed, rng))
        else:
            res.append(insert(seed, rng))
    if kind in ("nodegraph",):
        for off in range(0, len(seed)):
            for val in (2 ** 40, 2 ** 63, 2 ** 64 - 1, 0, 2 ** 32):
                res.append(inflate_at(seed, off, val))
    if kind in ("sqldb", "zip", "sbtzip"):
        for _ in range(n // 2):
            res.append(inflate_at(seed, rng.randrange(max(1, len(seed) - 8)), rng.choice([2 ** 40, 2 ** 63, 2 ** 64 - 1, 0])))
    if kind in ("sig", "lca", "sbtjson"):
        res += json_mutations(seed.decode("utf-8", "replace"), rng, n)
    if kind == "siggz":
        try:
            inner = gzip.decompress(seed)
            for m in json_mutations(inner.decode("utf-8", "replace"), rng, n // 2)[:n]:
                res.append(gzip.compress(m))
            res.append(gzip.compress(b""))
            res.append(seed + seed)
        except OSError:
            pass
    if kind in ("manifest", "picklist", "taxonomy"):
        res += csv_mutations(seed, rng, n)
    if kind in ("zip", "sbtzip"):
        def mm(name, data):
            k = rng.random()
            if name.endswith((".sig", ".sig.gz", ".json")) and k < 0.5:
                try:
                    raw = gzip.decompress(data) if data[:2] == b"\x1f\x8b" else data
                    ms = json_mutations(raw.decode("utf-8", "replace"), rng, 2)
                    m = rng.choice(ms)
                    return gzip.compress(m) if data[:2] == b"\x1f\x8b" else m
                except (OSError, IndexError):
                    return flip(data, rng, 2)
            if name.endswith(".csv") and k < 0.7:
                ms = csv_mutations(data, rng, 2)
                return rng.choice(ms)
            if k < 0.85:
                if len(data) > 16:
                    return inflate_at(data, rng.randrange(len(data) - 8), rng.choice([2 ** 40, 2 ** 63, 2 ** 64 - 1]))
                return flip(data, rng, 1)
            return truncate(data, rng)
        res += rezip(seed, rng, mm)
    # de-duplicate, drop the unmodified seed
    seen = set()
    out = []
    for m in res:
        if m != seed and m not in seen:
            seen.add(m)
            out.append(m)
    return out


# ---------------------------------------------------------------------------------- isolated workers

def run_worker(jobs, pkg):
    """jobs: list of (kind, path).  Returns list of outcome strings, one per job
    ('ok..', 'exc X', 'signal N', 'timeout', with optional sentinel suffix)."""
    env = dict(os.environ, PYTHONPATH=pkg, PYTHONHASHSEED="0")
    outcomes = []
    i = 0
    while i < len(jobs):
        p = subprocess.Popen([common.PY, os.path.join(common.VERIF, "harness", "c20", "worker.py")],
                             stdin=subprocess.PIPE, stdout=subprocess.PIPE, stderr=subprocess.DEVNULL, env=env, text=True)
        try:
            while i < len(jobs):
                kind, path = jobs[i]
                try:
                    p.stdin.write(f"{kind} {path}\n")
                    p.stdin.flush()
                except BrokenPipeError:
                    pass
                r, _, _ = select.select([p.stdout], [], [], PER_FILE_TIMEOUT)
                if not r:
                    p.kill()
                    p.wait()
                    outcomes.append("timeout")
                    i += 1
                    break
                line = p.stdout.readline()
                if not line:
                    rc = p.wait()
                    outcomes.append(f"signal {-rc}" if rc < 0 else f"died exit={rc}")
                    i += 1
                    break
                outcomes.append(line.rstrip("\n"))
                i += 1
        finally:
            if p.poll() is None:
                try:
                    p.stdin.close()
                except OSError:
                    pass
                try:
                    p.wait(timeout=10)
                except subprocess.TimeoutExpired:
                    p.kill()
    return outcomes


def _worker_entry(args):
    return run_worker(*args)


def main():
    chk = common.Check("C20", TB, AS)
    pkg = chk.build()
    chk.translate()
    chk.prove()
    tmp = os.path.join(common.BUILD, "tmp", f"c20_{os.getpid()}")
    shutil.rmtree(tmp, ignore_errors=True)
    os.makedirs(tmp)
    try:
        seeddir = os.path.join(tmp, "seed")
        r = subprocess.run([common.PY, os.path.join(common.VERIF, "harness", "c20", "seeds.py"), seeddir],
                           env=dict(os.environ, PYTHONPATH=pkg), stdout=subprocess.PIPE, stderr=subprocess.PIPE, text=True)
        if r.returncode != 0:
            chk.exit_tool("cannot create seed files: " + r.stderr[-1500:])
        seeds = [l.split(" ", 1) for l in r.stdout.strip().split("\n") if " " in l]
        jobs = []
        meta = []
        if chk.replay:
            p = chk.replay if os.path.isabs(chk.replay) else os.path.join(common.VERIF, chk.replay)
            d = json.load(open(p))["data"]
            kind, data = d["kind"], base64.b64decode(d["bytes_b64"])
            seeds = []
            path = os.path.join(tmp, "replay" + d.get("suffix", ""))
            open(path, "wb").write(data)
            jobs.append((kind, path))
            meta.append((kind, data, d.get("suffix", "")))
        n = 60 if chk.tier == "quick" else 1500
        kinds = {}
        for kind, path in seeds:
            if kind == "sbtjson":
                # the json refers to a hidden directory of node files next to it: copy the whole directory per mutant
                pass
            seed = open(path, "rb").read()
            suffix = path[path.index(".", len(os.path.dirname(path))):]
            jobs.append((kind, path))          # the unmodified seed must load
            meta.append((kind, seed, suffix))
            muts = mutations(kind, seed, chk.rng, n)
            kinds[kind] = len(muts)
            for j, m in enumerate(muts):
                d = os.path.join(tmp, f"{kind}_{j}")
                os.makedirs(d)
                mp = os.path.join(d, "m" + suffix)
                if kind == "sbtjson":
                    # keep the node directory reachable
                    sd = os.path.dirname(path)
                    for f in os.listdir(sd):
                        if f.startswith(".sbt.") and os.path.isdir(os.path.join(sd, f)):
                            name = ".sbt." + "m" + suffix[:-len(".sbt.json")] if False else f
                            shutil.copytree(os.path.join(sd, f), os.path.join(d, f), dirs_exist_ok=True)
                    mp = os.path.join(d, os.path.basename(path))
                with open(mp, "wb") as f:
                    f.write(m)
                jobs.append((kind, mp))
                meta.append((kind, m, suffix))
        # distribute over workers
        nw = 16
        chunks = [list(range(i, len(jobs), nw)) for i in range(nw)]
        chunks = [c for c in chunks if c]
        res = common.par_map(_worker_entry, [([jobs[i] for i in c], pkg) for c in chunks], procs=len(chunks))
        outcome = [None] * len(jobs)
        for c, r in zip(chunks, res):
            for i, o in zip(c, r):
                outcome[i] = o
        # nodegraph files also go through the Lean model
        ng_idx = [i for i, (k, _) in enumerate(jobs) if k == "nodegraph"]
        text = "# case\n" + "".join("ng " + meta[i][1].hex() + "\n" for i in ng_idx)
        model = common.run_model("ng", text)[1:]
        stats = {}
        distinct = 0
        nv = 0
        for i, ((kind, path), (k2, data, suffix), o) in enumerate(zip(jobs, meta, outcome)):
            chk.cov["evaluations"] += 1
            cls = (o or "none").split(" ")[0]
            stats.setdefault(kind, {}).setdefault(cls if cls != "exc" else o, 0)
            stats[kind][cls if cls != "exc" else o] += 1
            if o is not None and not o.startswith("none"):
                distinct += 1
            is_seed = any(path == sp for _, sp in seeds)
            rp = {"kind": kind, "suffix": suffix, "bytes_b64": base64.b64encode(data).decode(), "outcome": o,
                  "how": "write the bytes to a file with this suffix and load it as harness/c20/worker.py does"}
            if o is None or o.startswith(("signal", "timeout", "died")):
                nv += 1
                detail = ""
                if kind == "sbtjson" and o == "timeout":
                    try:
                        dd = json.loads(data).get("d")
                        if isinstance(dd, int) and dd > 10 ** 6:
                            detail = ":huge-d"
                    except (ValueError, AttributeError):
                        pass
                chk.add_violation("crash", f"C20:{kind}:{(o or 'none').split()[0]}{detail}",
                                  f"loading a damaged {kind} file ({len(data)} bytes) ended the worker: {o}", rp)
            elif "SENTINEL" in o:
                nv += 1
                chk.add_violation("crash", f"C20:{kind}:sentinel", f"after a failed load of a damaged {kind} file the process is damaged: {o}", rp)
            elif o.startswith("exc SystemExit"):
                # sys.exit() from library code on bad input is not an 'ordinary catchable error'
                chk.add_violation("oracle", f"C20:{kind}:SystemExit", f"loading a damaged {kind} file called sys.exit() instead of raising", rp)
            elif o.startswith("exc MemoryError"):
                chk.add_violation("oracle", f"C20:{kind}:{o.split()[1]}", f"loading a damaged {kind} file ({len(data)} bytes) exhausted a resource: {o}", rp)
            elif is_seed and not o.startswith("ok"):
                chk.add_violation("oracle", f"C20:{kind}:seed-rejected", f"the unmodified valid {kind} seed file was rejected: {o}", rp)
        for i, m in zip(ng_idx, model):
            o = outcome[i] or ""
            chk.cov["traces_validated_against_impl"] += 1
            if m == "skip":
                continue
            impl_cls = "ok" if o.startswith("ok") else "err"
            if m.split(" ")[0] != impl_cls or (impl_cls == "ok" and " " in o and m != o):
                chk.add_violation("correspondence", "C20:corr:nodegraph-reader",
                                  f"reader model says `{m[:80]}` but the implementation says `{o[:80]}` for a {len(meta[i][1])}-byte nodegraph file",
                                  {"kind": "nodegraph", "suffix": ".ng", "bytes_b64": base64.b64encode(meta[i][1]).decode(), "model": m, "impl": o},
                                  concrete=False)
        chk.cov["distinct_nontrivial"] = distinct
        chk.cov["rule"] = RULE
        chk.cov["outcomes_by_kind"] = stats
        chk.cov["mutants_by_kind"] = kinds
        chk.cov["samples"] = [{"kind": jobs[i][0], "bytes": len(meta[i][1]), "outcome": outcome[i]} for i in range(0, len(jobs), max(1, len(jobs) // 8))][:8]
        chk.cov["explanation"] = ("theorem part: obligations/discharged (Props/C20.lean); testing part: crash-isolated loads of mutated files "
                                  "(evaluations) and model-vs-reader outcome comparison for nodegraph files (traces_validated_against_impl)")
    finally:
        shutil.rmtree(tmp, ignore_errors=True)
    chk.finish()


if __name__ == "__main__":
    main()
