#!/usr/bin/env python3
"""C11 - a signature's md5 identity is a function of its current content only."""
import os, sys
sys.path.insert(0, os.path.dirname(os.path.abspath(__file__)))
sys.path.insert(0, os.path.dirname(os.path.dirname(os.path.abspath(__file__))))
import common
import streamlib
from streams import mh

TB = [
    "Lean 4.33 kernel; axioms allowed: propext, Classical.choice, Quot.sound (checked by #print axioms on every theorem)",
    "md5 is not modelled: the model caches the pre-image (ksize, mins); the harness applies hashlib.md5 to it. 'changed hash set => changed md5' holds modulo md5 collisions",
    "hand-written model of the md5 cache (MH.md5) and of every reset_md5sum() call site, tied to /repo by the mh stream with md5 queries interleaved (differential testing); harness/translators/mhcore.py re-extracts every write to self.mins / self.ksize in every &mut self method of KmerMinHash and KmerMinHashBTree and whether a reset_md5sum() lies on every way out of it, the delegating methods, the shape of md5sum / reset_md5sum / Clone and the FFI callees (theorems every_mutation_site_resets, mutators_are_the_modelled_ones, delegators_are_the_modelled_ones, reset_sites_match_model, md5_shape_matches_model)",
    "signature objects are modelled as cells holding their own sketch value (clone in / clone out); name and filename are not md5 inputs",
    "Rust Mutex<Option<String>> semantics; cffi",
]
AS = ["md5 queries observed two ways: kmerminhash_md5sum on the object itself, and SourmashSignature(mh).md5sum() (clone in, clone out)"]
RULE = ("mh-stream histories with ~30% md5 queries (direct and via a signature) interleaved with every mutator; the oracle "
        "recomputes md5(str(ksize) + concat(str(h))) from the hashes the implementation itself reports after each op; "
        "non-trivial = >= 3 state-changing ops; distinct = distinct op lists")

def btree_md5(chk, pkg):
    """The tree-backed sketch (KmerMinHashBTree: what `SourmashSignature.from_params`, `sourmash sketch` / `compute`
    and `signature_add_sequence` build and feed) has an md5 cache of its own, and `From<&KmerMinHashBTree> for
    KmerMinHash` (behind `signature_first_mh`, i.e. Python's `sig.minhash` / `sig.md5sum()`) decides whether a cached
    digest is handed over.  The C14 twin stream runs every history through the real array-backed AND tree-backed
    sketch (rust-harness) and prints the md5 of both after every op (so the caches are always filled before the next
    mutation): a pair of answers with EQUAL content and DIFFERENT md5 is a stale digest (seeded C11d)."""
    from streams import twin
    n = 150 if chk.tier == "quick" else 3000
    cases = [twin.gen_case(chk.rng, "excl") for _ in range(n)]
    res = streamlib.run_cases(twin, cases, pkg, procs=16)
    k = 0
    for case, impl, model, crash in res:
        chk.cov["evaluations"] += 1
        if crash is not None:
            chk.add_violation("crash", "C11:btree:adapter-crash", "rust-harness died on a twin history", {"case": case})
            continue
        chk.cov["traces_validated_against_impl"] += 1
        k += 1
        for idx, (op, obs) in enumerate(zip(case, impl)):
            halves = obs.split(" | ")
            if len(halves) != 2:
                continue
            a, b = twin.parse_half(halves[0]), twin.parse_half(halves[1])
            if not a or not b or "md5" not in a or "md5" not in b:
                continue
            same_content = all(a.get(f) == b.get(f) for f in ("num", "mh", "tr", "mins", "ab"))
            digest = common.md5_of_pre(int(case_ksize(case, op, a)), [int(x) for x in a["mins"].split(",")] if a.get("mins") else []) \
                if case_ksize(case, op, a) is not None else None
            if same_content and a["md5"] != b["md5"]:
                which = "tree-backed" if digest is None or b["md5"] != digest else "array-backed"
                chk.add_violation("oracle", "C11:stale-md5:btree",
                                  f"after `{op}` both sketches hold the same content but report md5 {a['md5']} (array-backed) and "
                                  f"{b['md5']} (tree-backed): the {which} one answers from a stale cache "
                                  f"(history: {[c.split()[0] for c in case[max(0, idx - 6):idx]]})",
                                  {"case": case[:idx + 1], "impl": impl[:idx + 1], "op_index": idx})
                break
    chk.cov["btree_twin_cases"] = k


def case_ksize(case, op, half):
    """k-mer size of the sketch an observation is about, if the observation carries it"""
    return half.get("k") or half.get("ksize")


if __name__ == "__main__":
    import rust_harness
    try:
        rust_harness.build()           # the tree-backed twin is executed through the out-of-tree Rust harness
    except SystemExit:
        print("TOOL-FAILURE property=C11 rust harness does not build against the working tree")
        sys.exit(2)
    streamlib.run_property("C11", mh, ["md5", "md5", "setops"], mh.oracle_md5, 1500, 60000, TB, AS, RULE, nontrivial=mh.nontrivial, extra=btree_md5)
