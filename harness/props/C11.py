#!/usr/bin/env python3
"""C11 - a signature's md5 identity is a function of its current content only."""
import os, sys
sys.path.insert(0, os.path.dirname(os.path.abspath(__file__)))
sys.path.insert(0, os.path.dirname(os.path.dirname(os.path.abspath(__file__))))
import streamlib
from streams import mh

TB = [
    "Lean 4.33 kernel; axioms allowed: propext, Classical.choice, Quot.sound (checked by #print axioms on every theorem)",
    "md5 is not modelled: the model caches the pre-image (ksize, mins); the harness applies hashlib.md5 to it. 'changed hash set => changed md5' holds modulo md5 collisions",
    "hand-written model of the md5 cache (MH.md5) and of every reset_md5sum() call site, tied to /repo by the mh stream with md5 queries interleaved (differential testing); harness/translators/mhcore.py re-extracts every write to self.mins / self.ksize in every &mut self method of KmerMinHash and KmerMinHashBTree and whether a reset_md5sum() lies on every way out of it, the delegating methods, the shape of md5sum / reset_md5sum / Clone and the FFI callees (theorems every_mutation_site_resets, mutators_are_the_modelled_ones, delegators_are_the_modelled_ones, reset_sites_match_model, md5_shape_matches_model)",
    "signature objects are modelled as cells holding their own sketch value (clone in / clone out); name and filename are not md5 inputs",
    "Rust Mutex<Option<String>> semantics; cffi",
]
AS = ["md5 queries observed two ways: kmerminhash_md5sum on the object itself, and SourmashSignature(mh).md5sum() (clone in, clone out)"]
RULE = ("mh-stream histories with ~30% md5 queries (direct and via a signature) interleaved with every mutator; the oracle "
        "recomputes md5(str(ksize) + concat(str(h))) from the hashes the implementation itself reports after each op; "
        "non-trivial = >= 3 state-changing ops; distinct = distinct op lists")

if __name__ == "__main__":
    streamlib.run_property("C11", mh, ["md5", "md5", "setops"], mh.oracle_md5, 1500, 60000, TB, AS, RULE, nontrivial=mh.nontrivial)
