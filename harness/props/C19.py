#!/usr/bin/env python3
"""C19 - taxonomic summaries conserve the gather fractions at every rank."""
import os, sys
sys.path.insert(0, os.path.dirname(os.path.abspath(__file__)))
sys.path.insert(0, os.path.dirname(os.path.dirname(os.path.abspath(__file__))))
import streamlib
from streams import tax

TB = [
    "Lean 4.33 kernel; axioms allowed: propext, Classical.choice, Quot.sound (checked by #print axioms on every theorem)",
    "exact integer model of IEEE-754 binary64 division / addition / subtraction / multiplication (lean/SmVerif/Model/Float64.lean: divNat, fadd, SF.subF, fmul); assumes CPython int/int true division, float +,-,* and float(str(x)) round-trips are correctly rounded (IEEE-754); fadd/subF/fmul are compared with CPython on generated operands in every run (ops fa/fs/fm)",
    "hand-written model of tax_utils (get_ident, LineageDB.load, summarize_up_ranks, build_summarized_result, check_values, build_classification_result, writer ordering) tied to /repo by the tax stream: exact (bit-for-bit) comparison of every reported double, row order included",
    "hypotheses of the theorems = what gather guarantees about its own rows (f_i = k_i/N, f_weighted_i = w_i/W, bp_i = k_i*scaled, positive pairwise-disjoint unique overlaps, sum k_i <= N, all found iff all weight found): this is property C07; the adapter re-checks on every case that the gather rows it obtains by RUNNING gather have exactly this form",
    "kreport / bioboxes / human number formatting is modelled exactly (fmul, int(), '%.2f' / '%.1f' as round-half-even of the exact binary value: CPython's float formatting is assumed correctly rounded); multi-query runs are modelled (one gather CSV per query, krona / lineage_summary / csv_summary aggregation)",
    "the writers are modelled as operations on ONE shared QueryTaxResult (make_full_summary / make_human_summary sort the per-rank lists in place; kreport, bioboxes, krona, lineage_summary read them): the stream runs random sequences of writers on one object and requires each output to equal the same writer's output on a fresh object, and runs `tax metagenome -F <random subset / thorough: every subset>` comparing every file with the in-process writer run in the command's own order",
    "load_gather_results' grouping of CSV rows into one result per query is modelled as the code does it (dictionary lookup by query name, first-appearance order, a query arriving in a second file refused, empty file refused, per-row --fail-on-missing-taxonomy); multi-query cases are delivered as one CSV per query AND as one CSV with the queries' rows interleaved / shuffled, as several CSVs, with a query split over files, with a repeated row, with an empty CSV; the oracle sums each query's rows by query name independently of the loader; gather CSVs with essential or optional columns removed are covered (op dropcols)",
    "periphery: the adapter alternates, under a per-case counter the model does not see, equivalent spellings and file shapes (taxonomy id column ident/identifiers/accession, extra and reordered columns, taxpath taxids, gather name/match_name, MultiLineageDB.load vs LineageDB.load+add, check_and_load_gather_csvs(list|str) vs load_gather_results, summarize_up_ranks+build vs build); asserts after every build / classification that the views of the object agree (totals vs entries, sums vs entries, classification vs its summary/human/krona rows); keeps every result object and re-verifies all of them at the end of the case (xrecheck); one QueryTaxResult is re-summarised / re-classified / written repeatedly (snew, sbuild, scls + writers) with every writer compared with a fresh object; further routes as oracle-checked ops: tax annotate + with-lineages taxonomy, sqlite taxonomy, lingroup report, genome --lingroup, CLI --from-file / duplicated -g / --force with a bad file / stdout output",
    "csv module, FileInputCSV, argparse; ANI estimation (containment_to_distance) is not modelled (property C17)",
]
AS = [
    "never_rejected for the strict tolerance repair (v2) is proved under: fewer than 2^22 gather rows and rows x total query abundance < 2^51 (4*n*W*2^-53 < 1); outside that range a rejection 'fraction is <=0%' on the remainder remains possible",
    "lingroup restriction and lingroup reports are not modelled",
    "taxid columns (taxpath) and lingroup restriction are not generated",
    "reported doubles are compared with the exact rational sums with tolerance 1e-12 in the oracle (declared in streams/tax.py); model vs implementation comparison is exact",
    "a containment threshold exactly equal (as a rational) to a summed fraction is skipped by the oracle: the float comparison may fall either side",
]
RULE = ("a generated taxonomy (standard ranks with missing ranks and null names, ICTV, LIN; identifiers with/without versions and descriptions; "
        "matches absent from the taxonomy; duplicated identifiers) and a gather result produced by running gather itself on generated sketches "
        "(fully classified queries incl. the rounding-critical partitions, many small matches, ties, overlapping matches, abundance-weighted queries, "
        "unidentified hashes); observed: load counts, the summarised table at every rank and at a single rank, csv_summary / krona / lineage_summary "
        "through the real writers, classification at several thresholds and ranks, the same after permuting the gather rows, kreport / bioboxes / human / "
        "lineage_csv / ANI-threshold classification / the command line (implementation-only, oracle-checked); non-trivial = >= 2 gather rows and a table or a "
        "rejection observed; distinct = distinct op lists")

FLAVOURS = ["d18", "full", "small", "ties", "mixed", "abund", "overlap", "lin", "ictv", "mixed", "multi", "abund", "cli", "multi"]


def extra(chk, pkg):
    h = tax._helper
    if h is not None:
        try:
            h.stdin.close()
            h.wait(timeout=10)
        except Exception:      # noqa: BLE001
            h.kill()


if "--tier" in sys.argv and sys.argv[sys.argv.index("--tier") + 1] == "thorough" or os.environ.get("VERIF_TIER") == "thorough":
    FLAVOURS = FLAVOURS + ["cliall"]          # thorough: every combination of output formats through the CLI


if __name__ == "__main__":
    streamlib.run_property("C19", tax, FLAVOURS, tax.oracle, 800, 12000, TB, AS, RULE,
                           nontrivial=tax.nontrivial, extra=extra, classify=tax.classify)
