#!/usr/bin/env python3
"""C08 - search and gather results do not depend on how the database is organised."""
import os, sys
sys.path.insert(0, os.path.dirname(os.path.abspath(__file__)))
sys.path.insert(0, os.path.dirname(os.path.dirname(os.path.abspath(__file__))))
import streamlib
from streams import partition

TB = [
    "Lean 4.33 kernel; axioms allowed: propext, Classical.choice, Quot.sound (checked by #print axioms on every theorem)",
    "the gather model of C07 (lean/SmVerif/Model/Gather.lean) and the model of Index.search / search_databases_with_flat_query / multi-database prefetch (lean/SmVerif/Model/Search.lean), tied to /repo by the partition stream",
    "the model treats every container (LinearIndex, zip, SBT, LCA database, SqliteIndex) as the list of its signatures: that each container's find() returns what a linear scan returns is property C06's subject; here it is exercised (canonical multisets of (md5, score) compared between model, implementation and all organisations of a case)",
    "gather over containers whose iteration order is internal (SBT / LCA / SQLite) and all `xgd` runs are compared by the oracle only (same picks unless exactly tied, same numbers given the same pick)",
    "floats as in C07",
]
AS = ["gather: database sketches share one scaled value", "threshold_bp integer >= 0; search thresholds are quotients of small integers",
      "with best_only=True only the top score is compared (the API documents that further rows may be dropped)"]
RULE = ("one case = query + 2-10 sketches + a reference organisation (one LinearIndex) and 2-3 random organisations into 1-4 collections of random types "
        "and insertion orders; search (3 score functions, thresholds on k/n boundaries, best-only), multi-database prefetch, gather in prefetch and on-demand "
        "mode against every organisation; non-trivial = >= 4 reported gather rounds or >= 2 non-empty searches across organisations; distinct = distinct op lists")

def extra(chk, pkg):
    """thorough tier: the command line (`sourmash search | prefetch | gather`, --containment / --max-containment,
    --no-prefetch, --ignore-abundance) on files, one invocation per organisation, judged by the same oracle"""
    import cli_lib, common
    if chk.tier != "thorough":
        # quick tier: a slice of cases through `sourmash search | prefetch | gather`, IN-PROCESS
        # (sourmash.__main__.main(argv) inside adapters/cli_server.py), the collections written in all the ways the
        # command line accepts them; rows against the in-process API of the same case and against each other
        n = int(os.environ.get("VERIF_C08_QCLI", "21"))
        FK = ["sig", "zip", "zipnm", "dir", "multi", "pl", "mf"]
        cases, kl = [], []
        for i in range(n):
            c = partition.gen_case(chk.rng, partition.FLAVOURS[i % len(partition.FLAVOURS)])
            kinds, j = {}, i
            for l in c:
                w = l.split()
                if w[0] == "xdb" and w[2] in ("lin", "lazy", "zip") and len(w) > 3:
                    kinds[w[1]] = FK[j % len(FK)]
                    j += 1
            cases.append(c)
            kl.append(kinds)
        res = streamlib.run_cases(partition, cases, pkg, procs=4, per_proc_min=5)
        byc = {id(c): k for c, k in zip(cases, kl)}
        jobs = [(c, i, byc[id(c)]) for c, i, m, cr in res if cr is None]
        nb = 6
        outs = common.par_map(cli_lib.quick_partition_batch,
                              [([(c, i, k) for c, i, k in jobs[j::nb]], pkg) for j in range(nb) if jobs[j::nb]], procs=nb)
        ninv = 0
        for batch in outs:
            for bad in batch:
                chk.cov["evaluations"] += 1
                for sig, msg, data in bad:
                    chk.add_violation("cli", sig, msg, data)
        chk.cov["cli_inprocess_cases"] = len(jobs)
        chk.cov["cli_inprocess_invocations"] = sum(
            sum(1 for l in c if l.split()[0] in ("searchc", "xpfc", "xsa", "xgd")) for c, _, _ in jobs)
        return
    n = int(os.environ.get("VERIF_C08_CLI", "64"))
    cases = [partition.gen_case(chk.rng, partition.FLAVOURS[i % len(partition.FLAVOURS)]) for i in range(n)]
    out = common.par_map(cli_lib.cli_partition_case, [(c, pkg) for c in cases], procs=16)
    for c, bad in zip(cases, out):
        chk.cov["evaluations"] += 1
        for sig, msg, data in bad:
            chk.add_violation("cli", sig, msg, data)
    chk.cov["cli_partition_cases"] = len(cases)


if __name__ == "__main__":
    streamlib.run_property("C08", partition, partition.FLAVOURS, partition.oracle, 700, 8000, TB, AS, RULE,
                           nontrivial=partition.nontrivial, classify=partition.classify, extra=extra)
