#!/usr/bin/env python3
"""C03 - downsampling equals sketching at the coarser resolution, for every scaled value."""
import os, sys
sys.path.insert(0, os.path.dirname(os.path.abspath(__file__)))
sys.path.insert(0, os.path.dirname(os.path.dirname(os.path.abspath(__file__))))
import streamlib
from streams import scaled

TB = [
    "Lean 4.33 kernel; axioms allowed: propext, Classical.choice, Quot.sound (checked by #print axioms on every theorem)",
    "exact integer model of IEEE-754 binary64 division / int conversion / rounding (lean/SmVerif/Model/Float64.lean); assumes the hardware division and Python int/int true division are correctly rounded (IEEE-754, CPython long_true_divide)",
    "translator: which numerator and which rounding each of max_hash_for_scaled / scaled_for_max_hash (Rust) and _get_max_hash_for_scaled / _get_scaled_for_max_hash (Python) uses is re-read from the source on every run",
    "hand-written MinHash model tied to /repo by the scaled stream (every conversion pipeline: new, .scaled, copy, pickle, downsample, count_common(downsample=True) in both directions)",
]
AS = ["scaled values above 2^31 are outside the proved range: above 2^31.5 the stored max_hash does not determine scaled (known finding D22)"]
RULE = ("for a scaled value S and a finer S1 <= S: create, copy, pickle, fill a finer sketch with hashes straddling both thresholds, "
        "downsample explicitly, build directly at S, compare implicitly (count_common downsample=True, both directions); S drawn "
        "uniformly from 1..2^21, from the values where a truncating inverse fails (93, 99, ...), from 2^21..2^31 and from 2^31..2^32; "
        "non-trivial = the downsampled sketch retains >= 2 hashes; distinct = distinct op lists. thorough adds the contiguous sweep 1..2^21")


def implicit_in_indexes(chk, pkg):
    """`search`, `prefetch` and best-match over collections that MIX scaled values downsample implicitly, per pair:
    every answer must equal the score computed after explicit downsampling (brute force).  Reuses the C06 search
    stream (its adapter, driver and set-based oracle) on its mixed-scaled flavours, both storage orders."""
    from streams import search
    n = 120 if chk.tier == "quick" else 1500
    cases = [search.gen_case(chk.rng, ["order", "mixed", "order"][i % 3]) for i in range(n)]
    res = streamlib.run_cases(search, cases, pkg, procs=16)
    k = 0
    for case, impl, model, crash in res:
        chk.cov["evaluations"] += 1
        if crash is not None:
            chk.add_violation("crash", "C03:index:adapter-crash", "real code died on a mixed-scaled search case", {"case": case})
            continue
        chk.cov["traces_validated_against_impl"] += 1
        k += 1
        for idx, sig, msg in search.oracle(case, impl):
            if sig.startswith("skip:"):
                continue
            # findings that belong to C06 alone (threshold conversion of prefetch) keep their C06 identity
            if "prefetch-bp-threshold" in sig:
                continue
            chk.add_violation("oracle", "C03:implicit-downsample-in-index:" + sig.split(":", 1)[1], msg,
                              {"case": case[:idx + 1], "impl": impl[:idx + 1], "op_index": idx})
    chk.cov["index_level_cases"] = k


def lca_downsample(chk, pkg):
    """`LCA_Database.downsample_scaled` (what `load_databases` applies to every LCA database it is given): after it,
    signatures / hash assignments / identifiers must equal those of a database built directly at the coarser value,
    also when sketches had been reconstructed (cached) before, and when the downsample drops nothing (seeded C03c).
    Reuses the C18 lca stream's `down` flavour (its adapter, driver and relation oracle)."""
    from streams import lca
    n = 60 if chk.tier == "quick" else 800
    cases = [lca.gen_case(chk.rng, "down") for _ in range(n)]
    res = streamlib.run_cases(lca, cases, pkg, procs=16)
    k = 0
    for case, impl, model, crash in res:
        chk.cov["evaluations"] += 1
        if crash is not None:
            chk.add_violation("crash", "C03:lca:adapter-crash", "real code died on an LCA downsample case", {"case": case})
            continue
        chk.cov["traces_validated_against_impl"] += 1
        k += 1
        for idx, sig, msg in lca.oracle(case, impl):
            if sig.startswith("skip:") or "downsample" not in sig:
                continue                                  # everything else is C18's business
            if sig.startswith("C18:sql-downsample"):
                continue                                  # known finding C18.3 keeps its C18 identity
            chk.add_violation("oracle", "C03:lca-downsample:" + sig.split(":", 1)[1], msg,
                              {"case": case[:idx + 1], "impl": impl[:idx + 1], "op_index": idx})
    chk.cov["lca_downsample_cases"] = k


def gather_mixed(chk, pkg):
    """gather over databases whose scaled differs from the query's (and from each other's): the comparison scaled
    coarsens during the run and every counter / candidate is downsampled implicitly; the run must succeed and
    report what explicit downsampling gives (seeded C03e: a candidate memoised at the finer scaled raised
    ValueError in a later round).  Reuses the C07 gather stream (adapter, driver, accounting oracle) on its
    mixed / coarser / finer flavours."""
    from streams import gather
    n = 150 if chk.tier == "quick" else 2000
    cases = [gather.gen_case(chk.rng, ["mixed", "coarser", "finer"][i % 3]) for i in range(n)]
    res = streamlib.run_cases(gather, cases, pkg, procs=16)
    k = 0
    for case, impl, model, crash in res:
        chk.cov["evaluations"] += 1
        if crash is not None:
            chk.add_violation("crash", "C03:gather:adapter-crash", "real code died on a mixed-scaled gather case", {"case": case})
            continue
        chk.cov["traces_validated_against_impl"] += 1
        k += 1
        for idx, sig, msg in gather.oracle(case, impl):
            if sig.startswith("skip:"):
                continue
            # only failures of the implicit downsampling itself; accounting and threshold findings keep their C07 identity
            if "mixed-scaled-gather-raises" in sig or "mismatch" in sig or "scaled" in sig.split(":", 1)[1]:
                if any(t in sig for t in ("D6", "threshold", "f_unique", "fractions")):
                    continue
                chk.add_violation("oracle", "C03:implicit-downsample-in-gather:" + sig.split(":", 1)[1], msg,
                                  {"case": case[:idx + 1], "impl": impl[:idx + 1], "op_index": idx})
    chk.cov["gather_mixed_cases"] = k


def extra(chk, pkg):
    """quick+thorough: index-level implicit downsampling, LCA database downsampling; thorough: the contiguous sweep
    1..2^21 on the implementation against the model"""
    implicit_in_indexes(chk, pkg)
    lca_downsample(chk, pkg)
    gather_mixed(chk, pkg)
    if chk.tier != "thorough":
        return
    import random
    rng = random.Random(chk.seed)
    N = int(os.environ.get("VERIF_C03_SWEEP", str(2 ** 21)))
    step = 4096
    bad = 0
    for lo in range(1, N + 1, step * 16):
        cases = []
        for S in range(lo, min(lo + step * 16, N + 1)):
            S1 = max(1, S - 1) if S % 2 else max(1, S // 2)
            cases.append(scaled.case_for(S, S1, rng))
        res = streamlib.run_cases(scaled, cases, pkg, procs=16, per_proc_min=step)
        for case, impl, model, crash in res:
            chk.cov["evaluations"] += 1
            if crash is not None:
                chk.add_violation("crash", "C03:adapter-crash", "real code died in sweep", {"case": case})
                continue
            chk.cov["traces_validated_against_impl"] += 1
            k = streamlib.first_diff(scaled, impl, model)
            ob = [b for b in scaled.oracle(case, impl)]
            if ob:
                idx, sig, msg = ob[0]
                chk.add_violation("oracle", sig, msg, {"case": case, "impl": impl, "op_index": idx})
            elif k is not None:
                chk.add_violation("correspondence", "C03:corr:sweep", f"model and implementation disagree in sweep at {case[k]}",
                                  {"case": case, "impl": impl, "model": model, "first_diff_at": k}, concrete=False)
    chk.cov["sweep"] = f"contiguous 1..{N} on the implementation and the model"
    chk.cov["exhaustive_sweep_1_to"] = N


if __name__ == "__main__":
    streamlib.run_property("C03", scaled, ["low", "flagged", "low", "high", "huge", "flagged"], scaled.oracle,
                           3000, 40000, TB, AS, RULE, nontrivial=scaled.nontrivial, extra=extra)
