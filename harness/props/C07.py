#!/usr/bin/env python3
"""C07 - gather yields a correct greedy minimum metagenome cover with exact accounting."""
import os, sys
sys.path.insert(0, os.path.dirname(os.path.abspath(__file__)))
sys.path.insert(0, os.path.dirname(os.path.dirname(os.path.abspath(__file__))))
import streamlib
from streams import gather

TB = [
    "Lean 4.33 kernel; axioms allowed: propext, Classical.choice, Quot.sound (checked by #print axioms on every theorem)",
    "hand-written model of CounterGather / Index.peek / _find_best / GatherDatabases / GatherResult columns (lean/SmVerif/Model/Gather.lean) on top of the shared MinHash model, tied to /repo by the gather stream (differential testing of every round: chosen match, every integer column, ratio columns bit-exactly, remaining query, counter contents in dictionary order)",
    "floats: quotients of integers use the exact binary64 model (Float64.lean); MinHash.contained_by (bias factor through libm pow) and numpy.std are computed with the runtime Float in the driver and compared with relative tolerance 1e-9; theorems use only the order laws stated in Props/C07.lean (ScoreLaws)",
    "md5 digests are supplied by the harness (hashlib over ksize + mins) and checked against the implementation's md5sum() by the adapter",
    "exact numpy mean/median of small integers (sum < 2^53)",
]
AS = ["abundances small enough that weighted sums stay below 2^53",
      "threshold_bp is a non-negative integer",
      "scaled values <= 10000 (C03 proves the scaled <-> max_hash round trip up to 2^31)"]
RULE = ("one case = query (flat / abundance, 5-200 hashes) + 1-3 LinearIndex databases of 1-8 sketches with nested / chained / tied / "
        "duplicate / covering / disjoint / random overlap structure, hashes placed on and around the max_hash thresholds of the scaled values in play, "
        "database finer / equal / coarser than the query or mixing scaled values, threshold 0 / on an overlap boundary +-1 / unattainable, "
        "prefetch counters / on-demand Index.peek / both in one run / commands.gather's ident-noident split, ignore-abundance on/off, raw "
        "CounterGather peek/consume histories; a 'boundary' flavour (query cut into blocks of decreasing size, one sketch per block, threshold_bp = "
        "(size of what is unassigned before some round) * scaled, exactly or +-1, all modes); a slice of 24 cases through the command line in-process; non-trivial = >= 2 reported rounds (or >= 2 successful peeks); distinct = distinct op lists")

def extra(chk, pkg):
    """thorough tier: the `sourmash gather` command line (prefetch and --no-prefetch, --ignore-abundance,
    --output-unassigned) and `sourmash multigather` on files, against the in-process observations of the same case"""
    import cli_lib, common
    if chk.tier != "thorough":
        # quick tier: a slice of cases through the real command line, IN-PROCESS (sourmash.__main__.main(argv) inside
        # adapters/cli_server.py: one interpreter per batch), against the in-process observations of the same case
        n = int(os.environ.get("VERIF_C07_QCLI", "24"))
        cases, optl = [], []
        for i in range(n):
            c, o = gather.gen_cli_case(chk.rng, i)
            cases.append(c)
            optl.append(o)
        res = streamlib.run_cases(gather, cases, pkg, procs=4, per_proc_min=6)
        byc = {id(c): o for c, o in zip(cases, optl)}
        jobs = [(c, i, byc[id(c)]) for c, i, m, cr in res if cr is None]
        nb = 4
        outs = common.par_map(cli_lib.quick_gather_batch, [(jobs[j::nb], pkg) for j in range(nb) if jobs[j::nb]], procs=nb)
        ninv = 0
        for batch in outs:
            for bad, k in batch:
                chk.cov["evaluations"] += 1
                ninv += k
                for sig, msg, data in bad:
                    chk.add_violation("cli", sig, msg, data)
        chk.cov["cli_inprocess_cases"] = len(jobs)
        chk.cov["cli_inprocess_invocations"] = ninv
        return
    n = int(os.environ.get("VERIF_C07_CLI", "160"))
    cases = []
    for i in range(n):
        fl = ["equal", "finer", "coarser", "equal"][i % 4]
        cases.append(gather.gen_case(chk.rng, fl, force_mode=["cli", "ondemand"][i % 2]))
    res = streamlib.run_cases(gather, cases, pkg, procs=16)
    jobs = [(c, i, pkg) for c, i, m, cr in res if cr is None]
    out = common.par_map(cli_lib.cli_gather_case, jobs, procs=16)
    nrows = 0
    for (c, i, _), bad in zip(jobs, out):
        chk.cov["evaluations"] += 1
        nrows += sum(1 for o in i if o.startswith("ok rank="))
        for sig, msg, data in bad:
            chk.add_violation("cli", sig, msg, data)
    chk.cov["cli_gather_cases"] = len(jobs)
    chk.cov["cli_gather_rounds_compared"] = nrows
    # `sourmash multigather` (its own ident / noident split) on the prefetch-mode cases
    mjobs = [(c, i, pkg) for c, i, _ in jobs if any(l.startswith("split ") for l in c)]
    mout = common.par_map(cli_lib.cli_multigather_case, mjobs, procs=16)
    mrows = 0
    for (c, i, _), bad in zip(mjobs, mout):
        chk.cov["evaluations"] += 1
        mrows += sum(1 for o in i if o.startswith("ok rank="))
        for sig, msg, data in bad:
            chk.add_violation("cli", sig, msg, data)
    chk.cov["cli_multigather_cases"] = len(mjobs)
    chk.cov["cli_multigather_rounds_compared"] = mrows


if __name__ == "__main__":
    streamlib.run_property("C07", gather, gather.FLAVOURS, gather.oracle, 6000, 60000, TB, AS, RULE,
                           nontrivial=gather.nontrivial, classify=gather.classify, extra=extra)
