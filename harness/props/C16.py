#!/usr/bin/env python3
"""C16 - comparison matrices equal the pairwise values, however they are computed."""
import os, sys
sys.path.insert(0, os.path.dirname(os.path.abspath(__file__)))
sys.path.insert(0, os.path.dirname(os.path.dirname(os.path.abspath(__file__))))
import common
import streamlib
from streams import compare

# findings of this check: C16.1 (max_containment asymmetric on mixed scaled; fixed 0bf3075), C16.2 (avg-containment ANI
# builder ignored `downsample`; fixed b596f84; regression case corpus/C16/avg_ani_downsample.ops)

TB = [
    "Lean 4.33 kernel; axioms allowed: propext, Classical.choice, Quot.sound (checked by #print axioms on every theorem)",
    "multiprocessing.Pool.imap returns the results of its batches in submission order and re-raises a worker's exception when "
    "that batch is reached (this IS the model's `imap`; schedule independence of compare_parallel rests on it); fork start method "
    "(compare_parallel memory-maps an array of Python object pointers, valid in the children only because they are forked)",
    "itertools.combinations(range(n), 2) / itertools.product / enumerate enumerate in the documented order; numpy element assignment, "
    "np.ones / np.eye / np.memmap / np.save / np.load store and return float64 values unchanged",
    "translator (harness/translators/compare.py): receiver/argument order of every pairwise call, assignment targets, loop shapes, "
    "`col_idx = index + 1`, `siglist[index + 1:]`, chunk size rounding, the n_jobs switch are re-read from compare.py by AST matching "
    "on every run; the model is instantiated with the extracted constants (Sm.Gen.cmp*)",
    "hand-written placement model tied to /repo by the compare stream (differential testing): the pairwise values are computed by the "
    "real code in a helper process, re-computed and echoed by the adapter process (so they are checked to be a function of the inputs), "
    "handed to the model as opaque 64-bit patterns; matrices are compared bit for bit",
    "the pairwise functions themselves (similarity, containment, ANI) are NOT the subject of C16 (C05 / C17): C16 is the placement",
]
AS = [
    "`sourmash compare --from-file`: load_pathlist_from_file() returns a set, so the listed files are compared in hash order (it differs "
    "from run to run), not in list order; matrix and labels stay consistent with each other (not a violation: the check reads the order "
    "actually used back from the --labels-to CSV and counts these runs in the evidence)",
    "1..25 signatures per list (the empty list and n_jobs = 0 are generated occasionally and compared with the model, but lie outside "
    "the property's quantifier: compare_parallel([]) raises ValueError, compare_serial([]) returns a 0x0 matrix - theorem empty_list_differs)",
    "`ANI is None` is stored as 0.0 by every builder (modelled: aniOrZero); the oracle accepts 0.0 as the matrix encoding of a withheld estimate",
    "the diagonal is never computed: it is 1.0 even for an empty sketch whose pairwise self-similarity is 0.0 (the property statement asks for a unit diagonal)",
    "documented containment direction: doc/command-line.md 'C(A, B) = B.contained_by(A)' (the option bullet `C(i, j) = size(i intersection j) / size(i)` "
    "in the same file says the opposite; the prose paragraph and the code agree)",
]
RULE = ("(ONE operation, several routes: pairwise tables alternate among signature-level / sketch-level / frozen / positional spellings and evaluate every third cell through all of them "
        "(C16:pairwise-routes-differ), builders alternate keyword / positional arguments and list / tuple inputs; every returned matrix is read through M[i][j], M[i, j], tolist(), "
        "numpy.array(), numpy.save+load, M.T (C16:views-differ); serial builders are called a second time on the same list; the first table is recomputed at the end of the case; "
        "quick CLI tier: label edge cases with a scheduled walk through the switches incl. --distance-matrix and --scaled, and one run with 10..14 signatures reloaded through plot) "
        "(every matrix object handed out in a case is kept UNCOPIED by the adapter and re-read after every later pool-based call and at the end: `recheck`, "
        "oracle C16:earlier-result-changed; compare_parallel returns an np.memmap on a scratch file of np_utils.to_memmap) lists of 1..25 compatible scaled signatures (flat / abundance / mixed, equal or mixed scaled with downsample requested, empty, identical and "
        "disjoint sketches, ksize 3..51); 2-5 measures per case out of similarity (ignore_abundance 0/1), jaccard ANI, containment (+ANI), "
        "max containment (+ANI), avg containment (+ANI); every builder that exists for the measure: compare_serial, compare_parallel with "
        "n_jobs from {2,3,5,8,16}, compare_all_pairs with n_jobs None / 1 / k, compare_serial_containment / _max_containment / _avg_containment; "
        "on the identity, a random permutation and a reversed / sub- / repeated list; matrices compared bit for bit with the model's placement "
        "of the real pairwise table; the oracle (independent of the model) checks unit diagonal, entry = pairwise value in both argument orders "
        "(documented order for containment), symmetry, identity across builders / process counts, permutation equivariance; "
        "non-trivial = >= 2 matrices of size >= 3 with >= 3 distinct off-diagonal values; distinct = distinct op lists")


def extra(chk, pkg):
    """CLI tier: `sourmash compare` with every measure switch, -p N (np_utils.to_memmap), --from-file, -o / --csv / --labels-to,
    and the reload of what was saved through `sourmash plot` (labels.txt and --labels-from).
    quick: two small runs whose signature names carry leading / trailing whitespace, tabs or a newline;
    thorough: 40 full runs (each twice, on a permutation of the files) + 6 of the label runs."""
    import json
    import subprocess
    import tempfile
    tmp_root = os.path.join(common.BUILD, "tmp")
    os.makedirs(tmp_root, exist_ok=True)
    env = dict(os.environ, PYTHONPATH=pkg + os.pathsep + os.path.join(common.VERIF, "harness"), PYTHONHASHSEED="0")
    plans = [(int(os.environ.get("VERIF_C16_CLI_LABELS", "6" if chk.tier == "thorough" else "2")), ["labels"])]
    plans.append((int(os.environ.get("VERIF_C16_CLI_MANY", "3" if chk.tier == "thorough" else "1")), ["many"]))
    if chk.tier == "thorough":
        plans.append((int(os.environ.get("VERIF_C16_CLI", "40")), []))
    tot = {"runs": 0, "cells": 0, "plot_reloads": 0, "from_file_reordered": 0, "pairwise_refused": 0}
    for n_runs, mode in plans:
        with tempfile.TemporaryDirectory(prefix="c16cli-", dir=tmp_root) as td:
            r = subprocess.run([common.PY, os.path.join(common.VERIF, "harness", "adapters", "compare_cli.py"), td, str(chk.seed), str(n_runs)] + mode,
                               env=env, stdout=subprocess.PIPE, stderr=subprocess.PIPE, text=True, timeout=3000)
            if r.returncode != 0:
                chk.exit_tool("compare_cli.py failed: " + r.stderr[-1500:])
            rep = json.loads(r.stdout)
        for k in tot:
            tot[k] += rep.get(k, 0)
        for v in rep["violations"]:
            chk.add_violation("oracle", v["signature"], v["what"], v)
    chk.cov["cli_runs"] = tot["runs"]
    chk.cov["cli_checked_cells"] = tot["cells"]
    chk.cov["cli_plot_reloads"] = tot["plot_reloads"]
    chk.cov["cli_from_file_runs_where_the_listed_files_were_compared_in_another_order"] = tot["from_file_reordered"]
    chk.cov["cli_runs_where_a_pairwise_value_is_refused_and_the_command_fails_too"] = tot["pairwise_refused"]
    chk.cov["evaluations"] += tot["runs"]


if __name__ == "__main__":
    streamlib.run_property("C16", compare, ["flat", "abund", "mixed", "tiny", "mixed", "big", "abund", "tiny"], compare.oracle,
                           160, 1600, TB, AS, RULE, nontrivial=compare.nontrivial, extra=extra)
