#!/usr/bin/env python3
"""C06 - search and prefetch return exactly the brute-force matches from every container."""
import os, sys
sys.path.insert(0, os.path.dirname(os.path.abspath(__file__)))
sys.path.insert(0, os.path.dirname(os.path.dirname(os.path.abspath(__file__))))
import streamlib
from streams import search

TB = [
    "Lean 4.33 kernel; axioms allowed: propext, Classical.choice, Quot.sound (checked by #print axioms on every theorem)",
    "exact integer model of IEEE-754 binary64 division / comparison (lean/SmVerif/Model/Float64.lean): every score is the correctly rounded quotient of two integers, every threshold test a comparison of doubles; assumes hardware division and CPython int/int true division are correctly rounded",
    "translator (harness/translators/search.py): the three score-function bodies, passes, BestOnly.collect, calc_threshold_from_bp (search.py) and MAX_SQLITE_INT / convert_hash_to/from / the three range-clause guards (sqlite_index.py) are re-read from the source with ast on every run; anything but the known shapes fails closed",
    "hand-written model (lean/SmVerif/Model/Search.lean) of Index.find/search/prefetch/best_containment, SBT.select/find/_find_nodes/node_search, LCA_Database.select/find, SqliteIndex.find/_get_matching_sketches/_load_sketch_size, tied to /repo by the search stream (differential testing against every container type built from the same sketches)",
    "Bloom filters (Nodegraph) are abstracted to the set they answer 'present' on; SBT theorems assume the container invariant Cover (filter superset of the hashes below, 1 <= min_n_below <= size of every non-empty leaf below), which C13 proves of real trees; the real tree shape / false positives are exercised on the implementation side only (the model builds its own d-ary tree over the same leaves; by sbt_walk_eq_brute the plain results agree as multisets)",
    "command-line tier: `sourmash search` / `sourmash prefetch` are run through the real entry point (sourmash.__main__.main(argv), argparse included) inside the adapter process, on database files written for the case; they are NOT modelled in Lean: the oracle compares every CSV row, the --save-matches / --save-matching-hashes / --save-unmatched-hashes files and the number of displayed matches with brute force, and the adapter's in-process API answer on the same files with the CSV",
    "float(text) of a decimal threshold is taken to be correctly rounded (CPython's float()); threshold_decimal_exact then makes the float test the rational test for every decimal of <= 15 digits and sketch sizes with c*b < 2^51",
    "peripheral surface (adapter side, not modelled): one modelled operation is spelled through several routes chosen by a per-case counter the model does not see (constructor / repeated insert / load from file; load_file_as_index or the class loader; select() first or not; search() / find() with the search object / search_sbt_index; prefetch() with or without its keyword / find(); absolute or relative paths; --linear / --no-linear; --save-matches to .sig / .zip / directory / .sig.gz; --no-fail-on-empty-database; --md5 query selection); after each operation the adapter asserts that the views of a container agree (len, bool, signatures, signatures_with_location, location, manifest rows, peek vs best_containment, search_abund vs its own threshold-0 list and an independent angular similarity) and re-verifies EVERY result object handed out earlier in the case; a disagreement is reported as `viewfail` and is a violation by itself",
    "sqlite3, zipfile, json, csv, the file system; LCA/SQLite candidate order (Counter.most_common / ORDER BY ties) is not modelled: results are compared as multisets, best-only results as 'sub-multiset containing every maximal element'",
]
AS = [
    "theorems about sketch contents (linear_score_spec, sbt_eq_brute, sqlite_eq_brute, lca_eq_brute, *_bestOnly, prefetch_bp_semantics_partial) are for flat scaled sketches with scaled in 1..2^31 (C03's exact range), and linear_score_spec_num for flat num sketches; abundance-tracking subjects (the flatten() step) and SBTs over num sketches are covered structurally (linear_eq_brute, bestOnly, search_sorted) and by the correspondence run",
    "prefetch float/integer equivalence (bp_threshold_exact) is proved for threshold_bp <= 2^50, scaled and query size < 2^53",
    "the indexed containers (SBT, LCA_Database, SqliteIndex) are queried as the command line does: select(ksize, moltype, num, scaled, containment) first -- that is where their refusals are documented; list-like containers are queried directly",
    "exact duplicates (same name and same hashes twice) only in the in-memory containers: what a file format stores is C10's subject; mixtures of num and scaled sketches in one list are left to C12 (select)",
    "`sourmash search` (Jaccard) aborts with ValueError('varN <0.0!') from the ANI estimate on some small sketches: finding D16 of C17 reaching the command line; those runs are skipped and counted (coverage.oracle_stats.cli_skipped)",
    "a zip collection opened WITHOUT its manifest (zipnm) is only used when all members have distinct hash content: members with the same md5 are stored as <md5>.sig.gz_N and the manifest-less reader only sees names ending in .sig/.sig.gz (what a container stores is C10's subject; noted for C10)",
    "the `prefetch` CSV carries no location (match_filename is the signature's own filename field); locations of prefetch results are checked through the API only",
    "RevIndex is not in this build (sourmash.index.revindex needs the symbol revindex_free, absent from the library built from /repo)",
    "errors on an EMPTY indexed database (SBT.select: StopIteration; SqliteIndex.find: TypeError) are not documented refusals; they cannot hide a match (the answer is necessarily empty) and are accepted and counted (coverage.loud_but_empty)",
]
RULE = ("one case = 0..25 sketches (shared core of hashes placed on / next to the max_hash thresholds of the scaled values in play, 2^63 and 2^64-1; "
        "empty sketches, same content under two names, abundance-tracking subjects), 2-3 queries (finer / equal / coarser scaled, a database entry itself, num, "
        "abundance-tracking), 3-6 operations each: search (Jaccard / containment / max-containment, plain or best-only) with the threshold ON a score that "
        "occurs in the data and one ulp above / below, prefetch and best_containment with threshold_bp on / next to an occurring overlap; every operation on a "
        "container drawn from LinearIndex, LazyLinearIndex, MultiIndex (directory, pathlist), ZipFileLinearIndex, StandaloneManifestIndex, SBT (arity 2..10, Bloom "
        "tables of 3..1000 bits, cache 1/2/unbounded, in memory or saved+loaded), LCA_Database, SqliteIndex built from the same sketches. The oracle recomputes "
        "every answer with Python sets from the sketches the implementation reports. non-trivial = some operation returned >= 2 matches and some returned "
        "fewer matches than the database holds; distinct = distinct op lists. One case in seven ('order') is a mixed-scaled list searched "
        "in BOTH orders (coarse subjects before finer ones, and the reverse) with the same query and operations; one case in eight ('cli') spreads "
        "3-9 sketches over 1-3 database files of different kinds (sig, directory, zip, manifest, SBT zip, LCA json, sqldb; sometimes the same sketch in two) "
        "and runs `sourmash search` (--containment / --max-containment / --best-only / --threshold as decimal TEXT: repr of an occurring score = exact tie, "
        "its 3-digit rounding, 0.08, ... / -n / --ignore-abundance / -o / --save-matches) and `sourmash prefetch` (--threshold-bp on, half a bp and one bp "
        "around occurring overlaps, -o, --save-matches, --save-unmatched-hashes, --save-matching-hashes). The oracle compares thresholds as the code does "
        "(binary64 `score >= threshold`); exact ties are generated on purpose (coverage.oracle_stats.tie_threshold_ops). Further: LCA_SqliteDatabase (lcasql) and a manifest-less zip (zipnm) as containers; `insert` ops in the middle of a history (in place where the container allows it, else rebuilt) after which every earlier result is re-verified; StandaloneManifestIndex files that also hold a sketch the manifest does not list; pathlist and lca.sqldb databases and num sketches on the command line; CLI databases where every sketch tracks abundances (the abundance-weighted search, checked against an independent angular similarity; sketches with the same hashes but different abundances generated on purpose); every CSV row is checked for name, md5, score, LOCATION and query fields, the -n display count, --save-matches contents, and the command is repeated one time in four")


def extra(chk, pkg):
    chk.cov["containers_modelled"] = ("all: the linear family through Index.find; SBT through findSBT over a model-built tree (plain results must be equal as "
                                      "multisets; best-only: sub-multiset containing every maximal element); LCA_Database and SqliteIndex through findLCA / findSqlite "
                                      "(candidate order not modelled). For each of them the oracle additionally decides independently of the model.")
    chk.cov["oracle_stats"] = search.STATS


if __name__ == "__main__":
    streamlib.run_property("C06", search, ["mixed", "homog", "num", "edge", "homog", "mixed", "order", "cli"], search.oracle,
                           int(os.environ.get("VERIF_C06_N", "3000")), 40000, TB, AS, RULE,
                           nontrivial=search.nontrivial, extra=extra)
