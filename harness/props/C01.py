#!/usr/bin/env python3
"""C01 - a sketch holds exactly the retained hashes of everything added to it."""
import os, sys
sys.path.insert(0, os.path.dirname(os.path.abspath(__file__)))
sys.path.insert(0, os.path.dirname(os.path.dirname(os.path.abspath(__file__))))
import streamlib
from streams import mh

TB = [
    "Lean 4.33 kernel; axioms allowed: propext, Classical.choice, Quot.sound (checked by #print axioms on every theorem)",
    "hand-written model lean/SmVerif/Model/MinHash.lean of KmerMinHash + FFI glue + minhash.py dispatch, tied to /repo by the mh correspondence stream (differential testing, not proof)",
    "translator harness/translate.py (rounding modes of the scaled<->max_hash conversions) and harness/translators/mhcore.py: token-level templates of add_hash_with_abundance / remove_hash / clear / merge / intersection / inflate / downsample_* / new / check_compatible and of the FFI glue bodies, with slots for comparison operators, guards, truncation offsets, the abundance sum and every reset_md5sum(); slot values are constants proved equal to the model's (add_decisions_match_model, merge_decisions_match_model, glue_calls_match_model); a body of another shape fails the translation",
    "the typed operation machine of Model/DriverMh.lean is what the line driver runs (step = render . exec . parseD by definition); parseD (String functions) is not kernel-reducible and is exercised by the stream only",
    "Rust std (Vec::binary_search/insert/remove), cffi marshalling of u64 lists",
    "u64 abundance sums assumed not to wrap (histories whose spec count exceeds 2^64-1 are skipped)",
]
AS = ["binary_search on a strictly ascending Vec returns the lower bound (invariant proved: MH.Inv)",
      "md5 not involved in this property"]
RULE = ("histories of 1..60 Python-API ops (add/add_many/add_hash_with_abundance/set_abundances/remove_many/clear/merge/"
        "copy/pickle/downsample/add_many(MinHash)) over 2-4 sketches and a pool of 2-12 hash values biased to 0, 1, "
        "max_hash-1/max_hash/max_hash+1, 2^63, 2^64-1; scaled from a boundary pool or num in {1,2,3,5,20}; both abundance "
        "modes; a history is non-trivial when >= 3 ops changed an observed sketch state; distinct = distinct op lists")

if __name__ == "__main__":
    streamlib.run_property("C01", mh, ["content", "content", "setops"], mh.oracle_content, 1500, 60000, TB, AS, RULE, nontrivial=mh.nontrivial)
