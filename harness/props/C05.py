#!/usr/bin/env python3
"""C05 - similarity and containment values equal their definitions on the retained hashes."""
import os, sys
sys.path.insert(0, os.path.dirname(os.path.abspath(__file__)))
sys.path.insert(0, os.path.dirname(os.path.dirname(os.path.abspath(__file__))))
import streamlib
from streams import cmp

TB = [
    "Lean 4.33 kernel; axioms allowed: propext, Classical.choice, Quot.sound (checked by #print axioms on every theorem)",
    "exact integer model of IEEE-754 binary64: int conversion, division, multiplication, addition, subtraction, SQUARE ROOT, "
    "comparisons (lean/SmVerif/Model/Float64.lean, Float64More.lean); assumes the hardware operations and Python's int/float "
    "conversions are correctly rounded (IEEE-754); the model's sqrt and the argument handed to acos are validated bit for bit by "
    "the fsqrt / fcos ops of the stream against the hardware",
    "hand-written model of count_common / intersection_size / jaccard / angular_similarity / similarity (minhash.rs), of the Python "
    "comparison methods (minhash.py), of SourmashSignature's wrappers and of Frac/NumMinHashComparison (lean/SmVerif/Model/Compare.lean), "
    "tied to /repo by the cmp stream (differential testing); integers and every value that involves only IEEE basic operations are "
    "compared exactly (bit for bit)",
    "TIER 2, NOT PROVED: the two libm calls. `acos` (angular similarity) and `**` (bias factor 1-(1-1/scaled)**(n*scaled)) are "
    "PARAMETERS of the model (Cmp.angularValue, PyCmp.Cont.value); the theorems about the reported doubles assume AcosLaws "
    "(acos(1)=0, acos(0)=fl(pi/2), acos<=fl(pi/2) on [0,1]) resp. BiasLaws (0 < bias <= 1) and prove everything around them in "
    "binary64 (clamps, range, =1, =0, monotonicity, never below the plain quotient). The driver instantiates the parameters with the "
    "run-time Float of the same libm; such values carry a `~` and are compared with relative tolerance 1e-12",
    "u64 wrap-around in the sums of squared abundances / dot product: the release build wraps silently; the model wraps the same way "
    "(dot_eq holds for the wrapped values); the textbook value is reported only without overflow (known finding C05-F4)",
]
AS = ["scaled values are taken from 1 .. 2^31 (above that the stored max_hash does not determine scaled, known finding D22; "
      "for scaled >= 2^54 the float bias factor is 0 and contained_by raises ZeroDivisionError)",
      "sketch sizes below 2^53 hashes in the binary64 theorems (integers convert exactly)",
      "sketches with two different non-zero `num` values: the statement does not list them as incompatible and defines no value; "
      "the model follows the code (similarity answers, jaccard refuses), the oracle does not judge the values"]
RULE = ("pairs of sketches (sizes 0..200 mostly, up to 3000) in every size relation (equal, subset, superset, overlapping, disjoint, "
        "one/both empty, >= 8x skew over a dense universe), with duplicates, flat / abundance / mixed, abundances up to 2^64-1 "
        "(incl. 2^32-1, 2^32, 2^32+1: u64 overflow of the sums of squares), compatible and each single-field-incompatible variant "
        "(k, seed, molecule, scaled, num-vs-scaled, num!=num); every comparison op in both argument orders, with and without the "
        "downsample flag, through MinHash, SourmashSignature and the comparison dataclasses; for different scaled values (and for num "
        "sketches) the same ops on EXPLICITLY downsampled copies, which must answer identically; IEEE primitives of the angular tail "
        "(fsqrt, fcos); the oracle recomputes the textbook values with Python sets, exact integers and Fractions from the hashes the "
        "implementation reports; non-trivial = a non-empty sketch and >= 3 numeric answers; distinct = distinct op lists. "
        "PERIPHERY (adapter, unseen by the model, per-case counter): every comparison goes through alternating routes (positional / "
        "keyword / defaulted arguments, MinHash vs SourmashSignature wrapper incl. max_/avg_containment, jaccard() vs "
        "similarity(ignore_abundance=True), the FFI entry points kmerminhash_similarity / _count_common / _angular_similarity / "
        "_jaccard called directly, mutable / frozen / pickled / copied / thawed operands); views must agree (len vs hashes vs "
        "get_mins, intersection_and_union_size vs count_common vs len(a&b), len(a|b), is_compatible both ways, every property of "
        "Frac/NumMinHashComparison vs the MinHash-level value on its mh1_cmp/mh2_cmp, cosine vs angular, pass_threshold); every "
        "read-only call is made twice, operands are digested before and after, every comparison object is kept and re-read after "
        "later calls; implementation-only `@frac` observations (intersect_mh, weighted_intersection, pass_threshold) are judged by "
        "the oracle. extra: 400 (thorough 6000) Rust-level cases through the rust-harness twin: count_common / intersection_size / "
        "jaccard / similarity / angular_similarity of KmerMinHash AND KmerMinHashBTree, BTree == Vec == model")

def btree_twin(chk, pkg):
    """the Rust-level comparison entry points of BOTH sketch types: count_common / intersection_size / jaccard /
    similarity / angular_similarity on a KmerMinHash and a KmerMinHashBTree holding the same content (rust-harness
    `twin`); the tree-backed half must equal the array-backed half, which must equal the model"""
    import common
    import rust_harness
    rust_harness.build()
    n = 6000 if chk.tier == "thorough" else 400
    cases = [cmp.gen_rust_case(chk.rng) for _ in range(n)]
    text = "".join("# case\n" + "".join(l + "\n" for l in c) for c in cases)
    rc, out, err = rust_harness.run("twin", text)
    if rc != 0:
        chk.add_violation("crash", "C05:btree:harness-crash", "rust-harness died on a twin case: " + err[-300:], {})
        return
    impl = common.split_cases(out)
    model = common.split_cases(common.run_model("cmp", text))
    nq = 0
    for case, io, mo in zip(cases, impl, model):
        for k, (op, obs) in enumerate(zip(case, io)):
            w = op.split()
            if w[0] in ("new", "addab", "addmany"):
                continue
            nq += 1
            halves = obs.split(" | ")
            if len(halves) != 2 or halves[0] != halves[1]:
                chk.add_violation("oracle", "C05:btree-differs:" + w[0],
                                  f"`{op}`: KmerMinHash answers `{halves[0]}`, KmerMinHashBTree `{halves[-1]}` on the same content",
                                  {"case": case[:k + 1], "impl": io[:k + 1], "op_index": k})
                break
            got = cmp.rust_norm(halves[0])
            exp = mo[k] if k < len(mo) else "<none>"
            if exp.startswith("err "):
                exp = "err"
            if not cmp.same(got, exp):
                chk.add_violation("correspondence", "C05:corr:rust:" + w[0],
                                  f"Rust-level `{op}`: implementation {got}, model {exp}",
                                  {"case": case[:k + 1], "impl": io[:k + 1], "model": mo[:k + 1], "first_diff_at": k},
                                  concrete=False)
                break
    chk.cov["rust_twin"] = {"cases": n, "comparison_ops": nq}


def extra(chk, pkg):
    btree_twin(chk, pkg)
    libm_laws(chk, pkg)


def libm_laws(chk, pkg):
    """the laws assumed of the two libm functions (AcosLaws, BiasLaws in Lemmas/CompareFloat.lean) are sampled on
    this machine's libm (the one the implementation and the driver call); a failure is reported, never silently
    accepted"""
    import math
    rng = chk.rng
    half_pi = float.fromhex("0x1.921fb54442d18p+0")
    bad = []
    if math.acos(1.0) != 0.0:
        bad.append("acos(1.0) != 0")
    if math.acos(0.0) != half_pi:
        bad.append("acos(0.0) != fl(pi/2)")
    cs = [0.0, 5e-324, 1e-300, 1e-17, 2.0 ** -54, 2.0 ** -53, 6e-17, 1.2e-16, 1e-9, 0.5, 1.0 - 2.0 ** -53, 1.0 - 2.0 ** -52, 1.0]
    cs += [rng.random() for _ in range(20000)] + [rng.random() * 2.0 ** -rng.randint(1, 80) for _ in range(20000)]
    cs += [1.0 - rng.random() * 2.0 ** -rng.randint(1, 52) for _ in range(20000)]
    n = 0
    for c in cs:
        n += 1
        a = math.acos(c)
        if not (0.0 <= a <= half_pi):
            bad.append(f"acos({c!r}) = {a!r} outside [0, fl(pi/2)]")
            break
        v = 1.0 - 2.0 * a / math.pi
        if not (0.0 <= v <= 1.0):
            bad.append(f"1 - 2*acos({c!r})/pi = {v!r} outside [0,1]")
            break
    nb = 0
    for s_ in [1, 2, 3, 10, 93, 100, 1000, 2 ** 20, 2 ** 31, 2 ** 40, 2 ** 53] + [rng.randint(1, 2 ** 31) for _ in range(300)]:
        for d in list(range(1, 70)) + [rng.randint(1, 2 ** 40) for _ in range(20)]:
            nb += 1
            b = 1.0 - (1.0 - 1.0 / s_) ** float(d * s_)
            if not (0.0 < b <= 1.0):
                bad.append(f"bias factor for scaled={s_}, denom={d} is {b!r}, not in (0,1]")
                break
    chk.cov["libm_laws_sampled"] = {"acos_arguments": n, "bias_arguments": nb, "failures": bad[:5]}
    for m in bad[:3]:
        chk.add_violation("oracle", "C05:libm-law", "a law assumed of libm (AcosLaws / BiasLaws) fails on this machine: " + m,
                          {"law": m})


FLAV = (["small", "mid", "incompat", "skew", "downsample", "num", "self", "mid", "skew", "downsample", "small"] * 4)
FLAV[17] = "big"

if __name__ == "__main__":
    streamlib.run_property("C05", cmp, FLAV, cmp.oracle, 1200, 30000, TB, AS, RULE, nontrivial=cmp.nontrivial, extra=extra)
