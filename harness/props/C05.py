#!/usr/bin/env python3
"""C05 - similarity and containment values equal their definitions on the retained hashes."""
import os, sys
sys.path.insert(0, os.path.dirname(os.path.abspath(__file__)))
sys.path.insert(0, os.path.dirname(os.path.dirname(os.path.abspath(__file__))))
import streamlib
from streams import cmp

TB = [
    "Lean 4.33 kernel; axioms allowed: propext, Classical.choice, Quot.sound (checked by #print axioms on every theorem)",
    "exact integer model of IEEE-754 binary64 division / addition / int conversion (lean/SmVerif/Model/Float64.lean, Float64More.lean); "
    "assumes hardware division/addition and Python int/float conversions are correctly rounded",
    "hand-written model of count_common / intersection_size / jaccard / angular_similarity / similarity (minhash.rs), of the Python "
    "comparison methods (minhash.py), of SourmashSignature's wrappers and of Frac/NumMinHashComparison (lean/SmVerif/Model/Compare.lean), "
    "tied to /repo by the cmp stream (differential testing); integers and correctly-rounded ratios are compared exactly (bit for bit)",
    "TIER 2, NOT PROVED: the sqrt/acos tail of angular_similarity and the bias factor 1-(1-1/scaled)**(n*scaled) of the containment "
    "functions are computed by the driver with the run-time Float (same libm) and compared with relative tolerance 1e-12; the theorems "
    "cover the exact integers these formulas are applied to (dot product, sums of squares, common count, denominators), the decisions "
    "around them and, over Q, the facts 0 < bias <= 1, corrected >= raw, clamped <= 1",
    "u64 wrap-around in the sums of squared abundances / dot product: the release build wraps silently; the model wraps the same way, "
    "the theorems assume no overflow (explicit hypothesis)",
]
AS = ["scaled values are taken from 1 .. 2^31 (above that the stored max_hash does not determine scaled, known finding D22; "
      "for scaled >= 2^54 the float bias factor is 0 and contained_by raises ZeroDivisionError)",
      "sums of squared abundances stay below 2^64 (cases beyond are compared with the model but skipped by the oracle)",
      "sketches with two different non-zero `num` values: the statement does not list them as incompatible and defines no value; "
      "the model follows the code (similarity answers, jaccard refuses), the oracle does not judge the values"]
RULE = ("pairs of sketches (sizes 0..200 mostly, up to 3000) in every size relation (equal, subset, superset, overlapping, disjoint, "
        "one/both empty), with duplicates, flat / abundance / mixed, compatible and each single-field-incompatible variant (k, seed, "
        "molecule, scaled, num-vs-scaled, num!=num); every comparison op in both argument orders, with and without the downsample flag, "
        "through MinHash, SourmashSignature and the comparison dataclasses; the oracle recomputes the textbook values with Python sets "
        "and Fractions from the hashes the implementation reports; non-trivial = a non-empty sketch and >= 3 numeric answers; "
        "distinct = distinct op lists")

FLAV = (["small", "mid", "incompat", "skew", "downsample", "num", "self", "mid", "skew", "downsample", "small"] * 4)
FLAV[17] = "big"

if __name__ == "__main__":
    streamlib.run_property("C05", cmp, FLAV, cmp.oracle, 1200, 30000, TB, AS, RULE, nontrivial=cmp.nontrivial)
