#!/usr/bin/env python3
"""C04 - sketch set operations mirror the same operations on the underlying data."""
import os, sys
sys.path.insert(0, os.path.dirname(os.path.abspath(__file__)))
sys.path.insert(0, os.path.dirname(os.path.dirname(os.path.abspath(__file__))))
import common
import streamlib
from streams import setops

TB = [
    "Lean 4.33 kernel; axioms allowed: propext, Classical.choice, Quot.sound (checked by #print axioms on every theorem)",
    "hand-written models lean/SmVerif/Model/MinHash.lean (KmerMinHash + FFI glue + minhash.py) and Model/SigOps.lean (cores of "
    "`sourmash sig merge|intersect|subtract|flatten|inflate|filter|downsample`), tied to /repo by the setops correspondence stream "
    "(differential testing of operators, methods and sub-commands against the model; not proof)",
    "the sub-commands are run through sourmash.__main__.main (the console-script entry point) on real .sig files; quick tier in-process, "
    "thorough tier additionally as `python -m sourmash sig ...` in a fresh interpreter; JSON save/load of signatures, argparse, "
    "sourmash_args loaders are on the route but not modelled",
    "translator harness/translate.py (rounding modes of the scaled<->max_hash conversions)",
    "threshold stability mhR (scP max_hash) = max_hash (Stable) and mhR (scP (mhP (scP max_hash))) = max_hash (StableDown) are explicit "
    "hypotheses of the theorems that rebuild a sketch through the Python constructor; both are discharged for every scaled value from 1 to "
    "2^31 from C03's theorems (stable_of_le_2_31, tree_mirror_le_2_31)",
    "Python `set` iteration order: modelled as ascending, proved irrelevant (add_many_order_irrelevant)",
    "u64 abundance sums assumed not to wrap",
]
AS = ["scaled sketches: every operation; num sketches: union, the documented restricted intersection, flatten, downsample, and the "
      "sketch-level semantics of the remaining sub-commands",
      "remove_many(<MinHash>) / add_many(<MinHash>) are hash-list operations (documented: 'hashes can be ... another MinHash object'); "
      "with operands at different scaled values they are judged as such, not as data-level difference / union"]
RULE = ("operation trees of depth 1..4 over 2-5 leaf multisets (overlapping / nested / disjoint / empty / identical; hash pool of 4-14 "
        "values biased to 0, 1, max_hash-1/max_hash/max_hash+1, max_hash/2, 2^63, 2^64-1), scaled from {1,2,3,7,10,93,100,1000,2^20} or "
        "num from {1,2,3,5,8}, equal or unequal per leaf, abundance on/off/mixed, ~30% of the leaves frozen; every node through a primary "
        "route and (50%) all alternative routes (operator / method / sub-command); a case is non-trivial when >= 3 non-leaf operations "
        "returned a non-empty sketch; distinct = distinct op lists")


def _norm_cli(lines, case):
    """thorough tier, subprocess mode: a failing sub-command only yields an exit status"""
    out = []
    for op, l in zip(case, lines):
        w = setops.canon(op).split()
        is_cli = w and (w[0].endswith(".cli") or (w[0] == "d" and w[1] in ("cli", "ncli")))
        out.append("err" if (is_cli and l.startswith("err ")) else l)
    return out


def _run_subproc_chunk(args):
    cases, pkg = args
    text = "".join("# case\n" + "".join(l + "\n" for l in c) for c in cases)
    rc, impl, err = common.run_impl(setops.ADAPTER, text, pkg, extra_env={"SETOPS_CLI": "subprocess"})
    if rc != 0:
        return ("crash", rc, err[-2000:])
    model = common.run_model(setops.MODULE, text)
    return ("ok", common.split_cases(impl), common.split_cases(model))


def extra(chk, pkg):
    """thorough tier: the same kind of trees with every sub-command run as `python -m sourmash sig ...`
    in a fresh interpreter (about 1.5 s per call), compared with the model and judged by the oracle"""
    if chk.tier != "thorough":
        return
    n = int(os.environ.get("VERIF_C04_CLI_CASES", "200"))
    cases = [setops.gen_case(chk.rng, "cli") for _ in range(n)]
    procs = 16
    chunks = [cases[i::procs] for i in range(procs)]
    res = common.par_map(_run_subproc_chunk, [(c, pkg) for c in chunks], procs=procs)
    ncalls = 0
    for chunk, r in zip(chunks, res):
        if r[0] != "ok":
            chk.add_violation("crash", "C04:adapter-crash", f"adapter died in subprocess-CLI mode: {r[2][-300:]}", {"cases": chunk[:2]})
            continue
        for case, impl, model in zip(chunk, r[1], r[2]):
            chk.cov["evaluations"] += 1
            chk.cov["traces_validated_against_impl"] += 1
            ncalls += sum(1 for l in case if ".cli" in l.split()[0] or l.startswith(("d cli", "d ncli")))
            for l in case:
                w0 = l.split()
                tok = w0[1] if w0[0] == "d" else w0[0]
                if "+" in tok:
                    routes = chk.cov.setdefault("cli_route_variants", {})
                    routes[tok.split("+")[1]] = routes.get(tok.split("+")[1], 0) + 1
            a, b = _norm_cli(impl, case), _norm_cli(model, case)
            k = streamlib.first_diff(setops, a, b)
            ob = setops.oracle(case, impl)
            for idx, sig, msg in ob:
                chk.add_violation("oracle", sig, msg, {"case": case[:idx + 1], "impl": impl[:idx + 1], "op_index": idx, "cli": "subprocess"})
            if k is not None and not ob:
                chk.add_violation("correspondence", setops.classify(case, impl, model, k) + ":subprocess",
                                  f"model and `python -m sourmash` disagree at `{case[k][:100]}`: impl={impl[k][:140]} model={model[k][:140]}",
                                  {"case": case, "impl": impl, "model": model, "first_diff_at": k}, concrete=False)
    chk.cov["cli_subprocess_cases"] = n
    chk.cov["cli_subprocess_calls"] = ncalls


if __name__ == "__main__":
    streamlib.run_property("C04", setops, ["scaled", "mixed", "num", "cli", "scaled", "mixed"], setops.oracle,
                           2500, 25000, TB, AS, RULE, nontrivial=setops.nontrivial, extra=extra, classify=setops.classify)
