#!/usr/bin/env python3
"""C09 - signature files round-trip without loss."""
import os, sys
sys.path.insert(0, os.path.dirname(os.path.abspath(__file__)))
sys.path.insert(0, os.path.dirname(os.path.dirname(os.path.abspath(__file__))))
import streamlib
from streams import sigjson

TB = [
    "Lean 4.33 kernel; axioms allowed: propext, Classical.choice, Quot.sound (checked by #print axioms on every theorem)",
    "two models of the reader, compared with each other on every document of the stream: FIELD-LEVEL (a document is the list of "
    "its objects with each known key absent / null / wrong-type / value, keys in canonical order) and TEXT-LEVEL "
    "(Model/JsonText.lean: lexer, error-stopping tree parser, serde's derived readers in document order -- any key order, "
    "duplicates, defaults, map and sequence forms, the untagged Sketch enum incl. HyperLogLog and the recursion limit -- and the "
    "compact printer with serde_json's escaping). serde_json (1.x, no optional features), niffler (2.x, gz only) and flate2 are "
    "third-party: their behaviour is modelled for these versions (pinned by the translator from Cargo.lock / Cargo.toml) and "
    "compared, not proved; inflating a gzip stream is done by the harness (zlib) and handed to the model; float values are not "
    "modelled (the version token is kept; ryu's re-formatting is assumed for the tokens the generator uses); invalid UTF-8 is "
    "not generated; the file system and CPython pickle (as a transport of the state tuples) are trusted",
    "md5 is not modelled: a sketch's cache holds the pre-image (ksize, mins) and the harness applies hashlib.md5; an md5sum "
    "string in a file is either the md5 of a pre-image the generator chose or an arbitrary string",
    "translator (harness/translators/sigjson.py): Serialize field list, TempSig field/type list, the `num` rule, molecule arms "
    "and case folding (both tables), load-time sort, whether the file's md5sum goes into the cache, Signature serde attributes "
    "and defaults, the ksize filter shape, the literal / comparison / gzip magic of _detect_input_type, and the argument shapes "
    "of SourmashSignature.__init__/__copy__/__reduce__/__setstate__/__getstate__ are re-read from the source on every run "
    "(strict, fail closed)",
    "hand-written model (Model/SigJson.lean, driver Model/DriverJson.lean) tied to /repo by the json stream: differential "
    "testing through the public Python API (save_signatures_to_json, load_signatures_from_json, pickle, copy, to_mutable, "
    "to_frozen, _detect_input_type)",
    "whether a JSON text contains the sniffed literal is modelled as 'some string value of the document contains it' "
    "(keys, punctuation, numbers and escape sequences cannot produce it); exercised by names / classes containing it",
    "Rust to_lowercase() is Unicode, the model folds ASCII only (no non-ASCII character lower-cases to a letter of "
    "dna/protein/dayhoff/hp); exercised with dotless / dotted i and the Kelvin sign",
    "C03 stability mhR(scP M) = M for M = mhR S, S <= 2^31 (Lemmas/ScaledNum.lean, proved) is the hypothesis under which "
    "pickle / copy of a sketch are the identity; u64 abundance sums are not involved (no additions on this path)",
]
AS = [
    "names contain any Unicode scalar value except NUL (a Python str crosses the FFI as a C string: cut at the first NUL; "
    "modelled as cstr and exercised in the `odd` flavour) -- lone surrogates cannot be encoded at all",
    "scaled values are drawn from 1..2^31 (above 2^31.5 max_hash does not determine scaled: known finding D22 of C03)",
    "k*3 < 2^32 for protein-like sketches (ksize is a u32)",
    "the property oracle applies to documents written by save_signatures_to_json from objects built through the Python API; "
    "for hand-crafted documents only model/implementation agreement and the C11-style md5 / license facts are checked",
]
RULE = ("a case builds 1..5 signatures (DNA/protein/dayhoff/hp, k incl. 1 and 2^32-1, seeds incl. 0 and 2^64-1, scaled 1..2^31 or "
        "num 1..2^32-1, flat or abundances up to 2^64-1, 0..300 hashes incl. 0, max_hash, 2^64-1; Unicode names incl. quotes, commas, "
        "newlines, control characters, RTL marks, astral planes, U+2028, BOM, the literal 'sourmash_signature'), saves them "
        "(compression 0..9, to string / binary fp / text fp), loads through str / bytes / gzip bytes / path / text, binary and gzip "
        "file objects with and without ksize / select_moltype filters, saves the loaded signatures again, and pickles / copies / "
        "to_mutable / to_frozen MinHash, FrozenMinHash, SourmashSignature and FrozenSourmashSignature; `odd` cases are hand-crafted "
        "parsable documents (unsorted / duplicate mins, misaligned or zero abundances, wrong md5sum, missing / null / wrong-type keys, "
        "molecule in other case, num and max_hash both set, out-of-range integers, NUL in names); `sniff` cases probe "
        "_detect_input_type; `text` cases are generated and damaged JSON texts (any key order, duplicate / missing / unknown keys, "
        "integers beyond 2^64-1, floats / negatives / leading zeros in integer positions, every escape form incl. surrogate pairs "
        "and lone surrogates, raw control characters, white space, nesting around the recursion limit, sequence forms, "
        "HyperLogLog sketches, sketches that panic before / after a later error, truncation, insertion, trailing characters, BOM) "
        "loaded through every transport; `blob` cases are gzip (valid, truncated, with junk, nested, multi-member), bzip2 / xz / "
        "zstd / zip bytes and files shorter than five bytes, by buffer and by path under misleading extensions. Every `save` "
        "compares the rendered text of the model with the real bytes BYTE FOR BYTE. non-trivial = some load returned a signature holding >= 2 hashes (for text / blob cases: some load of a text of >= 20 bytes answered with signatures or an error; for sniff cases: >= 3 different "
        "answers); distinct = distinct op lists")


def extra(chk, pkg):
    """deterministic grid: every compression level x every grouping 1..5 x every transport"""
    import random
    rng = random.Random(f"C09-grid-{chk.seed}")
    cases = []
    vias = ["str", "bytes", "gz", "path", "ftext", "fbin", "fgz"]
    for c in range(10):
        for n in range(1, 6):
            lines = []
            for i in range(n):
                p = sigjson.gen_sketch_params(rng, 40)
                lines.append(sigjson.mh_line(i, p))
                lines.append(f"sig {10 + i} {i} {sigjson.xs(sigjson.gen_name(rng))} {sigjson.xs(sigjson.gen_name(rng))}")
            lines.append(f"save 0 {c} {1 if c % 2 else 0} " + " ".join(str(10 + i) for i in range(n)))
            via = vias[(c * 5 + n) % len(vias)]
            lines.append(f"load 100 0 {via} - - 0 1")
            lines.append(f"save 1 {9 - c} 0 " + " ".join(str(100 + i) for i in range(n)))
            lines.append(f"load 150 1 {vias[(c + n) % len(vias)]} - - 0 1")
            for i in range(n):
                lines.append(f"pickle {200 + i} {100 + i}")
                lines.append(f"copy {210 + i} {10 + i}")
            cases.append(lines)
    res = streamlib.run_cases(sigjson, cases, pkg, procs=8, per_proc_min=5)
    for case, impl, model, crash in res:
        chk.cov["evaluations"] += 1
        if crash is not None:
            chk.add_violation("crash", "C09:adapter-crash", "real code died in the grid", {"case": case, "stderr": crash[2]})
            continue
        chk.cov["traces_validated_against_impl"] += 1
        k = streamlib.first_diff(sigjson, impl, model)
        ob = sigjson.oracle(case, impl)
        if ob:
            idx, sig, msg = ob[0]
            chk.add_violation("oracle", sig, msg, {"case": case[:idx + 1], "impl": impl[:idx + 1], "op_index": idx})
        elif k is not None:
            chk.add_violation("correspondence", "C09:corr:grid", f"model and implementation disagree in the grid at `{case[k][:100]}`",
                              {"case": case, "impl": impl, "model": model, "first_diff_at": k}, concrete=False)
    chk.cov["grid"] = "compression 0..9 x groupings 1..5 x 7 transports, save -> load -> save -> load, pickle and copy of every signature"


if __name__ == "__main__":
    tier = "quick"
    if "--tier" in sys.argv:
        tier = sys.argv[sys.argv.index("--tier") + 1]
    tier = os.environ.get("VERIF_TIER") or tier
    flavours = ["round", "odd", "text", "sniff", "cli", "round", "text", "blob", "odd", "round", "cli", "text", "blob"]
    if tier == "thorough":
        # 11 entries: coprime to the 16 worker chunks, so the expensive `big` cases are spread evenly
        flavours = ["round", "odd", "text", "sniff", "round", "cli", "text", "blob", "odd", "big", "text", "round", "odd", "text", "cli"]
    streamlib.run_property("C09", sigjson, flavours, sigjson.oracle, 1500, 20000, TB, AS, RULE,
                           nontrivial=sigjson.nontrivial, extra=extra, classify=sigjson.classify)
