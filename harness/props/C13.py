#!/usr/bin/env python3
"""C13 - Sequence Bloom Tree internal nodes always cover the leaves beneath them."""
import os, sys
sys.path.insert(0, os.path.dirname(os.path.abspath(__file__)))
sys.path.insert(0, os.path.dirname(os.path.dirname(os.path.abspath(__file__))))
import streamlib
import common
from streams import sbt
from streams import nodegraph as ng

TB = [
    "Lean 4.33 kernel; axioms allowed: propext, Classical.choice, Quot.sound (checked by #print axioms on every theorem)",
    "hand-written model of sbt.py/sbtmh.py (positions, new_node_pos, add_node, ancestor walk, update + clamp, _rebuild_node, _fill_up, _find_nodes + cache + unload, save(sparseness)/load v3-v6) and of nodegraph.rs + fixedbitset 0.4.2 (count/get/matches/update/with_tables/save/load), tied to /repo by the sbt and nodegraph streams (differential testing; observations include n_occupied of every internal node, so filter contents are compared, not only coverage)",
    "translator: the parent/child formulas, which variant the source has of `_rebuild_node` (merge every non-None child), of `add_node` (rebuild of `_missing_nodes` first) and of `Node.unload` (dirty flag set by the three update methods) -- the model follows all three switches and Props/C13 pins the full statements to the repaired variants (current_source_variant) --, the 0->1 clamp, byte_size = size/8+1, 4-byte blocks, the with_tables descent are re-read from the source on every run",
    "not modelled (trusted): gzip (niffler) around the filter image, zip/FS storage, JSON index file, signature JSON round trip of the leaves, primal_check::miller_rabin (= primality on u64), Python float division in SBT.parent (exact below 2^50), dict iteration order (made irrelevant by drawing save()'s random() as a function of the node position in the adapter)",
]
AS = ["Bloom table sizes > 0 (with_tables(0) underflows: allocation abort, outside the property's quantifier; candidate patch C13.6)",
      "index versions 1 and 2 are exercised in their legacy layout (relative file names, no factory/storage record, no metadata, uncompressed root filter) with sparseness 0 and table requests that survive the loader's rounding of the table size to the hundred",
      "d >= 2"]
RULE = ("sbt stream: 1..60 insertions (thorough: up to 300) of sketches of scaled 1 (half the cases), 2, 4, 100 or 1000 with 0..30 hashes (10% empty, 15% single-hash) from a "
        "per-case pool incl. 0, 2^63, 2^64-1; d in 2..10; Bloom table request 3 bits..1e5, 1..4 tables; dump after insertions; then "
        "save(sparseness in {0,.3,.5,.9,1}) + load (index versions 1..6, cache sizes None/1/2/3/5/50), repairs (_rebuild_node, "
        "_fill_internal, _fill_min_n_below), searches (Jaccard/containment/max containment, thresholds 0..1, query scaled equal, finer or coarser than the tree) compared with a linear scan, select(), and insertions "
        "after the load; load -> insert -> save to another location (zip/FS/nested FS) -> searches and Cover on the tree still in memory and on the saved copy reloaded; non-trivial = >= 3 accepted insertions and >= 1 successful dump; distinct = distinct op lists. "
        "nodegraph sub-stream: count/get/matches/update/round trips on filters of requested size 1..1e5, 0..5 tables, hand-made images with "
        "sizes that are multiples of 32 and bits beyond the size")


def _legacy_rewrite(path, ver):
    """rewrite a version-6 FS index in place into the layout of an older version (as adapters/sbt_impl.py does)"""
    import gzip
    import json
    info = json.load(open(path))
    d = os.path.dirname(path)
    sub = info["storage"]["args"]["path"]
    sigs = info.pop("signatures")
    if ver == 5:
        info["version"] = 5
        info["leaves"] = sigs
    elif ver in (3, 4):
        info["version"] = ver
        info["nodes"].update(sigs)
        if ver == 3:
            for v in info["nodes"].values():
                if "internal" in v["name"] and isinstance(v.get("metadata"), dict):
                    v["metadata"].pop("min_n_below", None)
    else:
        nodes = {k: {"name": v["name"], "filename": os.path.join(sub, v["filename"])} for k, v in info["nodes"].items()}
        for k, v in sigs.items():
            nodes[k] = {"name": v["name"], "metadata": v["metadata"], "filename": os.path.join(sub, v["filename"])}
        rootf = os.path.join(d, nodes["0"]["filename"])
        raw = open(rootf, "rb").read()
        if raw[:2] == b"\x1f\x8b":
            open(rootf, "wb").write(gzip.decompress(raw))
        info = {"d": info["d"], "version": 2, "nodes": nodes}
    json.dump(info, open(path, "w"))


def cli_routes(chk, pkg):
    """The command-line routes that write or rewrite an SBT index (real entry point, in-process): `index` with its options
    (-d / --n_children, -x / --bf-size, -s / --sparseness, --scaled), `index --append`, `migrate` (of an index rewritten
    into versions 2..5), `storage convert` (to a zip, to another directory).  Oracle only: afterwards the index is loaded
    and walked (Cover, structure, every signature a leaf) and `sourmash search` must find every signature."""
    import csv
    import json
    import shutil
    import tempfile
    import cli_lib
    n_sc = 20 if chk.tier == "thorough" else 5
    runner = cli_lib.ServerRunner(pkg)
    root = os.path.join(os.path.dirname(os.path.dirname(os.path.dirname(os.path.abspath(__file__)))), ".build", "tmp")
    os.makedirs(root, exist_ok=True)
    rng = chk.rng
    done = 0
    kinds = ["append", "options", "migrate", "convert", "combine"]
    try:
        for sc in range(n_sc):
            kind = kinds[sc % len(kinds)]
            d = tempfile.mkdtemp(prefix="c13cli_", dir=root)
            try:
                n1, n2 = rng.randint(1, 6), rng.randint(1, 4)
                sigs = {}
                for i in range(n1 + n2):
                    hs = sorted(rng.sample(range(1, 10 ** 6), rng.randint(1, 6)))
                    sigs[str(i)] = {"name": i, "scaled": 1, "track": 0, "pairs": [[h, 1] for h in hs]}
                files = [{"path": f"s{i}.sig", "kind": "sig", "sigs": [i]} for i in range(n1 + n2)]
                ok, err = runner.write({"dir": d, "sigs": sigs, "files": files})
                if not ok:
                    raise common.ToolFailure("cli_files: " + err)
                S = lambda lo, hi: [os.path.join(d, f"s{i}.sig") for i in range(lo, hi)]
                dd = rng.choice([2, 2, 3, 5, 10])
                bf = rng.choice([100, 1000, 10000, 100000])
                sparse = rng.choice(["0.0", "0.0", "0.5", "1.0"])
                expect = list(range(n1 + n2))
                final = None
                if kind == "append":
                    db = os.path.join(d, rng.choice(["db.sbt.zip", "db.sbt.json"]))
                    steps = [["index", "-q", "-k", "21", "--dna", "-d", str(dd), "--sparseness", sparse, db] + S(0, n1),
                             ["index", "-q", "--append", "-k", "21", "--dna", "--sparseness", rng.choice(["0.0", "0.5"]), db] + S(n1, n1 + n2)]
                elif kind == "options":
                    db = os.path.join(d, rng.choice(["db.sbt.zip", "db.sbt.json", "db"]))
                    steps = [["index", "-q", "-k", "21", "--dna", rng.choice(["-d", "--n_children"]), str(dd),
                              rng.choice(["-x", "--bf-size"]), str(bf), rng.choice(["-s", "--sparseness"]), sparse, db] + S(0, n1 + n2)]
                    if db.endswith("/db"):
                        final = db + ".sbt.zip"
                elif kind == "migrate":
                    db = os.path.join(d, "db.sbt.json")
                    ver = rng.choice([2, 3, 4, 5])
                    steps = [["index", "-q", "-k", "21", "--dna", "-d", str(dd), "-x", str(rng.choice([100, 1000, 10000])), db] + S(0, n1 + n2),
                             ("rewrite", ver), ["migrate", db]]
                elif kind == "combine":
                    db = os.path.join(d, "both.sbt.zip")
                    a_db, b_db = os.path.join(d, "a.sbt.zip"), os.path.join(d, "b.sbt.zip")
                    steps = [["index", "-q", "-k", "21", "--dna", a_db] + S(0, n1),
                             ["index", "-q", "-k", "21", "--dna", b_db] + S(n1, n1 + n2),
                             ["sbt_combine", db, a_db, b_db]]
                    dd = 2
                else:
                    db = os.path.join(d, "db.sbt.json")
                    target = rng.choice(["ZipStorage(" + os.path.join(d, "moved.sbt.zip") + ")", "FSStorage(" + os.path.join(d, "other") + ")",
                                         "FSStorage(" + os.path.join(d, "nested", "other") + ")", "zip"])
                    steps = [["index", "-q", "-k", "21", "--dna", "-d", str(dd), db] + S(0, n1 + n2),
                             ["storage", "convert", db, "-b", target]]
                final = final or db
                hist = []
                bad = None
                for argv in steps:
                    if isinstance(argv, tuple):
                        _legacy_rewrite(db, argv[1])
                        hist.append(f"<index rewritten as version {argv[1]}>")
                        continue
                    rc, out, err = runner.run(argv, d)
                    hist.append("sourmash " + " ".join(a.replace(d + "/", "") for a in argv))
                    if rc != 0:
                        bad = f"`{hist[-1]}` exited {rc}: {err[-300:]}"
                        break
                chk.cov["evaluations"] += 1
                done += 1
                if bad is not None:
                    chk.add_violation("oracle", f"C13:cli-{kind}:command-failed", bad, {"history": hist})
                    continue
                # (a) every signature is found by `sourmash search`
                missing = []
                for i in expect:
                    outp = os.path.join(d, f"o{i}.csv")
                    rc, out, err = runner.run(["search", "-q", "-k", "21", "--dna", "--threshold", "0.99",
                                               os.path.join(d, f"s{i}.sig"), final, "-o", outp], d)
                    names = set()
                    if rc == 0 and os.path.exists(outp):
                        names = {r["name"] for r in csv.DictReader(open(outp))}
                    if rc != 0 or str(i) not in names:
                        missing.append((i, rc, err[-200:] if rc else ""))
                if missing:
                    chk.add_violation("oracle", f"C13:cli-{kind}:signature-not-found",
                                      f"after {hist}: `sourmash search` does not find signature(s) {[m[0] for m in missing][:6]} "
                                      f"({missing[0][2][-120:]})", {"history": hist, "missing": missing, "sigs": sigs})
                    continue
                # (b) the index written satisfies Cover: load it and walk it with the adapter, judge with the stream's oracle
                text = f"# case\nloadpath {final} 0\ndump\n"
                rc, impl, err = common.run_impl(sbt.ADAPTER, text, pkg)
                dump_line = impl[2] if rc == 0 and len(impl) >= 3 else f"err adapter-exit-{rc}"
                case = [f"new {dd} 1000 4"] + [f"ins {i} " + " ".join(str(h) for h, _ in sigs[str(i)]["pairs"]) for i in expect] + ["dump"]
                obs = ["ok"] + ["ok"] * len(expect) + [dump_line]
                for idx, sig, msg in sbt.oracle(case, obs):
                    if sig.startswith("C13:min_n_below-clamp") or sig.startswith("C13:views:"):
                        continue
                    chk.add_violation("oracle", sig.replace(":insert-only", f":cli-{kind}"), f"index written by {hist}: {msg}",
                                      {"history": hist, "dump": dump_line})
                if kind == "options" and dump_line.startswith("ok"):
                    info_d = None
                    try:
                        if final.endswith(".json"):
                            info_d = json.load(open(final))
                    except Exception:           # noqa: BLE001
                        pass
                    if info_d is not None and (info_d.get("d") != dd or int(info_d["factory"]["args"][1]) != bf):
                        chk.add_violation("oracle", "C13:cli-options:not-honoured",
                                          f"{hist}: the index records d={info_d.get('d')} factory={info_d['factory']['args']}", {"history": hist})
            finally:
                shutil.rmtree(d, ignore_errors=True)
    finally:
        runner.close()
    chk.cov["cli_route_scenarios"] = done


def extra(chk, pkg):
    """the nodegraph sub-stream, then the command-line routes that write an index"""
    cli_routes(chk, pkg)
    # the tree of base-class `Leaf`s (a Nodegraph per leaf; `Leaf.update/save/load/data`): oracle only
    n_g = 200 if chk.tier == "thorough" else 40
    text = "# case\n" + "".join(f"genericleaf {chk.rng.randint(0, 10 ** 9)}\n" for _ in range(n_g))
    rc, impl, err = common.run_impl(sbt.ADAPTER, text, pkg)
    for k, line in enumerate(impl[1:]):
        chk.cov["evaluations"] += 1
        if line != "ok 0":
            chk.add_violation("oracle", "C13:generic-leaf:cover-broken",
                              f"SBT of base-class Leaf nodes ({text.splitlines()[k + 1]}): {line} (violations of 'every ancestor's filter "
                              "answers present for everything counted into the leaves beneath it', before or after save+load)",
                              {"op": text.splitlines()[k + 1], "obs": line})
    if rc != 0:
        chk.add_violation("crash", "C13:generic-leaf:adapter-crash", err[-300:], {})
    chk.cov["generic_leaf_probes"] = n_g
    n = 5000 if chk.tier == "thorough" else 400
    fl = ["std", "std", "std", "std", "big"]
    cases = streamlib.corpus_cases("C13ng")
    cases += [ng.gen_case(chk.rng, fl[i % len(fl)]) for i in range(n)]
    res = streamlib.run_cases(ng, cases, pkg, procs=16)
    distinct = set()
    shrunk = 0
    for case, impl, model, crash in res:
        chk.cov["evaluations"] += 1
        if crash is not None:
            chk.add_violation("crash", "C13:ng:adapter-crash", f"the real code died on a nodegraph case: {crash[2][-300:]}",
                              {"case": case, "stderr": crash[2]})
            continue
        chk.cov["traces_validated_against_impl"] += 1
        if ng.nontrivial(case, impl):
            distinct.add(hash(tuple(case)))
        k = streamlib.first_diff(ng, impl, model)
        if k is not None:
            info = {"case": case, "impl": impl, "model": model, "first_diff_at": k}
            if shrunk < 2:
                shrunk += 1
                small = streamlib.shrink(ng, case, pkg, lambda c, i, m, cr: cr is None and streamlib.first_diff(ng, i, m) is not None)
                r = streamlib.run_cases(ng, [small], pkg, procs=1)[0]
                k2 = streamlib.first_diff(ng, r[1], r[2])
                if k2 is not None:
                    info = {"case": small, "impl": r[1], "model": r[2], "first_diff_at": k2}
            kk = info["first_diff_at"]
            opline = info["case"][kk] if kk < len(info["case"]) else "?"
            ob = ng.oracle(info["case"], info["impl"])
            if ob:
                idx, sig, msg = ob[0]
                chk.add_violation("oracle", sig, msg, dict(info, op_index=idx))
            else:
                chk.add_violation("correspondence", f"C13:ng:corr:{opline.split()[0] if opline.split() else '?'}",
                                  f"nodegraph model and implementation disagree at op `{opline[:100]}`: "
                                  f"impl={info['impl'][kk][:140] if kk < len(info['impl']) else '<none>'} "
                                  f"model={info['model'][kk][:140] if kk < len(info['model']) else '<none>'}", info, concrete=False)
        for idx, sig, msg in ng.oracle(case, impl):
            chk.add_violation("oracle", sig, msg, {"case": case[:idx + 1], "impl": impl[:idx + 1], "op_index": idx})
    chk.cov["ng_cases"] = len(cases)
    chk.cov["ng_distinct_nontrivial"] = len(distinct)
    # temp dirs of adapter processes that died before their own clean-up (older than 10 minutes)
    import shutil, time
    tmp = os.path.join(os.path.dirname(os.path.dirname(os.path.dirname(os.path.abspath(__file__)))), ".build", "tmp")
    if os.path.isdir(tmp):
        for d in os.listdir(tmp):
            p = os.path.join(tmp, d)
            if d.startswith("c13_") and os.path.isdir(p) and time.time() - os.path.getmtime(p) > 600:
                shutil.rmtree(p, ignore_errors=True)


if __name__ == "__main__":
    thorough = "thorough" in sys.argv or os.environ.get("VERIF_TIER") == "thorough"
    fl = ["insert", "small", "sparse", "reinsert", "big", "sparse", "insert", "legacy", "reinsert", "small", "resave", "combine", "damage"]
    if thorough:
        fl = ["insertT", "small", "sparseT", "reinsert", "big", "sparse", "insert", "legacy", "reinsert", "small", "resave", "combine", "damage"]
    streamlib.run_property("C13", sbt, fl, sbt.oracle, 900, 20000, TB, AS, RULE, nontrivial=sbt.nontrivial, extra=extra)
