#!/usr/bin/env python3
"""C18 - LCA databases map each hash to exactly the lineages of signatures containing it."""
import os, sys
sys.path.insert(0, os.path.dirname(os.path.abspath(__file__)))
sys.path.insert(0, os.path.dirname(os.path.dirname(os.path.abspath(__file__))))
import streamlib
from streams import lca

TB = [
    "Lean 4.33 kernel; axioms allowed: propext, Classical.choice, Quot.sound (checked by #print axioms on every theorem)",
    "hand-written model of LCA_Database (six tables, insert, _signatures with its batching, get_lineage_assignments, get_identifiers_for_hashval, downsample_scaled, JSON save/load followed by further insertions), of its SQLite twin (save_to_sql, LineageDB_Sqlite, _build_index), of build_tree/find_lca/count_lca_for_assignments/pop_to_rank and of the summarize/classify loops, tied to /repo by the lca correspondence stream (differential testing)",
    "translator: taxlist(), NCBI_RANKS, the SQL column orders, the comparison and threshold expression of downsample_scaled, the _signatures batch constant, the threshold comparisons of summarize/classify are re-read from the source on every run; LineageTree.add_lineage/find_lca are checked to be the same statements as lca_utils.build_tree/find_lca (AST comparison)",
    "the name -> identifier derivation of the SQLite form (name.split(' ')[0], name.split('.')[0]) is modelled by a structurally recursive function on characters (headUntil); on every `sig` op the Lean driver compares it with String.splitOn and the stream compares the resulting identifiers with Python's split",
    "`sourmash lca index` (Model/LcaIndex.lean: load_taxonomy_assignments with -C/--start-column, header detection, --split-identifiers, --keep-identifier-versions, null names, duplicate identifiers, -f; the main loop with duplicate md5s, --require-taxonomy, --fail-on-missing-taxonomy; the --report counts) is tied to the code by running the real argument parser and command on one-signature files and a generated spreadsheet (`index` op) and comparing exit code, report counts and every table of the database it wrote; argparse, csv, the signature file format are trusted",
    "the command-line layer (Model/LcaCli.lean: summarize_main / load_singletons_and_count / count_signature / output_csv, classify, make_lca_counts / rankinfo_main, compare_csv, zip_lineage / display_lineage / is_lineage_match / make_lineage; MultiLineageDB.save + LineageDB_Sqlite) is tied to the code by running sourmash.__main__.main(argv) in process on files the adapter writes (databases saved as JSON or their SQLite file, one query signature per file) and comparing the CSV rows / rank counts / verdict lines; the human-readable stdout of summarize is executed but not compared",
    "`lca index --split-identifiers`: the identifier normalisation of the spreadsheet side (load_taxonomy_assignments) and of the signature side (index) are two functions of the model, each selected by its own translator item (Gen.idxTaxVersionCut / Gen.idxSigVersionCut, read from the statement at its site); the oracle of the `index` op is written from the documentation (one normalisation for both sides) and checks every answer of the database the command wrote",
    "periphery: each modelled op reaches the code by one of several routes chosen by a per-case counter the model does not see "
    "(insert positional / keyword / list lineage / defaults; save / save(format=) / save_to_json / save_to_sql, .lca.json and .lca.json.gz; "
    "LCA_Database.load / load_single_database / load_databases / sourmash.load_file_as_index / LCA_SqliteDatabase.load (+ .select(ksize=)); "
    "`--db a b` / `--db a --db b`; `--query a b` / repeated / `--query-from-file` / both at once; build_tree at once / incrementally / "
    "LineageTree(RankLineageInfo)); every read op is executed twice by different routes (function / method / internal table) and must agree; "
    "after every op the views of one database are compared in the adapter (len vs signatures vs manifest, hashvals vs the union of the "
    "reconstructed sketches, the cached inverse tables _lid_to_idx / _idx_to_ident / _lineage_to_lid vs the primary ones, names); result objects "
    "handed out earlier (signatures, answers) are kept and re-verified after later calls (`recheck`)",
    "md5 is not modelled: the generator computes md5(str(internal ksize) + retained hashes) itself, the adapter refuses a `sig` op whose md5 is not the real md5sum, and the model takes it as given (default identifiers of unnamed signatures, duplicate detection of `lca index`)",
    "`minhash.downsample(scaled=S).hashes` is modelled as the sketch's hashes <= max_hash (C01/C03's subject); Python dict ordering is modelled as insertion order; the iteration order of Python sets (the idx sets of _hashval_to_idx, rebuilt with set(list) by load) is a CPython artefact: the model keeps first-insertion order and every observation that comes out of a set (lineage lists, identifier lists, hash values, signatures) is sorted on both sides; json, sqlite3, gzip, the filesystem are trusted",
]
AS = [
    "lineages are positional (rank i of taxlist() at position i, empty name = missing rank) when a database is stored; lineages whose names are all empty, rank-skipping lineages and signatures without a name are not generated for databases (find_lca itself is exercised on arbitrary pair sequences)",
    "signature names are built from distinct accessions, so that the identifiers the SQLite form derives from names do not collide (the row order of the SQLite form depends on CPython's set iteration order, which is not modelled)",
    "an LCA is computed on the taxa a lineage names (pairs with a non-empty name), position by position",
]
RULE = ("histories: 1..12 signatures (hashes shared heavily; values at max_hash(S) and +-1 of the database's scaled value and of the "
        "downsampling target), lineages full/partial/with a missing rank/padded/absent/identical for several signatures, identifiers "
        "default/first word/version-stripped/arbitrary/colliding, insertion orders, refused insertions; every hash queried on the "
        "in-memory database, after JSON save/load (and after further insertions into the loaded database and a second round trip), after conversion to SQLite, after downsample_scaled on each form and on a database "
        "built directly at the target scaled; summarize/classify with thresholds 0..5; find_lca on arbitrary lineage sets by both "
        "implementations; DNA / protein / dayhoff / hp databases; unnamed signatures (filename / md5-prefix identifiers); "
        "`sourmash lca index` runs with generated spreadsheets and option sets (conflicting duplicate rows under --force, identifiers normalising to the empty string).  "
        "Every form is queried (la/ids/hv/sigs) before and after each downsample_scaled, two downsamplings in a row with queries in between, the downsampled database saved and reloaded; "
        "earlier answers re-verified at the end of each case.  non-trivial = >= 2 accepted insertions and >= 3 non-empty lineage answers (or >= 3 find_lca answers); "
        "distinct = distinct op lists")


def classify(case, impl, model, k):
    op = case[k].split()[0] if k < len(case) and case[k].split() else "?"
    return f"C18:corr:{op}"


if __name__ == "__main__":
    streamlib.run_property("C18", lca, ["db", "forms", "down", "fn", "summ", "down", "big", "db", "forms", "down", "fn", "summ", "index", "big", "cli", "cli"], lca.oracle,
                           4000, 60000, TB, AS, RULE, nontrivial=lca.nontrivial, classify=classify)
