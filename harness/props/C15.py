#!/usr/bin/env python3
"""C15 - queries, comparisons and saves never modify their inputs; repeated calls agree."""
import os, sys
sys.path.insert(0, os.path.dirname(os.path.abspath(__file__)))
sys.path.insert(0, os.path.dirname(os.path.dirname(os.path.abspath(__file__))))
import streamlib
from streams import own

TB = [
    "Lean 4.33 kernel; axioms allowed: propext, Classical.choice, Quot.sound (checked by #print axioms on every theorem)",
    "the alias/clone table of Model/Ownership.lean + Model/OwnObj.lean (which entry point writes its receiver, which returns a fresh object, what a signature / a view holds by value and what by reference) is transcribed by hand from minhash.py / signature.py / ffi/signature.rs / index/__init__.py / manifest.py / sbt.py / lca_db.py / search.py and checked against the real objects after EVERY op of every history: content of all live sketches, signatures and collection views, frozen flags, object identity classes, a view's own state (member references, selection dict, manifest row identities and keys, picklists) and what signatures() yields",
    "selection semantics inside the view model (select_signature / CollectionManifest._select restricted to ksize, moltype, scaled, num, abund, containment over DNA k=21 sketches) duplicates a sliver of C12's model; k-mer hashing for add_sequence is C02's model (Murmur3 + SeqToHashes)",
    "domain guards answered `bad-op` by BOTH sides: collections written to disk need pairwise distinct hash lists (C10.1), SBT / LCA_Database members one common scaled, LCA identifiers non-empty distinct names; picklists (name column) only on the in-place kinds",
    "CPython / cffi object lifetime and aliasing inside native code are observed, not proved",
]
AS = ["PARTIAL by nature: the frame theorem is relative to the alias table; the monitor does the detecting",
      "read-only calls are executed twice in the adapter; float results compared bit-exactly (same process, same inputs)"]
RULE = ("periphery round: several ROUTES to one modelled op under a per-case counter the model does not see (merge / += / __iadd__, + / |, & / "
        "intersection, copy() / copy.copy / __copy__, to_mutable / __copy__, add_hash / add_many, add_sequence / add_kmer, name / _name setters, "
        "pickle / deepcopy, three ways to build a SourmashSignature and a LinearIndex, search() / find(), signatures() / signatures_with_location()); "
        "after EVERY op the adapter asserts that two ways of reading the same object agree (A=: len vs iteration vs .hashes vs get_mins, md5 of a signature "
        "vs md5 of its sketch, len(view) vs signatures(), signatures() vs signatures_with_location(), manifest rows vs the signatures they describe) and "
        "that every result object an earlier call returned still reads the same (K=: search / prefetch / gather results, SearchResult / PrefetchResult / "
        "GatherResult dictionaries, manifests, CounterGather); sketch-level add_sequence / add_protein modelled; num sketches; result classes; "
        "CLI helpers (get_manifest, _summarize_manifest, apply_picklist_and_pattern) on live views; round 6: constructors that take EXISTING views as input (MultiIndex.load over views of any ordered kind with labels / None and "
        "prepend_location, LinearIndex / SBT / LCA_Database built from view.signatures(), StandaloneManifestIndex over an exported manifest, "
        "MultiIndex.load_from_path / _directory / _pathlist over a saved view, CounterGather from a view driven by peek/consume, SBT.combine, index "
        "objects wrapped around a live manifest, get_manifest); the dump holds the LOCATIONS every view reports (Index.location, "
        "signatures_with_location, search result locations, the internal_location column), temp dirs and md5 member names canonicalised; round 4: the dump of every view also holds what it ANSWERS - len(view), `ss in view.manifest` for every signature of the world, a "
        "containment search with a probe query (lowest-handle flat scaled signature) - so hidden indices/caches show; manifest-level read-only ops "
        "(`vmf add|eq|in|select|filter|misc` on the manifests of two views: a+b, b+a, a+a, ==, in, select_to_manifest, _select, filter_rows, "
        "filter_on_columns, to_picklist, locations, len, iteration, write_to_csv twice); ad-hoc zips whose member files hold 2-4 signatures (`vzipg`); "
        "partly consumed search generators (`vro interleave`); MultiIndex with parent / prepend_location; flavour disk: collections LOADED from disk (SBT from .sbt.zip / .sbt.json with node cache sizes unbounded / 1 / 2, SqliteIndex, "
        "LCA_Database from JSON, LCA_SqliteDatabase) next to in-memory ones, interleaved selects (copying and in-place), searches / prefetch / gather "
        "run twice, and SAVES as read-only ops on every kind (SBT.save zip + directory storage, LinearIndex.save, SaveSignaturesToLocation to "
        "zip/.sig/dir/sqldb, LCA_Database.save json+sql, manifest.write_to_filename csv+sql; the collection must answer the same before and twice after); "
        "flavours sigs/views/inplace: histories of 6..28 ops over 2-4 sketches, 2-6 signature objects and up to ~8 collection views "
        "(SourmashSignature(mh,name,filename), .minhash getter/setter, name/filename setters, add_sequence/add_protein incl. invalid k-mers, "
        "to_mutable/to_frozen/into_frozen/copy/pickle/update()/__setstate__, GatherDatabases.__init__, Index.counter_gather; LinearIndex, LazyLinearIndex, "
        "ZipFileLinearIndex with/without manifest, MultiIndex, StandaloneManifestIndex, SBT, LCA_Database: select with 1-3 criteria incl. None values, "
        "name picklists on the in-place kinds, insert, signatures()[i], manifest export / search / prefetch / gather run twice), all MODELLED; "
        "flavours frozen/readonly/alias: histories of 4..30 ops over 2-3 sketches and their copies: every mutator (incl. the track_abundance setter) on mutable and frozen objects, "
        "to_mutable/to_frozen/into_frozen/copy/flatten/downsample/SourmashSignature(mh).minhash/+/&, and read-only calls "
        "(count_common, similarity, jaccard, containment family, angular, ANI, md5, pickle, &, |, flatten_and_* helpers, save+load, LinearIndex search/"
        "containment search/prefetch, gather, compare_all_pairs, MultiIndex manifest export) each executed twice; after every op the whole object table is "
        "dumped; non-trivial = >= 4 successful ops and at least one read-only call or frozen object; distinct = distinct op lists")

if __name__ == "__main__":
    streamlib.run_property("C15", own, ["frozen", "readonly", "alias", "sigs", "views", "inplace", "disk"], own.oracle, 1050, 28000, TB, AS, RULE,
                           nontrivial=own.nontrivial)
