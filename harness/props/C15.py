#!/usr/bin/env python3
"""C15 - queries, comparisons and saves never modify their inputs; repeated calls agree."""
import os, sys
sys.path.insert(0, os.path.dirname(os.path.abspath(__file__)))
sys.path.insert(0, os.path.dirname(os.path.dirname(os.path.abspath(__file__))))
import streamlib
from streams import own

TB = [
    "Lean 4.33 kernel; axioms allowed: propext, Classical.choice, Quot.sound (checked by #print axioms on every theorem)",
    "the alias/clone table of Model/Ownership.lean (which entry point writes its receiver, which returns a fresh object) is transcribed by hand from minhash.py / signature.py / ffi/signature.rs and checked against the real objects after EVERY op of every history: content of all live objects, frozen flags and object identity classes",
    "CPython / cffi object lifetime and aliasing inside native code are observed, not proved",
]
AS = ["PARTIAL by nature: the frame theorem is relative to the alias table; the monitor does the detecting",
      "read-only calls are executed twice in the adapter; float results compared bit-exactly (same process, same inputs)"]
RULE = ("histories of 4..30 ops over 2-3 sketches and their copies: every mutator (incl. the track_abundance setter) on mutable and frozen objects, "
        "to_mutable/to_frozen/into_frozen/copy/flatten/downsample/SourmashSignature(mh).minhash/+/&, and read-only calls "
        "(count_common, similarity, jaccard, containment family, angular, ANI, md5, pickle, &, |, flatten_and_* helpers, save+load, LinearIndex search/"
        "containment search/prefetch, gather, compare_all_pairs, MultiIndex manifest export) each executed twice; after every op the whole object table is "
        "dumped; non-trivial = >= 4 successful ops and at least one read-only call or frozen object; distinct = distinct op lists")

if __name__ == "__main__":
    streamlib.run_property("C15", own, ["frozen", "readonly", "alias"], own.oracle, 600, 20000, TB, AS, RULE,
                           nontrivial=own.nontrivial)
