#!/bin/sh
# harness/integrate.sh <agent-name> : copy NEW files from an agent's private copy into /verif, list conflicts
W=/var/tmp/agents/$1/verif
cd /verif
for d in lean/SmVerif/Model lean/SmVerif/Lemmas lean/SmVerif/Props harness/adapters harness/streams harness/props harness/translators harness/c20 corpus patches rust-harness/src; do
  [ -d "$W/$d" ] || continue
  mkdir -p "$d"
  rsync -a --ignore-existing --exclude __pycache__ "$W/$d/" "$d/"
done
echo "--- files present on both sides that differ (review by hand):"
for d in lean/SmVerif/Model lean/SmVerif/Lemmas lean/SmVerif/Props harness lean rust-harness/src; do
  [ -d "$W/$d" ] || continue
  diff -rq --exclude __pycache__ --exclude .lake --exclude "*.pyc" "$W/$d" "/verif/$d" 2>/dev/null | grep "^Files" | grep -v "Generated.lean"
done | sort -u
