#!/usr/bin/env python3
"""Self-seeded changes for C06's PERIPHERAL surface (outside Index.find / the score functions): glue, caches, rarely
used options, cooperating sites.  Usage (never touches /repo itself):

    git -C /repo worktree add --detach <WT> HEAD
    C06_WT=<WT> python3 harness/mutations_C06_periphery.py [name-prefix ...]
    git -C /repo worktree remove --force <WT>; git -C /repo worktree prune; rm -rf <verif>/.build_wt
    python3 harness/translate.py        # restore lean/SmVerif/Model/Generated.lean

Every seed is applied alone, `./check C06 --tier quick` (VERIF_C06_N cases, default 500) is run against the worktree
with VERIF_REPO / VERIF_BUILD pointing at it, and the non-known lines are printed.  A catch counts only with a concrete
input (no `no-failing-input-found`).  Last results (2026-10): all caught with a concrete input except P12, which is an
EQUIVALENT change (collect() is only called after passes(score), i.e. score >= threshold, so max(threshold, score) ==
score; only the translator notices the new shape).  P18 and P19 were missed at first and closed by the relative-path
routes and the LazyLinearIndex-over-a-directory route of the adapter; P16 was first caught by the command line only and
is now also caught through Index.prefetch() called without its keyword."""
import os, subprocess, sys
V = os.path.dirname(os.path.dirname(os.path.abspath(__file__)))
WT = os.environ.get("C06_WT", "/var/tmp/agents/c06/repo_wt")
S = "src/sourmash/"
SEEDS = [
 ("P01-multiindex-location-join", S+"index/__init__.py",
  "            if self.prepend_location:\n                loc = os.path.join(self.parent, loc)\n            yield row[\"signature\"], loc",
  "            yield row[\"signature\"], loc"),
 ("P02-result-filename-from-match", S+"search.py",
  "        if self.filename is None and self.match_filename is not None:",
  "        if self.match_filename is not None:"),
 ("P03-prefetch-match_bp-from-query", S+"search.py",
  "        self.match_bp = self.mh2.unique_dataset_hashes",
  "        self.match_bp = self.mh1.unique_dataset_hashes"),
 ("P04-abund-search-unsorted", S+"search.py",
  "    # sort results on similarity (reverse)\n    results.sort(key=lambda x: -x[0])\n\n    x = []\n    for score, match, filename in results:\n        x.append(SearchResult(query, match, similarity=score, filename=filename))",
  "    x = []\n    for score, match, filename in results:\n        x.append(SearchResult(query, match, similarity=score, filename=filename))"),
 ("P05-load-dbs-always-containment", S+"sourmash_args.py",
  "    if is_similarity_query:\n        containment = False",
  "    if is_similarity_query:\n        containment = True"),
 ("P06-manifest-index-no-picklist", S+"index/__init__.py",
  "            idx = sourmash.load_file_as_index(iloc)\n            idx = idx.select(picklist=picklist)\n            for ss in idx.signatures():\n                yield ss, iloc",
  "            idx = sourmash.load_file_as_index(iloc)\n            for ss in idx.signatures():\n                yield ss, iloc"),
 ("P07-search-abund-own-location", S+"index/__init__.py",
  "                matches.append(IndexSearchResult(score, subj, loc))",
  "                matches.append(IndexSearchResult(score, subj, self.location))"),
 ("P08-save-matches-only-displayed", S+"commands.py",
  "        with SaveSignaturesToLocation(args.save_matches) as save_sig:\n            for sr in results:\n                save_sig.add(sr.match)",
  "        with SaveSignaturesToLocation(args.save_matches) as save_sig:\n            for sr in results[:n_matches]:\n                save_sig.add(sr.match)"),
 ("P09-best-only-display-count", S+"commands.py",
  "    if args.best_only:\n        args.num_results = 1\n", "    if args.best_only and args.num_results:\n        args.num_results = 1\n"),
 ("P10-prefetch-common-scaled-not-carried", S+"commands.py",
  "                match.minhash.scaled, query.minhash.scaled, common_scaled\n",
  "                match.minhash.scaled, query.minhash.scaled\n"),
 ("P11-prefetch-unmatched-not-flattened", S+"commands.py",
  "            noident_mh.remove_many(match_mh)",
  "            noident_mh.remove_many(query_mh & match_mh.flatten()) if len(match_mh) > 2 else None"),
 ("P12-best-only-ratchet-lost", S+"search.py",
  "        self.threshold = max(self.threshold, score)\n        return True",
  "        self.threshold = score\n        return True"),
 ("P13-ignore-abundance-keeps-abund-db-path", S+"commands.py",
  "                with query.update() as query:\n                    query.minhash = query.minhash.flatten()",
  "                with query.update() as query:\n                    query.minhash = query.minhash.flatten() if len(query.minhash) > 3 else query.minhash"),
 ("P14-csv-only-displayed-rows", S+"commands.py",
  "            for sr in results:\n                # if this is the first result we're writing",
  "            for sr in results[:max(n_matches, 3)]:\n                # if this is the first result we're writing"),
 ("P15-search-query-object-memoised", S+"search.py",
  "def make_jaccard_search_query(\n",
  "import functools\n\n\n@functools.lru_cache(maxsize=None)\ndef make_jaccard_search_query(\n"),
 ("P16-prefetch-default-best-only", S+"index/__init__.py",
  "        best_only = kwargs.get(\"best_only\", False)",
  "        best_only = kwargs.get(\"best_only\", len(query.minhash) > 6)"),
 ("P17-searchresult-cmp-scaled-query", S+"search.py",
  "        self.cmp_scaled = self.cmp.cmp_scaled\n",
  "        self.cmp_scaled = self.mh1.scaled\n"),
 ("P18-multiindex-load-ignores-source", S+"index/__init__.py",
  "                if iloc is None:\n                    iloc = idx.location",
  "                if iloc is None or True:\n                    iloc = idx.location"),
 ("P19-lazy-location-of-wrapped-db", S+"index/__init__.py",
  "        db = self.db.select(**self.selection_dict)\n        yield from db.signatures_with_location()",
  "        db = self.db.select(**self.selection_dict)\n        for ss in db.signatures():\n            yield ss, db.location"),
 ("P20-index-search-unsorted", S+"index/__init__.py",
  "        # sort!\n        matches.sort(key=lambda x: -x.score)\n        return matches\n\n    def prefetch",
  "        return matches\n\n    def prefetch"),
 ("P23-search-abund-unsorted", S+"index/__init__.py",
  "        # sort!\n        matches.sort(key=lambda x: -x.score)\n        return matches\n\n    def search(",
  "        return matches\n\n    def search("),
 ("P21-result-md5-from-query", S+"search.py",
  "        self.md5 = self.match_md5\n",
  "        self.md5 = self.query_md5\n"),
 ("P22-flat-dedupe-by-md5-only", S+"search.py",
  "            md5 = (match.md5sum(), match.minhash.scaled, match.minhash.num)\n            if md5 not in found_md5:\n                results.append((score, match, filename))\n                found_md5.add(md5)\n\n    # sort results on similarity (reverse)\n    results.sort(key=lambda x: -x[0])\n\n    # redefine",
  "            md5 = match.md5sum()\n            if md5 not in found_md5:\n                results.append((score, match, filename))\n                found_md5.add(md5)\n\n    # sort results on similarity (reverse)\n    results.sort(key=lambda x: -x[0])\n\n    # redefine"),
]


def run(name, path, old, new):
    subprocess.run(["git", "-C", WT, "checkout", "-q", "--", "."], check=True)
    p = os.path.join(WT, path)
    src = open(p).read()
    if old not in src:
        print(f"{name}: pattern not found in {path}")
        return
    open(p, "w").write(src.replace(old, new, 1))
    env = dict(os.environ, VERIF_REPO=WT, VERIF_BUILD=os.path.join(V, ".build_wt"),
               VERIF_C06_N=os.environ.get("VERIF_C06_N", "500"))
    r = subprocess.run([os.path.join(V, "check"), "C06", "--tier", "quick"], cwd=V, env=env, capture_output=True, text=True)
    lines = [l for l in r.stdout.split("\n") if l and not l.startswith("KNOWN-FINDING")]
    concrete = [l for l in lines if "no-failing-input-found" not in l]
    print(f"{name}: exit {r.returncode}; {'CAUGHT' if concrete else 'MISSED'}")
    for l in lines[:4]:
        print("   ", l[:300])
    subprocess.run(["git", "-C", WT, "checkout", "-q", "--", "."], check=True)


if __name__ == "__main__":
    want = sys.argv[1:]
    for name, path, old, new in SEEDS:
        if not want or any(name.startswith(w) for w in want):
            run(name, path, old, new)
