"""Generic correspondence-stream runner.

A *stream* is a module (harness/streams/<name>.py) with

    MODULE   : str   -- first argument of `lake env lean --run Main.lean <MODULE>`
    ADAPTER  : str   -- file name under harness/adapters/ (run with /venv/bin/python,
                        PYTHONPATH = package built from /repo's working tree)
    gen_case(rng, flavour) -> list[str]      -- one case = list of op lines (no '#' lines)
    post_model(lines) -> lines               -- optional canonicalisation of model output
    post_impl(lines)  -> lines               -- optional canonicalisation of impl output
    same(a, b) -> bool                       -- optional line comparison (default ==),
                                                e.g. tolerance on floats

Both sides read the same text: every case is preceded by a line `# case`; both
sides must answer `#` to it (and reset their state) and exactly one line per op.
"""
import json
import os
import sys

sys.path.insert(0, os.path.dirname(os.path.abspath(__file__)))
import common  # noqa: E402


def _ident(x):
    return x


def run_chunk(args):
    stream, cases, pkg = args
    if isinstance(stream, str):
        stream = _mod(stream)
    text = "".join("# case\n" + "".join(l + "\n" for l in c) for c in cases)
    rc, impl, err = common.run_impl(stream.ADAPTER, text, pkg)
    if rc != 0:
        return ("impl-crash", rc, err[-3000:], impl)
    impl = getattr(stream, "post_impl", _ident)(impl)
    model = getattr(stream, "post_model", _ident)(common.run_model(stream.MODULE, text))
    return ("ok", common.split_cases(impl), common.split_cases(model))


def _mod(name):
    import importlib
    return importlib.import_module(name)


def run_cases(stream, cases, pkg, procs=8, per_proc_min=20):
    """-> list of (case, impl_out | None, model_out | None, crash | None)"""
    if not cases:
        return []
    s = stream.__name__
    n = max(1, min(procs, len(cases) // per_proc_min or 1))
    chunks = [cases[i::n] for i in range(n)]
    res = common.par_map(run_chunk, [(s, c, pkg) for c in chunks], procs=n)
    out = []
    for chunk, r in zip(chunks, res):
        if r[0] != "ok":
            # the adapter process died: isolate the case by running one at a time
            for c in chunk:
                r1 = run_chunk((s, [c], pkg))
                if r1[0] != "ok":
                    out.append((c, None, None, r1))
                else:
                    out.append((c, r1[1][0], r1[2][0], None))
            continue
        _, impl, model = r
        if len(impl) != len(chunk) or len(model) != len(chunk):
            raise common.ToolFailure(f"case count mismatch in stream {stream.__name__}: "
                                     f"{len(chunk)} cases, impl {len(impl)}, model {len(model)}")
        for c, i, m in zip(chunk, impl, model):
            out.append((c, i, m, None))
    return out


def first_diff(stream, impl, model):
    same = getattr(stream, "same", None) or (lambda a, b: a == b)
    for k, (a, b) in enumerate(zip(impl, model)):
        if b == "skip":          # implementation-only op: the property oracle decides, not the model
            continue
        if not same(a, b):
            return k
    if len(impl) != len(model):
        return min(len(impl), len(model))
    return None


def shrink(stream, case, pkg, still_fails, max_rounds=14):
    """delta-debug the op list; `still_fails(case, impl, model, crash)` decides"""
    cur = list(case)
    n = 2
    rounds = 0
    while len(cur) >= 2 and rounds < max_rounds:
        rounds += 1
        size = max(1, len(cur) // n)
        cands = [cur[:i] + cur[i + size:] for i in range(0, len(cur), size)]
        cands = [c for c in cands if c]
        res = run_cases(stream, cands, pkg, procs=1)
        hit = None
        for c, impl, model, crash in res:
            if still_fails(c, impl, model, crash):
                hit = c
                break
        if hit is not None:
            cur = hit
            n = max(n - 1, 2)
        elif size == 1:
            break
        else:
            n = min(len(cur), n * 2)
    return cur


def corpus_cases(prop_id):
    d = os.path.join(common.VERIF, "corpus", prop_id)
    out = []
    if os.path.isdir(d):
        for f in sorted(os.listdir(d)):
            if f.endswith(".ops"):
                out.append([l.rstrip("\n") for l in open(os.path.join(d, f))
                            if l.strip() and not l.startswith("#")])
    return out


def run_property(prop_id, stream, flavours, oracle, n_quick, n_thorough, trusted_base, assumptions, rule,
                 nontrivial=None, extra=None, classify=None):
    """The standard check: build, translate, prove+audit, correspondence, oracle, verdict.

    oracle(case, impl_out) -> list of (op_index, signature, message); signatures starting
    with 'skip:' mean the case is outside the stated assumptions.
    nontrivial(case, impl_out) -> bool  (default: >= 3 distinct 'ok' observations)
    extra(chk, pkg) -> None : additional property-specific work (may call chk.add_violation)
    classify(case, impl, model, k) -> signature for a correspondence disagreement (default by op name)
    """
    chk = common.Check(prop_id, trusted_base, assumptions)
    pkg = chk.build()
    chk.translate()
    chk.prove()
    if chk.replay:
        p = chk.replay if os.path.isabs(chk.replay) else os.path.join(common.VERIF, chk.replay)
        data = json.load(open(p))
        cases = [data["data"]["case"]] if "case" in data.get("data", {}) else []
    else:
        n = n_thorough if chk.tier == "thorough" else n_quick
        cases = corpus_cases(prop_id)
        for i in range(n):
            cases.append(stream.gen_case(chk.rng, flavours[i % len(flavours)]))
    try:
        results = run_cases(stream, cases, pkg, procs=16)
    except common.ToolFailure as e:
        chk.exit_tool(str(e))
    distinct = set()
    opcount = {}
    n_corr_bad = 0
    shrink_budget = 3
    for case, impl, model, crash in results:
        chk.cov["evaluations"] += 1
        for l in case:
            o = l.split()[0] if l.split() else "?"
            opcount[o] = opcount.get(o, 0) + 1
        if crash is not None:
            chk.add_violation("crash", f"{prop_id}:adapter-crash",
                              f"the real code died on a case (exit {crash[1]}): {crash[2][-300:]}",
                              {"case": case, "stderr": crash[2]})
            continue
        chk.cov["traces_validated_against_impl"] += 1
        if nontrivial is not None:
            nt = nontrivial(case, impl)
        else:
            nt = len({o for o in impl if o.startswith("ok")}) >= 3
        if nt:
            distinct.add(hash(tuple(case)))
        k = first_diff(stream, impl, model)
        if k is not None:
            n_corr_bad += 1
            info = {"case": case, "impl": impl, "model": model, "first_diff_at": k}
            if shrink_budget > 0:
                shrink_budget -= 1
                small = shrink(stream, case, pkg,
                               lambda c, i, m, cr: cr is None and first_diff(stream, i, m) is not None)
                r = run_cases(stream, [small], pkg, procs=1)[0]
                k2 = first_diff(stream, r[1], r[2])
                if k2 is not None:
                    info = {"case": small, "impl": r[1], "model": r[2], "first_diff_at": k2, "original_case": case}
            kk = info["first_diff_at"]
            opline = info["case"][kk] if kk < len(info["case"]) else "?"
            ob = [b for b in oracle(info["case"], info["impl"]) if not b[1].startswith("skip:")]
            if ob:
                idx, sig, msg = ob[0]
                chk.add_violation("oracle", sig, msg, dict(info, op_index=idx))
            else:
                sig = classify(info["case"], info["impl"], info["model"], kk) if classify else \
                    f"{prop_id}:corr:{opline.split()[0] if opline.split() else '?'}"
                chk.add_violation(
                    "correspondence", sig,
                    f"model and implementation disagree at op `{opline[:100]}`: "
                    f"impl={info['impl'][kk][:140] if kk < len(info['impl']) else '<none>'} "
                    f"model={info['model'][kk][:140] if kk < len(info['model']) else '<none>'}",
                    info, concrete=False)
        for idx, sig, msg in oracle(case, impl):
            if sig.startswith("skip:"):
                continue
            chk.add_violation("oracle", sig, msg,
                              {"case": case[:idx + 1], "impl": impl[:idx + 1], "op_index": idx})
    if extra is not None:
        extra(chk, pkg)
    chk.cov["distinct_nontrivial"] = len(distinct)
    chk.cov["rule"] = rule
    chk.cov["op_distribution"] = opcount
    chk.cov["correspondence_disagreements"] = n_corr_bad
    chk.cov["samples"] = [{"case": c[:40], "impl": i[:40]} for c, i, m, cr in results[-3:] if i is not None] + \
        chk.cov.get("samples", [])
    chk.finish()
