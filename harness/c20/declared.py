"""C20, damage class 'declared sizes': the DATA of a file stays correct, a length / count field that DECLARES how much
data there is gets inflated (or zeroed) — the class of D19 (nodegraph tablesize), C20.1 (SBT position keys) and of
seeded C20e (zip member uncompressed size -> Vec::with_capacity).  A reader must treat a declared size as a claim, never
as an allocation request.

zip members (zip collection and .sbt.zip; for the manifest member, a signature / leaf member, an SBT node member, the
SBT description):
  * uncompressed size inflated through a zip64 extra field (2**33, 2**40, 2**60, 2**62) IDENTICALLY in the local header
    and in the central directory entry (piz compares the two: one-sided inflation is an ordinary error — also generated),
  * inflated in the plain 32-bit field, declared 0, compressed size inflated, both inflated,
  * stored and deflated members,
  * end-of-central-directory: entry count / directory size inflated.
gzip: ISIZE trailer (declared uncompressed length mod 2**32) wrong, FEXTRA with a declared length that is not there —
  for the standalone .sig.gz and for a .sig.gz member inside a zip (zip CRC recomputed: only the gzip layer lies).
SQLite: page size, in-header database size (pages), freelist page count.
(nodegraph tablesize / n_tables: every 8-byte window is inflated by the byte mutator of props/C20.py; JSON arrays and CSV
rows carry no declared length.)

Every function returns [(label, bytes)]; `honest` entries are byte-for-byte re-writes with TRUE sizes and must load."""
import io
import struct
import zipfile
import zlib

BIG = (2 ** 33, 2 ** 40, 2 ** 60, 2 ** 62)


def _members(seed):
    with zipfile.ZipFile(io.BytesIO(seed)) as zf:
        return [(zi.filename, zf.read(zi)) for zi in zf.infolist()]


def write_zip(members, lies=None, method=0, eocd=None):
    """members: [(name, data)].  lies: {name: dict(usize_lh=, usize_cd=, csize_lh=, csize_cd=, zip64=bool)} — a value of
    None means 'the truth'.  method 0 = stored, 8 = deflated.  eocd: dict(entries=, cdsize=) overrides."""
    lies = lies or {}
    out = bytearray()
    central = bytearray()
    for name, data in members:
        bname = name.encode("utf-8")
        crc = zlib.crc32(data) & 0xFFFFFFFF
        if method == 8 and not name.endswith("/"):
            co = zlib.compressobj(6, zlib.DEFLATED, -15)
            payload = co.compress(data) + co.flush()
            meth = 8
        else:
            payload = data
            meth = 0
        lie = lies.get(name, {})

        def fields(which):
            us = lie.get("usize_" + which)
            cs = lie.get("csize_" + which)
            us = len(data) if us is None else us
            cs = len(payload) if cs is None else cs
            extra = b""
            if lie.get("zip64") and (us != len(data) or cs != len(payload)):
                body = b""
                us32, cs32 = us, cs
                if us != len(data) or us > 0xFFFFFFFE:
                    body += struct.pack("<Q", us)
                    us32 = 0xFFFFFFFF
                if cs != len(payload) or cs > 0xFFFFFFFE:
                    if not body:                     # zip64 extra lists the original size first
                        body += struct.pack("<Q", us)
                        us32 = 0xFFFFFFFF
                    body += struct.pack("<Q", cs)
                    cs32 = 0xFFFFFFFF
                extra = struct.pack("<HH", 0x0001, len(body)) + body
                return us32, cs32, extra
            return us & 0xFFFFFFFF, cs & 0xFFFFFFFF, extra
        offset = len(out)
        us, cs, extra = fields("lh")
        out += struct.pack("<IHHHHHIIIHH", 0x04034B50, 45, 0x0800, meth, 0, 0x21, crc, cs, us, len(bname), len(extra))
        out += bname + extra + payload
        us, cs, extra = fields("cd")
        central += struct.pack("<IHHHHHHIIIHHHHHII", 0x02014B50, 45, 45, 0x0800, meth, 0, 0x21, crc, cs, us,
                               len(bname), len(extra), 0, 0, 0, 0o444 << 16, offset)
        central += bname + extra
    cd_offset = len(out)
    out += central
    e = eocd or {}
    n = e.get("entries", len(members))
    out += struct.pack("<IHHHHIIH", 0x06054B50, 0, 0, n & 0xFFFF, n & 0xFFFF, e.get("cdsize", len(central)) & 0xFFFFFFFF,
                       cd_offset, 0)
    return bytes(out)


def _pick_targets(members):
    """one member per role"""
    roles = {}
    for name, _ in members:
        b = name.rsplit("/", 1)[-1]
        if name.endswith("/"):
            continue
        if b == "SOURMASH-MANIFEST.csv" or b.endswith("manifest.csv"):
            roles.setdefault("manifest", name)
        elif b.endswith(".sbt.json"):
            roles.setdefault("description", name)
        elif b.startswith("internal."):
            roles.setdefault("node", name)
        else:
            roles.setdefault("sig", name)
    return roles


def zip_declared(seed, rng, thorough=False):
    ms = _members(seed)
    roles = _pick_targets(ms)
    out = [("honest-stored", write_zip(ms)), ("honest-deflated", write_zip(ms, method=8))]
    for role, name in roles.items():
        for v in BIG:
            out.append((f"usize-zip64-{v.bit_length() - 1}:{role}", write_zip(ms, {name: dict(usize_lh=v, usize_cd=v, zip64=True)})))
        v = 2 ** 60
        out.append((f"usize-zip64-60-deflated:{role}", write_zip(ms, {name: dict(usize_lh=v, usize_cd=v, zip64=True)}, method=8)))
        out.append((f"usize-zip64-60-local-only:{role}", write_zip(ms, {name: dict(usize_lh=v, zip64=True)})))
        out.append((f"usize-zip64-60-central-only:{role}", write_zip(ms, {name: dict(usize_cd=v, zip64=True)})))
        out.append((f"usize-32bit-max:{role}", write_zip(ms, {name: dict(usize_lh=0xFFFFFFFE, usize_cd=0xFFFFFFFE)})))
        out.append((f"usize-zero:{role}", write_zip(ms, {name: dict(usize_lh=0, usize_cd=0)})))
        out.append((f"csize-zip64-40:{role}", write_zip(ms, {name: dict(csize_lh=2 ** 40, csize_cd=2 ** 40, zip64=True)})))
        out.append((f"csize-32bit-max:{role}", write_zip(ms, {name: dict(csize_lh=0xFFFFFFFE, csize_cd=0xFFFFFFFE)})))
        out.append((f"both-zip64-60:{role}", write_zip(ms, {name: dict(usize_lh=v, usize_cd=v, csize_lh=v, csize_cd=v, zip64=True)})))
        out.append((f"both-zip64-60-deflated:{role}", write_zip(ms, {name: dict(usize_lh=v, usize_cd=v, csize_lh=v, csize_cd=v, zip64=True)}, method=8)))
    # every member at once
    out.append(("usize-zip64-60:all", write_zip(ms, {n: dict(usize_lh=2 ** 60, usize_cd=2 ** 60, zip64=True) for n, _ in ms if not n.endswith("/")})))
    out.append(("eocd-entries-65535", write_zip(ms, eocd=dict(entries=0xFFFF))))
    out.append(("eocd-entries-0", write_zip(ms, eocd=dict(entries=0))))
    out.append(("eocd-cdsize-max", write_zip(ms, eocd=dict(cdsize=0xFFFFFFFE))))
    # the gzip layer of a signature member lies, the zip layer is consistent
    if "sig" in roles:
        name = roles["sig"]
        data = dict(ms)[name]
        if data[:2] == b"\x1f\x8b":
            for label, g in gzip_declared(data):
                if label.startswith("honest"):
                    continue
                out.append((f"member-gzip-{label}:sig", write_zip([(n, g if n == name else d) for n, d in ms])))
    return out


def gzip_declared(seed):
    out = [("honest", seed)]
    if len(seed) < 18 or seed[:2] != b"\x1f\x8b":
        return out
    body = seed[:-4]
    for label, v in (("isize-zero", 0), ("isize-max", 0xFFFFFFFF), ("isize-plus1", (struct.unpack("<I", seed[-4:])[0] + 1) & 0xFFFFFFFF),
                     ("isize-2^31", 2 ** 31)):
        out.append((label, body + struct.pack("<I", v)))
    # FEXTRA: a declared extra-field length with nothing (or too little) behind it
    flg = seed[3]
    if not flg & 4:
        hdr = bytearray(seed[:10])
        hdr[3] = flg | 4
        out.append(("fextra-xlen-65535", bytes(hdr) + struct.pack("<H", 0xFFFF) + seed[10:]))
        out.append(("fextra-xlen-honest", bytes(hdr) + struct.pack("<H", 4) + b"ABCD" + seed[10:]))
    return out


def sqlite_declared(seed):
    out = [("honest", seed)]
    if not seed.startswith(b"SQLite format 3\x00") or len(seed) < 100:
        return out

    def put(off, fmt, v, label):
        b = bytearray(seed)
        b[off:off + struct.calcsize(fmt)] = struct.pack(fmt, v)
        out.append((label, bytes(b)))
    for v in (0, 1, 3, 512, 32768):
        put(16, ">H", v, f"pagesize-{v}")
    for v in (0, 1, 2 ** 31 - 1, 2 ** 32 - 1):
        put(28, ">I", v, f"dbsize-pages-{v}")
    for v in (2 ** 31 - 1, 2 ** 32 - 1):
        put(36, ">I", v, f"freelist-count-{v}")
        put(32, ">I", v, f"freelist-trunk-{v}")
    return out
