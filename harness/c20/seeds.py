"""Create one valid seed file of every kind sourmash reads (run under /venv/bin/python with the
package built from /repo's working tree on PYTHONPATH).  usage: seeds.py <outdir>  -> prints 'kind path' lines"""
import csv
import gzip
import os
import shutil
import sys
import zipfile

import sourmash
from sourmash import MinHash, SourmashSignature
from sourmash import signature as sigmod
from sourmash.nodegraph import Nodegraph


def make_sigs():
    sigs = []
    seq = "ACGTTGCATGCATGCAAATTTGGGCCCATATATGCGCGCTAGCTAGCTAGGATCGATCGATCGGGATTTACGACGACGATCAGCATCAGCATCAGCTACGACTA"
    for i, (k, sc, tr) in enumerate([(21, 1, False), (21, 1, True), (31, 2, False)]):
        mh = MinHash(0, k, scaled=sc, track_abundance=tr)
        mh.add_sequence(seq[i:] + seq[:40], force=True)
        mh.add_sequence(seq[5 * i:], force=True)
        sigs.append(SourmashSignature(mh, name=f"seed{i} name, with \"stuff\"", filename=f"f{i}.fa"))
    return sigs


def main(out):
    os.makedirs(out, exist_ok=True)
    sigs = make_sigs()
    res = []
    p = os.path.join(out, "a.sig")
    with open(p, "w") as f:
        f.write(sigmod.save_signatures_to_json(sigs).decode() if isinstance(sigmod.save_signatures_to_json(sigs), bytes) else sigmod.save_signatures_to_json(sigs))
    res.append(("sig", p))
    p = os.path.join(out, "a.sig.gz")
    data = sigmod.save_signatures_to_json(sigs)
    with gzip.open(p, "wb") as f:
        f.write(data if isinstance(data, bytes) else data.encode())
    res.append(("siggz", p))
    from sourmash.sourmash_args import SaveSignaturesToLocation
    p = os.path.join(out, "a.zip")
    with SaveSignaturesToLocation(p) as s:
        for ss in sigs:
            s.add(ss)
    res.append(("zip", p))
    # an ad-hoc zip: .sig members, no manifest (loaded by scanning the member names)
    p = os.path.join(out, "adhoc.zip")
    with zipfile.ZipFile(p, "w") as zf:
        for i, ss in enumerate(sigs):
            js = sigmod.save_signatures_to_json([ss])
            zf.writestr(f"dir/s{i}.sig", js if isinstance(js, bytes) else js.encode())
    res.append(("zipnomf", p))
    p = os.path.join(out, "a.sqldb")
    with SaveSignaturesToLocation(p) as s:
        for ss in sigs[:1]:
            s.add(ss)
    res.append(("sqldb", p))
    # manifest csv
    from sourmash.manifest import CollectionManifest
    idx = sourmash.load_file_as_index(os.path.join(out, "a.zip"))
    p = os.path.join(out, "mf.csv")
    with open(p, "w", newline="") as f:
        idx.manifest.write_to_csv(f, write_header=True)
    res.append(("manifest", p))
    # picklist csv
    p = os.path.join(out, "pick.csv")
    with open(p, "w", newline="") as f:
        w = csv.writer(f)
        w.writerow(["md5", "name"])
        for ss in sigs:
            w.writerow([ss.md5sum(), ss.name])
    res.append(("picklist", p))
    # SBT
    from sourmash.sbt import SBT
    from sourmash.sbtmh import SigLeaf
    from sourmash import create_sbt_index
    t = create_sbt_index()
    for ss in sigs[:2]:
        t.insert(ss)
    p = os.path.join(out, "t.sbt.zip")
    t.save(p)
    res.append(("sbtzip", p))
    p = os.path.join(out, "t2.sbt.json")
    t.save(p)
    res.append(("sbtjson", p))
    # LCA
    from sourmash.lca.lca_db import LCA_Database
    db = LCA_Database(21, 1, "DNA")
    from sourmash.lca.lca_utils import LineagePair
    lin = (LineagePair("superkingdom", "Bacteria"), LineagePair("phylum", "P1"))
    db.insert(sigs[0].to_mutable() if hasattr(sigs[0], "to_mutable") else sigs[0], ident="seed0", lineage=lin)
    p = os.path.join(out, "db.lca.json")
    db.save(p)
    res.append(("lca", p))
    # nodegraph
    ng = Nodegraph(21, 97, 3)
    for h in sigs[0].minhash.hashes:
        ng.count(h)
    p = os.path.join(out, "x.ng")
    ng.save(p)
    res.append(("nodegraph", p))
    # HyperLogLog sketch
    from sourmash.hll import HLL
    h = HLL(0.05, 21)
    for s in sigs:
        h.update(s.minhash) if s.minhash.ksize == 21 else None
    p = os.path.join(out, "x.hll")
    h.save(p)
    res.append(("hll", p))
    # taxonomy csv
    p = os.path.join(out, "tax.csv")
    with open(p, "w", newline="") as f:
        w = csv.writer(f)
        w.writerow(["ident", "superkingdom", "phylum", "class", "order", "family", "genus", "species"])
        w.writerow(["seed0", "Bacteria", "P1", "C1", "O1", "F1", "G1", "S1"])
        w.writerow(["seed1", "Bacteria", "P1", "C1", "O1", "F1", "G1", "S2"])
    res.append(("taxonomy", p))
    for k, pth in res:
        print(k, pth)


if __name__ == "__main__":
    main(sys.argv[1])
