"""Crash-isolated loader worker.  Reads 'kind<TAB>path[<TAB>extra]' lines on stdin; for each, tries to load the
file with the loader a user would reach, prints one JSON line
    {"o": 'ok…' | 'exc <Class>' [+ sentinel suffix], "facts": {...}, "enc": {...}}
`o` is the outcome of the generic route (as before).  For the kinds whose hand-written reader has a Lean model
(manifest, picklist, sbtjson, lca, and the loader chain for every kind that goes through load_file_as_index)
`facts` holds what the real reader did when called directly, and `enc` the op line the model is to be run on
(built by encode.py from the answers of the trusted decoders, in this same interpreter).
After a failed load a sentinel check follows (the process must stay fully usable).  An address-space limit is
set so that a runaway allocation is an observable failure (MemoryError / abort) and not a swap storm."""
import json
import os
import resource
import sys

lim = int(os.environ.get("C20_AS_LIMIT_GB", "6")) * 2 ** 30
resource.setrlimit(resource.RLIMIT_AS, (lim, lim))

sys.path.insert(0, os.path.dirname(os.path.abspath(__file__)))
import encode  # noqa: E402

import sourmash  # noqa: E402
from sourmash import MinHash, SourmashSignature  # noqa: E402
from sourmash import signature as sigmod  # noqa: E402
from sourmash import save_load  # noqa: E402

SENT_SEQ = "ACGTTGCATGCATGCAAATTTGGGCCCATATATGCGCGCTAGCTAGCTAGGATCGATCG"


def sentinel():
    mh = MinHash(0, 21, scaled=1)
    mh.add_sequence(SENT_SEQ)
    return SourmashSignature(mh).md5sum()


SENT = sentinel()


def exercise(ss):
    """use a loaded signature the way later commands would: a damaged file that loads must not
    leave a time bomb behind (abundance-aware comparison, mutation of a copy, re-save)"""
    mh = ss.minhash
    try:
        dict(mh.hashes)
    except AssertionError:
        pass
    len(mh)
    ss.md5sum()
    try:
        mh.similarity(mh)
        mh.similarity(mh, ignore_abundance=True)
        if mh.scaled:
            mh.contained_by(mh)
            mh.downsample(scaled=mh.scaled * 2)
    except (ValueError, TypeError, ZeroDivisionError):
        pass
    m = mh.to_mutable()
    m.add_hash(7)
    if m.track_abundance:
        m.add_hash_with_abundance(9, 2)
        m.set_abundances({11: 3}, clear=False)
    m.remove_many([7, 9])
    try:
        m.merge(mh)
    except (ValueError, TypeError):
        pass
    sigmod.save_signatures_to_json([ss])


# ------------------------------------------------------------------ observation of the loader chain

class ChainRecorder:
    """wraps every registered loader function (and the functions whose exceptions some of them convert) while
    one top-level load_file_as_index call runs; records, per loader tried at depth 0, the outcome of the wrapped
    inner function ('inner') and of the loader function itself ('outer')"""
    INNER = {"_load_sbt": ("save_load", "load_sbt_index"),
             "_load_zipfile": ("zipidx", "load"),
             "_load_standalone_manifest": ("smi", "load")}

    def __init__(self):
        self.calls = []
        self.depth = 0

    @staticmethod
    def _out(fn, *a, **kw):
        try:
            r = fn(*a, **kw)
        except BaseException as e:  # noqa: BLE001
            return "exc:" + encode.mro_names(e), e, None
        return ("none" if r is None else "idx"), None, r

    def __enter__(self):
        from sourmash.index import StandaloneManifestIndex, ZipFileLinearIndex
        rec = self
        self.saved_loaders = list(save_load._loader_functions)
        self.saved_sbt = save_load.load_sbt_index
        self.saved_zip = ZipFileLinearIndex.__dict__["load"]
        self.saved_smi = StandaloneManifestIndex.__dict__["load"]
        self.inner_seen = {}

        def wrap_inner(tag, fn):
            def w(*a, **kw):
                o, e, r = rec._out(fn, *a, **kw)
                if rec.depth == 1:
                    rec.inner_seen[tag] = o
                if e is not None:
                    raise e
                return r
            return w

        save_load.load_sbt_index = wrap_inner("_load_sbt", self.saved_sbt)
        zl = self.saved_zip.__func__
        ZipFileLinearIndex.load = classmethod(lambda cls, *a, **kw: wrap_inner("_load_zipfile", lambda *b, **k: zl(cls, *b, **k))(*a, **kw))
        sl = self.saved_smi.__func__
        StandaloneManifestIndex.load = classmethod(lambda cls, *a, **kw: wrap_inner("_load_standalone_manifest", lambda *b, **k: sl(cls, *b, **k))(*a, **kw))

        def wrap_loader(fn):
            def w(*a, **kw):
                rec.depth += 1
                try:
                    if rec.depth == 1:
                        rec.inner_seen.pop(fn.__name__, None)
                    o, e, r = rec._out(fn, *a, **kw)
                    if rec.depth == 1:
                        rec.calls.append((fn.__name__, rec.inner_seen.get(fn.__name__, o), o))
                finally:
                    rec.depth -= 1
                if e is not None:
                    raise e
                return r
            w.__name__ = fn.__name__
            return w

        save_load._loader_functions[:] = [(p, d, wrap_loader(f)) for p, d, f in self.saved_loaders]
        return self

    def __exit__(self, *exc):
        from sourmash.index import StandaloneManifestIndex, ZipFileLinearIndex
        save_load._loader_functions[:] = self.saved_loaders
        save_load.load_sbt_index = self.saved_sbt
        ZipFileLinearIndex.load = self.saved_zip
        StandaloneManifestIndex.load = self.saved_smi
        return False


def observe_chain(path, info, fn=None):
    """run load_file_as_index(path) (or `fn(path)`, which reaches the same chain) with the recorder on;
    returns the result or re-raises"""
    with ChainRecorder() as rec:
        o, e, idx = rec._out(fn or sourmash.load_file_as_index, path)
    info["facts"]["chain"] = {"calls": [(f, outer) for f, _, outer in rec.calls],
                              "final": o if e is None else "exc:" + type(e).__name__}
    try:
        info["enc"]["chain"] = encode.enc_chain([(f, inner) for f, inner, _ in rec.calls])
    except Exception:  # noqa: BLE001
        pass
    if e is not None:
        raise e
    return idx


# ------------------------------------------------------------------ direct calls of the modelled readers

def _codes(*fns):
    """code objects of the given functions and of everything nested in them (generator expressions, lambdas)"""
    out = set()

    def add(c):
        out.add(c)
        for k in c.co_consts:
            if hasattr(k, "co_code"):
                add(k)
    for f in fns:
        f = getattr(f, "__func__", f)
        add(f.__code__)
    return out


def counted(codes, fn):
    """run fn() counting the source lines executed inside the given code objects (the reader's own frames):
    the measured counterpart of the models' `work`"""
    if os.environ.get("COVERAGE_PROCESS_START") or os.environ.get("C20_NO_LINECOUNT"):
        # the coverage audit (harness/cov_one.sh) owns the trace hook: no line counting in that run
        try:
            return fn(), None
        except (Exception, SystemExit) as ex:  # noqa: BLE001
            return "exc " + type(ex).__name__, None
    n = [0]

    def local(frame, event, arg):
        if event == "line":
            n[0] += 1
        return local

    def glob(frame, event, arg):
        return local if frame.f_code in codes else None
    sys.settrace(glob)
    try:
        try:
            r = fn()
        finally:
            sys.settrace(None)
    except (Exception, SystemExit) as ex:  # noqa: BLE001
        return "exc " + type(ex).__name__, n[0]
    return r, n[0]


def CollectionManifest_load():
    from sourmash.manifest import CollectionManifest
    return CollectionManifest.load_from_csv


def direct(kind, path, extra, info):
    def guard(tag, enc_fn, run_fn, codes):
        try:
            e = enc_fn()
            if e is not None:
                info["enc"][tag] = e
        except Exception as ex:  # noqa: BLE001
            info["enc_err"] = type(ex).__name__
        r, lines = counted(codes, run_fn)
        info["facts"][tag] = r
        info["facts"][tag + "_lines"] = lines

    if kind == "manifest":
        def run():
            from sourmash.manifest import CollectionManifest
            with open(path, "rt", newline="") as fp:
                m = CollectionManifest.load_from_csv(fp)
            rows = ";".join(f"{r['num']},{r['scaled']},{r['ksize']},{r['n_hashes']},{1 if r['with_abundance'] else 0}" for r in m.rows)
            return f"ok {len(m)} {rows}"
        from sourmash.manifest import CollectionManifest as CM
        guard("mf", lambda: encode.enc_manifest(path), run, _codes(CM.load_from_csv, CM.__init__, CM._add_rows))

        def run_file():
            m = CM.load_from_filename(path)
            rows = ";".join(f"{r['num']},{r['scaled']},{r['ksize']},{r['n_hashes']},{1 if r['with_abundance'] else 0}" for r in m.rows)
            return f"ok {len(m)} {rows}"
        guard("mff", lambda: encode.enc_manifest_file(path), run_file,
              _codes(CM.load_from_filename, CM.load_from_sql, CM.load_from_csv, CM.__init__, CM._add_rows))
    elif kind in ("picklist", "plarg"):
        argstr = (extra or "{}:md5:md5").replace("{}", path)

        def run():
            from sourmash.picklist import SignaturePicklist
            pl = SignaturePicklist.from_picklist_args(argstr)
            n_empty, dups = pl.load()
            return f"ok {n_empty} {len(dups)} {len(pl.pickset)}"

        def enc():
            # the pickfile the argument string names (when it parses that far)
            parts = argstr.split(":")
            if len(parts) == 4:
                parts = parts[:3]
            pf = parts[0] if len(parts) == 3 else path
            return encode.enc_picklist(pf, argstr)
        from sourmash.picklist import SignaturePicklist as SP
        guard("pl", enc, run, _codes(SP.from_picklist_args, SP.__init__, SP.load, SP.init, SP.add, SP._get_value_for_csv_row))
    elif kind == "lca":
        def run():
            from sourmash.lca.lca_db import LCA_Database
            db = LCA_Database.load(path)

            def oi(x):
                return str(x) if isinstance(x, int) else "f"
            return (f"ok {db.ksize} {db.scaled} {len(db._lid_to_lineage)} {len(db._hashval_to_idx)} "
                    f"{len(db._idx_to_lid)} {oi(db._next_index)} {oi(db._next_lid)}")
        from sourmash.lca.lca_db import LCA_Database as LD
        guard("lca", lambda: encode.enc_lca(path), run, _codes(LD.load, LD.__init__))
    elif kind in ("sbtjson", "sbtzip"):
        def run():
            from sourmash.sbt import SBT
            from sourmash.sbtmh import SigLeaf
            t = SBT.load(path, leaf_loader=SigLeaf.load, print_version_warning=False)
            d = t.d
            ds = str(d) if isinstance(d, int) and not isinstance(d, bool) else "f"
            cc = "-"
            if isinstance(d, int) and not isinstance(d, bool) and d <= 10 ** 6:
                cc = str(len(t.children(0)))
            mf = "-" if t.manifest is None else str(len(t.manifest))
            return f"ok d={ds} n={len(t._nodes)} l={len(t._leaves)} m={len(t._missing_nodes)} mf={mf} cc={cc}"
        from sourmash.sbt import SBT as S, Node, Leaf
        guard("sbt", lambda: encode.enc_sbt(path), run,
              _codes(S.load, S._load_v1, S._load_v2, S._load_v3, S._load_v4, S._load_v5, S._load_v6, S.__init__, Node.load, Leaf.load,
                     Node.__init__, Leaf.__init__, CollectionManifest_load()))


def exercise_index(kind, idx):
    """post-load use of a (possibly damaged) index the way later commands use it; ordinary exceptions are fine"""
    uses = []
    if kind == "lca":
        def lca_use():
            for hv in list(idx.hashvals)[:20]:
                idx.get_lineage_assignments(hv)
                idx.get_identifiers_for_hashval(hv)
            len(idx)
            repr(idx)
        uses.append(lca_use)
    if kind in ("sbtzip", "sbtjson"):
        uses += [lambda: list(idx.leaves()), lambda: idx._fill_internal(), lambda: idx.print_dot(), lambda: len(idx),
                 lambda: list(idx._parents(max(idx._leaves))) if idx._leaves else None]
    uses += [lambda: idx.location, lambda: list(idx.signatures_with_location()), lambda: bool(idx),
             lambda: idx.select(ksize=31, moltype="DNA", containment=True), lambda: idx.select(num=500),
             lambda: idx.select(abund=True)]
    for u in uses:
        try:
            u()
        except Exception:  # noqa: BLE001
            pass


_REF_SIGS = None


def battery(path, info):
    """referential damages: the index / manifest is intact and lists 8 signatures with pairwise disjoint hashes.
    After a successful load: len(), signatures(), and for every listed signature a search, a gather step and a
    prefetch for it.  Recorded per query: F(ound itself) / M(issing, no error) / E:<Class>."""
    global _REF_SIGS
    import referential
    if _REF_SIGS is None:
        _REF_SIGS = referential.make_sigs()
    b = {}
    info["facts"]["battery"] = b
    idx = sourmash.load_file_as_index(path)
    try:
        b["len"] = str(len(idx))
    except Exception as e:  # noqa: BLE001
        b["len"] = "E:" + type(e).__name__
    try:
        b["signatures"] = sorted(ss.name for ss in idx.signatures())
    except Exception as e:  # noqa: BLE001
        b["signatures"] = "E:" + type(e).__name__

    def one(idx, op, q):
        try:
            if op == "search":
                r = [x.signature.name for x in idx.search(q, threshold=0.9)]
            elif op == "gather":
                g = idx.best_containment(q)
                r = [g.signature.name] if g else []
            else:
                r = [x.signature.name for x in idx.prefetch(q, threshold_bp=0)]
            return "F" if q.name in r else "M"
        except Exception as e:  # noqa: BLE001
            return "E:" + type(e).__name__
    for op in ("search", "gather", "prefetch"):
        try:
            idx = sourmash.load_file_as_index(path)
            b[op] = [one(idx, op, q) for q in _REF_SIGS]
        except Exception as e:  # noqa: BLE001
            b[op] = ["E:" + type(e).__name__] * len(_REF_SIGS)
    res = []
    for q in (_REF_SIGS if ".sbt." in path else []):      # SBTs cache nodes: once more with a fresh index per query
        try:
            res.append(one(sourmash.load_file_as_index(path), "search", q))
        except Exception as e:  # noqa: BLE001
            res.append("E:" + type(e).__name__)
    b["search_fresh"] = res
    return "ok"


def load(kind, path, extra, info):
    if kind == "ref":
        return battery(path, info)
    if kind in ("sig", "siggz"):
        n = 0
        loaded = observe_chain(path, info, lambda p: list(sourmash.load_file_as_signatures(p)))
        info["_primary"] = (None, loaded)
        for ss in loaded:
            n += len(ss.minhash)
            exercise(ss)
        data = open(path, "rb").read()
        for ss in sigmod.load_signatures_from_json(data):
            exercise(ss)
    elif kind in ("zip", "zipnomf", "sqldb", "sbtzip", "sbtjson", "lca", "pathlist"):
        idx = observe_chain(path, info)
        sigs = list(idx.signatures())
        info["_primary"] = (idx, sigs)
        exercise_index(kind, idx)
        for ss in sigs[:3]:
            exercise(ss)
            if ss.minhash.scaled:
                q = ss
                if q.minhash.track_abundance:
                    q = q.to_mutable()
                    q.minhash = q.minhash.flatten()
                sub = idx.select(ksize=q.minhash.ksize, moltype=q.minhash.moltype)
                list(sub.search(q, threshold=0.1))
        try:
            m = idx.manifest
            if m is not None:
                len(m)
        except AttributeError:
            pass
    elif kind == "manifest":
        from sourmash.manifest import CollectionManifest
        m = CollectionManifest.load_from_filename(path)
        len(m)
        [r["md5"] for r in m.rows]
        # a manifest that loaded is used: the calls later commands make on it may refuse (ordinary exception), not crash
        for use in (lambda: m.select_to_manifest(ksize=21), lambda: m.select_to_manifest(moltype="DNA", scaled=1),
                    lambda: list(m.locations()), lambda: m.to_picklist(), lambda: m == m, lambda: bool(m), lambda: m + m,
                    lambda: m._check_row_values(), lambda: m.filter_on_columns(lambda x: True, ["name"]),
                    lambda: CollectionManifest.load_from_manifest(m)):
            try:
                use()
            except Exception:  # noqa: BLE001
                pass
    elif kind in ("picklist", "plarg"):
        from sourmash.picklist import SignaturePicklist
        pl = SignaturePicklist.from_picklist_args((extra or "{}:md5:md5").replace("{}", path))
        pl.load()
    elif kind == "hll":
        from sourmash.hll import HLL
        h = HLL.load(path)
        len(h)
        h.cardinality()
        h.add_sequence(SENT_SEQ, True)
        h.add(17)
        h.similarity(h)
        h.containment(h)
        h.intersection(h)
        bytes(h.to_bytes())
        mh = MinHash(0, 21, scaled=1)
        mh.add_sequence(SENT_SEQ, True)
        try:
            h.update(mh)
            h.matches(mh)
        except (ValueError, TypeError):
            pass
        return "ok " + str(h.ksize)
    elif kind == "nodegraph":
        from sourmash.nodegraph import Nodegraph
        ng = Nodegraph.load(path)
        ng.get(5)
        ng.count(7)
        ng.n_occupied()
        for use in (lambda: ng.ksize, lambda: ng.hashsizes(), lambda: ng.expected_collisions, lambda: ng.update(ng),
                    lambda: bytes(ng.to_bytes()), lambda: ng.count_kmer("A" * ng.ksize) if ng.ksize < 100 else None):
            try:
                use()
            except Exception:  # noqa: BLE001
                pass
        return "ok " + ",".join(str(x) for x in ng.tablesizes()) if hasattr(ng, "tablesizes") and callable(ng.tablesizes) else "ok"
    elif kind == "taxonomy":
        from sourmash.tax.tax_utils import MultiLineageDB
        db = MultiLineageDB.load([path])
        len(db)
    else:
        raise KeyError(kind)
    return "ok"


def main():
    import periphery
    per = periphery.Periphery()
    # the protocol goes over a private copy of stdout; whatever the library (print_dot, the command line, progress
    # output) writes to fd 1 / sys.stdout goes to /dev/null
    proto = os.fdopen(os.dup(1), "w")
    devnull = os.open(os.devnull, os.O_WRONLY)
    os.dup2(devnull, 1)
    sys.stdout = open(os.devnull, "w")
    for line in sys.stdin:
        parts = line.rstrip("\n").split("\t")
        kind, path = parts[0], parts[1]
        extra = parts[2] if len(parts) > 2 else None
        info = {"facts": {}, "enc": {}}
        try:
            direct(kind, path, extra, info)
            res = load(kind, path, extra, info)
        except (Exception, SystemExit) as e:  # noqa: BLE001   SystemExit: some loaders call sys.exit on error
            res = "exc " + type(e).__name__
        primary = info.pop("_primary", None)
        if primary is not None:
            info["n_primary"] = len(primary[1])
        if kind not in ("ref", "pathlist"):
            try:
                per.after_job(kind, path, extra, primary, info)
            except Exception as e:  # noqa: BLE001
                info["periphery_error"] = type(e).__name__ + ": " + str(e)[:200]
        if res != "ok":
            try:
                s = sentinel()
                if s != SENT:
                    res += " SENTINEL-CHANGED"
            except BaseException as e:  # noqa: BLE001
                res += " SENTINEL-FAILED:" + type(e).__name__
        info["o"] = res
        proto.write(json.dumps(info) + "\n")
        proto.flush()


if __name__ == "__main__":
    main()
