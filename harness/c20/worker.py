"""Crash-isolated loader worker.  Reads 'kind path' lines on stdin; for each, tries to load the file with the
loader a user would reach, prints one line: 'ok' | 'exc <Class>'  followed, after a failed load, by a
sentinel check (the process must stay fully usable).  An address-space limit is set so that a runaway
allocation is an observable failure (MemoryError / abort) and not a swap storm."""
import os
import resource
import sys

lim = int(os.environ.get("C20_AS_LIMIT_GB", "6")) * 2 ** 30
resource.setrlimit(resource.RLIMIT_AS, (lim, lim))

import sourmash  # noqa: E402
from sourmash import MinHash, SourmashSignature  # noqa: E402
from sourmash import signature as sigmod  # noqa: E402

SENT_SEQ = "ACGTTGCATGCATGCAAATTTGGGCCCATATATGCGCGCTAGCTAGCTAGGATCGATCG"


def sentinel():
    mh = MinHash(0, 21, scaled=1)
    mh.add_sequence(SENT_SEQ)
    return SourmashSignature(mh).md5sum()


SENT = sentinel()


def exercise(ss):
    """use a loaded signature the way later commands would: a damaged file that loads must not
    leave a time bomb behind (abundance-aware comparison, mutation of a copy, re-save)"""
    mh = ss.minhash
    try:
        dict(mh.hashes)
    except AssertionError:
        pass
    len(mh)
    ss.md5sum()
    try:
        mh.similarity(mh)
        mh.similarity(mh, ignore_abundance=True)
        if mh.scaled:
            mh.contained_by(mh)
            mh.downsample(scaled=mh.scaled * 2)
    except (ValueError, TypeError, ZeroDivisionError):
        pass
    m = mh.to_mutable()
    m.add_hash(7)
    if m.track_abundance:
        m.add_hash_with_abundance(9, 2)
        m.set_abundances({11: 3}, clear=False)
    m.remove_many([7, 9])
    try:
        m.merge(mh)
    except (ValueError, TypeError):
        pass
    sigmod.save_signatures_to_json([ss])


def load(kind, path):
    if kind in ("sig", "siggz"):
        n = 0
        for ss in sourmash.load_file_as_signatures(path):
            n += len(ss.minhash)
            exercise(ss)
        data = open(path, "rb").read()
        for ss in sigmod.load_signatures_from_json(data):
            exercise(ss)
    elif kind in ("zip", "sqldb", "sbtzip", "sbtjson", "lca"):
        idx = sourmash.load_file_as_index(path)
        sigs = list(idx.signatures())
        for ss in sigs[:3]:
            exercise(ss)
            if ss.minhash.scaled:
                q = ss
                if q.minhash.track_abundance:
                    q = q.to_mutable()
                    q.minhash = q.minhash.flatten()
                sub = idx.select(ksize=q.minhash.ksize, moltype=q.minhash.moltype)
                list(sub.search(q, threshold=0.1))
        try:
            m = idx.manifest
            if m is not None:
                len(m)
        except AttributeError:
            pass
    elif kind == "manifest":
        from sourmash.manifest import CollectionManifest
        m = CollectionManifest.load_from_filename(path)
        len(m)
        [r["md5"] for r in m.rows]
    elif kind == "picklist":
        from sourmash.picklist import SignaturePicklist
        pl = SignaturePicklist.from_picklist_args(f"{path}:md5:md5")
        pl.load()
    elif kind == "nodegraph":
        from sourmash.nodegraph import Nodegraph
        ng = Nodegraph.load(path)
        ng.get(5)
        ng.count(7)
        ng.n_occupied()
        return "ok " + ",".join(str(x) for x in ng.tablesizes()) if hasattr(ng, "tablesizes") and callable(ng.tablesizes) else "ok"
    elif kind == "taxonomy":
        from sourmash.tax.tax_utils import MultiLineageDB
        db = MultiLineageDB.load([path])
        len(db)
    else:
        raise KeyError(kind)
    return "ok"


def main():
    for line in sys.stdin:
        kind, _, path = line.rstrip("\n").partition(" ")
        try:
            res = load(kind, path)
        except (Exception, SystemExit) as e:  # noqa: BLE001   SystemExit: some loaders call sys.exit on error
            res = "exc " + type(e).__name__
        if res != "ok":
            try:
                s = sentinel()
                if s != SENT:
                    res += " SENTINEL-CHANGED"
            except BaseException as e:  # noqa: BLE001
                res += " SENTINEL-FAILED:" + type(e).__name__
        sys.stdout.write(res + "\n")
        sys.stdout.flush()


if __name__ == "__main__":
    main()
