"""Turn a (mutated) file into the op line of the Lean reader models (driver `c20r`, grammar in
lean/SmVerif/Model/DriverC20r.lean).  Runs INSIDE the worker, i.e. under the interpreter and standard library
the code under test runs on: the text decoder, the csv module, the json decoder and the file system are the
trusted primitives whose answers are the models' inputs; they are asked exactly the way the readers ask them
(same open() arguments, same call order).  Returns None when the file leaves what the models cover
(gzip / SQLite containers, strings that are not encodable)."""
import csv
import io
import json
import os
import sys

GZ = b"\x1f\x8b"
SQLITE = b"SQLite format 3\x00"


class Unencodable(Exception):
    pass


def hx(s):
    if s == "":
        return "-"
    try:
        return s.encode("utf-8").hex()
    except UnicodeEncodeError:
        raise Unencodable("lone surrogate")


def csv_doc(fp, with_first=True):
    """fp: a text stream opened the way the reader opens it"""
    toks = []
    if with_first:
        try:
            first = fp.readline()
        except UnicodeDecodeError:
            return ["E", "e", "0"]
        toks.append("L" + hx(first) if first != "" else "L-")
    else:
        toks.append("L-")
    rows = []
    tail = "e"
    r = csv.reader(fp)
    while True:
        try:
            row = next(r)
        except StopIteration:
            break
        except csv.Error:
            tail = "c"
            break
        except UnicodeDecodeError:
            tail = "d"
            break
        rows.append(row)
    toks += [tail, str(len(rows))]
    for row in rows:
        toks.append(str(len(row)))
        toks += [hx(c) for c in row]
    return toks


def head(path, n=16):
    with open(path, "rb") as f:
        return f.read(n)


def enc_manifest(path):
    h = head(path)
    if h.startswith(SQLITE) or path.endswith(".gz"):
        return None
    with open(path, "rt", newline="") as fp:
        return "mf " + " ".join(csv_doc(fp))


def enc_picklist(path, argstr):
    h = head(path) if os.path.isfile(path) else b""
    if h.startswith(GZ):
        return None
    is_file = os.path.exists(path) and os.path.isfile(path)
    toks = ["pl", hx(argstr), "1" if is_file else "0"]
    if not is_file:
        return " ".join(toks + ["1", "0", "L-", "e", "0", "L-", "e", "0"])
    with open(path, newline="", encoding="utf-8") as fp:
        ch = fp.buffer.peek(1)
        try:
            ch = ch.decode("utf-8")
            peek_ok = True
        except UnicodeDecodeError:
            ch = ""
            peek_ok = False
        starts_hash = ch.startswith("#")
        rest = csv_doc(fp)
    with open(path, newline="", encoding="utf-8") as fp:
        fp.buffer.peek(1)          # same buffer state as in _DictReader_with_version (decides the decoder's chunking)
        whole = csv_doc(fp, with_first=False)
    return " ".join(toks + ["1" if peek_ok else "0", "1" if starts_hash else "0"] + rest + whole)


def enc_json(x, out):
    if x is None:
        out.append("n")
    elif x is True:
        out.append("t")
    elif x is False:
        out.append("f")
    elif isinstance(x, int):
        out.append("i" + str(x))
    elif isinstance(x, float):
        if x != x:
            out.append("N")
        elif x in (float("inf"), float("-inf")):
            out.append("I+" if x > 0 else "I-")
        else:
            n, d = x.as_integer_ratio()
            out.append(f"d{n}/{d}")
    elif isinstance(x, str):
        out.append("s" + hx(x))
    elif isinstance(x, list):
        out.append("a" + str(len(x)))
        for v in x:
            enc_json(v, out)
    elif isinstance(x, dict):
        out.append("o" + str(len(x)))
        for k, v in x.items():
            out.append(hx(k))
            enc_json(v, out)
    else:
        raise Unencodable(type(x).__name__)


def dec_tokens(fp):
    """json.load(fp) as the readers call it, with the decoder's failure classes"""
    try:
        doc = json.load(fp)
    except json.JSONDecodeError:
        return ["J"], None
    except RecursionError:
        return ["R"], None
    except UnicodeDecodeError:
        return ["U"], None
    except ValueError:
        # e.g. an integer literal beyond the interpreter's digit limit: a plain ValueError
        return ["V"], None
    out = ["D"]
    old = sys.getrecursionlimit()
    old_digits = sys.get_int_max_str_digits()
    sys.setrecursionlimit(max(old, 20000))
    try:
        sys.set_int_max_str_digits(0)
        enc_json(doc, out)
    finally:
        sys.setrecursionlimit(old)
        sys.set_int_max_str_digits(old_digits)
    return out, doc


def enc_lca(path):
    is_file = os.path.isfile(path)
    if not is_file:
        return "lca 0 v e"
    if head(path).startswith(SQLITE) or path.endswith(".gz"):
        return None
    with open(path, "rt") as fp:
        try:
            first = fp.read(1)
        except ValueError:
            return "lca 1 v r"
        if not first:
            return "lca 1 v e"
        if first[0] != "{":
            return f"lca 1 v t:{hx(first[0])} J"
        fp.seek(0)
        toks, _ = dec_tokens(fp)
    return f"lca 1 v t:{hx(first[0])} " + " ".join(toks)


def _fs_state(p):
    if "\x00" in p:
        return "u:ValueError"          # embedded null byte: refused before the file system is asked
    if any(len(c.encode("utf-8", "replace")) > 255 for c in p.split("/")):
        return "u:OSError"             # ENAMETOOLONG
    try:
        if not os.path.exists(p):
            return "n"
        if os.path.isdir(p):
            return "d"
        return "e"
    except ValueError:
        return "u:ValueError"
    except OSError:
        return "u:OSError"


def _mkdir_pred(dirname, sub):
    if "\x00" in sub:
        return "ValueError"
    full = os.path.join(dirname, sub)
    if os.path.exists(full):
        return "-"
    if any(len(c.encode("utf-8", "replace")) > 255 for c in full.split("/")):
        return "OSError"
    return "-"


def enc_sbt(path):
    """`path` is a plain `<name>.sbt.json` (SBT.load without storage, not a zip)"""
    import importlib.util
    dirname = os.path.dirname(os.path.abspath(path))
    sbt_name = os.path.basename(path)
    if sbt_name.endswith(".sbt.json"):
        sbt_name = sbt_name[:-9]
    try:
        fp = open(path)
    except OSError:
        return None
    with fp:
        toks, doc = dec_tokens(fp)
    mkdir = "-"
    sample = "n"
    mf = ["n"]
    subdir = None
    try:
        v = doc.get("version") if isinstance(doc, dict) else 1
        if isinstance(v, (int, float)) and not isinstance(v, bool) and v < 3 or v is True:
            subdir = f".sbt.{sbt_name}"
        else:
            p = doc["storage"]["args"]["path"]
            if isinstance(p, str) and doc["storage"]["backend"] == "FSStorage":
                mkdir = _mkdir_pred(dirname, p)
                subdir = p
    except (KeyError, TypeError, AttributeError):
        pass
    try:
        first = None
        if isinstance(doc, list):
            first = doc[0]
        elif isinstance(doc, dict):
            for k, val in doc["nodes"].items():
                if int(k) == 0:
                    first = val
        if isinstance(first, dict) and isinstance(first.get("filename"), str):
            sample = _fs_state(os.path.join(dirname, first["filename"]))
            if sample.startswith("u:"):
                sample = "n"
    except (KeyError, TypeError, AttributeError, ValueError, IndexError):
        pass
    try:
        if isinstance(doc, dict) and isinstance(doc.get("manifest_path"), str) and subdir is not None:
            full = os.path.join(dirname, subdir, doc["manifest_path"])
            st = _fs_state(full)
            if st == "e":
                data = open(full, "rb").read()
                try:
                    text = data.decode("utf-8")
                    mf = ["c"] + csv_doc(io.StringIO(text))
                except UnicodeDecodeError:
                    mf = ["x"]
            else:
                mf = [st]
    except (KeyError, TypeError, AttributeError):
        pass
    net = importlib.util.find_spec("redis") is not None or importlib.util.find_spec("ipfshttpclient") is not None
    return " ".join(["sbt"] + toks + [mkdir, sample, "1" if net else "0"] + mf)


def mro_names(e):
    return "<".join(c.__name__ for c in type(e).__mro__)


def enc_chain(calls):
    """calls: list of (fn name, inner outcome string)"""
    return " ".join(["chain", str(len(calls))] + [t for c in calls for t in c])
