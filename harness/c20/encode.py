"""Turn a (mutated) file into the op line of the Lean reader models (driver `c20r`, grammar in
lean/SmVerif/Model/DriverC20r.lean).  Runs INSIDE the worker, i.e. under the interpreter and standard library
the code under test runs on: the text decoder, the csv module, the json decoder and the file system are the
trusted primitives whose answers are the models' inputs; they are asked exactly the way the readers ask them
(same open() arguments, same call order).  Returns None when the file leaves what the models cover
(gzip / SQLite containers, strings that are not encodable)."""
import csv
import gzip
import io
import json
import os
import sys
import zlib

GZ = b"\x1f\x8b"
SQLITE = b"SQLite format 3\x00"


class Unencodable(Exception):
    pass


def hx(s):
    if s == "":
        return "-"
    try:
        return s.encode("utf-8").hex()
    except UnicodeEncodeError:
        raise Unencodable("lone surrogate")


def io_cls(e):
    """class name of a failure of the byte stream under a text stream (gzip)"""
    if isinstance(e, gzip.BadGzipFile):
        return "BadGzipFile"
    if isinstance(e, EOFError):
        return "EOFError"
    if isinstance(e, zlib.error):
        return "error"
    return "OSError"


IO_ERRORS = (EOFError, zlib.error, OSError)


def csv_doc(fp, with_first=True):
    """fp: a text stream opened the way the reader opens it"""
    toks = []
    if with_first:
        try:
            first = fp.readline()
        except UnicodeDecodeError:
            return ["E", "e", "0"]
        except IO_ERRORS as e:
            return ["X:" + io_cls(e), "e", "0"]
        toks.append("L" + hx(first) if first != "" else "L-")
    else:
        toks.append("L-")
    rows = []
    tail = "e"
    r = csv.reader(fp)
    while True:
        try:
            row = next(r)
        except StopIteration:
            break
        except csv.Error:
            tail = "c"
            break
        except UnicodeDecodeError:
            tail = "d"
            break
        except IO_ERRORS as e:
            tail = "x:" + io_cls(e)
            break
        rows.append(row)
    toks += [tail, str(len(rows))]
    for row in rows:
        toks.append(str(len(row)))
        toks += [hx(c) for c in row]
    return toks


def head(path, n=16):
    with open(path, "rb") as f:
        return f.read(n)


def enc_manifest(path):
    h = head(path)
    if h.startswith(SQLITE):
        return None
    with open(path, "rt", newline="") as fp:
        return "mf " + " ".join(csv_doc(fp))


def enc_manifest_file(path):
    """CollectionManifest.load_from_filename: SQLite probe, then the NAME picks gzip.open or open"""
    from sourmash import sqlite_utils
    try:
        conn = sqlite_utils.open_sqlite_db(path)
    except Exception as e:  # noqa: BLE001
        return None
    if conn is not None:
        conn.close()
        return None
    with open(path, "rt", newline="") as fp:
        plain = csv_doc(fp)
    try:
        with gzip.open(path, "rt", newline="") as fp:
            gz = csv_doc(fp)
    except IO_ERRORS as e:
        gz = ["X:" + io_cls(e), "e", "0"]
    return " ".join(["mff", hx(os.path.basename(path)), "n"] + plain + gz)


def _peek_flags(fp):
    import codecs
    chunk = fp.buffer.peek(1)
    # both decodings of the peeked chunk the source has had (the model picks the one the translator finds)
    try:
        ch = chunk.decode("utf-8")
        strict_ok = True
    except UnicodeDecodeError:
        ch = None
        strict_ok = False
    try:
        ch2 = codecs.getincrementaldecoder("utf-8")().decode(chunk)
        incr_ok = True
    except UnicodeDecodeError:
        ch2 = None
        incr_ok = False
    first = ch if ch is not None else (ch2 or "")
    return strict_ok, incr_ok, first.startswith("#")


def enc_picklist(path, argstr):
    is_file = os.path.exists(path) and os.path.isfile(path)
    toks = ["pl", hx(argstr), "1" if is_file else "0"]
    if not is_file:
        return " ".join(toks + ["-", "1", "1", "0", "L-", "e", "0", "L-", "e", "0"])
    # FileInputCSV: gzip first; BadGzipFile at the probe means "a regular file"
    is_gz = False
    sniff = "-"
    try:
        with gzip.open(path, "rt", newline="", encoding="utf-8") as fp:
            fp.buffer.peek(1)
            is_gz = True
    except gzip.BadGzipFile:
        pass
    except IO_ERRORS as e:
        sniff = io_cls(e)
    if sniff != "-":
        return " ".join(toks + [sniff, "1", "1", "0", "L-", "e", "0", "L-", "e", "0"])

    def opened():
        if is_gz:
            fp = gzip.open(path, "rt", newline="", encoding="utf-8")
            fp.buffer.peek(1)
            return fp
        return open(path, newline="", encoding="utf-8")
    with opened() as fp:
        strict_ok, incr_ok, starts_hash = _peek_flags(fp)
        rest = csv_doc(fp)
    with opened() as fp:
        fp.buffer.peek(1)          # same buffer state as in _DictReader_with_version (decides the decoder's chunking)
        whole = csv_doc(fp, with_first=False)
    if is_gz and any(tok == "x:BadGzipFile" or tok == "X:BadGzipFile" for tok in rest[:2] + whole[:2]):
        # a BadGzipFile raised while the caller iterates is thrown back into FileInputCSV's generator, which then
        # falls through to its "regular file" branch: control flow of contextlib, not modelled
        return None
    return " ".join(toks + ["-", "1" if strict_ok else "0", "1" if incr_ok else "0", "1" if starts_hash else "0"] + rest + whole)


def enc_json(x, out):
    if x is None:
        out.append("n")
    elif x is True:
        out.append("t")
    elif x is False:
        out.append("f")
    elif isinstance(x, int):
        out.append("i" + str(x))
    elif isinstance(x, float):
        if x != x:
            out.append("N")
        elif x in (float("inf"), float("-inf")):
            out.append("I+" if x > 0 else "I-")
        else:
            n, d = x.as_integer_ratio()
            out.append(f"d{n}/{d}")
    elif isinstance(x, str):
        out.append("s" + hx(x))
    elif isinstance(x, list):
        out.append("a" + str(len(x)))
        for v in x:
            enc_json(v, out)
    elif isinstance(x, dict):
        out.append("o" + str(len(x)))
        for k, v in x.items():
            out.append(hx(k))
            enc_json(v, out)
    else:
        raise Unencodable(type(x).__name__)


def dec_tokens(fp):
    """json.load(fp) as the readers call it, with the decoder's failure classes"""
    try:
        doc = json.load(fp)
    except json.JSONDecodeError:
        return ["J"], None
    except RecursionError:
        return ["R"], None
    except UnicodeDecodeError:
        return ["U"], None
    except ValueError:
        # e.g. an integer literal beyond the interpreter's digit limit: a plain ValueError
        return ["V"], None
    out = ["D"]
    old = sys.getrecursionlimit()
    old_digits = sys.get_int_max_str_digits()
    sys.setrecursionlimit(max(old, 20000))
    try:
        sys.set_int_max_str_digits(0)
        enc_json(doc, out)
    finally:
        sys.setrecursionlimit(old)
        sys.set_int_max_str_digits(old_digits)
    return out, doc


def enc_lca(path):
    is_file = os.path.isfile(path)
    if not is_file:
        return "lca 0 v e"
    if head(path).startswith(SQLITE) or path.endswith(".gz"):
        return None
    with open(path, "rt") as fp:
        try:
            first = fp.read(1)
        except ValueError:
            return "lca 1 v r"
        if not first:
            return "lca 1 v e"
        if first[0] != "{":
            return f"lca 1 v t:{hx(first[0])} J"
        fp.seek(0)
        toks, _ = dec_tokens(fp)
    return f"lca 1 v t:{hx(first[0])} " + " ".join(toks)


def _fs_state(p):
    if "\x00" in p:
        return "u:ValueError"          # embedded null byte: refused before the file system is asked
    if any(len(c.encode("utf-8", "replace")) > 255 for c in p.split("/")):
        return "u:OSError"             # ENAMETOOLONG
    try:
        if not os.path.exists(p):
            return "n"
        if os.path.isdir(p):
            return "d"
        return "e"
    except ValueError:
        return "u:ValueError"
    except OSError:
        return "u:OSError"


def _mkdir_pred(dirname, sub):
    if "\x00" in sub:
        return "ValueError"
    full = os.path.join(dirname, sub)
    if os.path.exists(full):
        return "-"
    if any(len(c.encode("utf-8", "replace")) > 255 for c in full.split("/")):
        return "OSError"
    return "-"


KNOWN_CLS = {"ValueError", "TypeError", "KeyError", "AttributeError", "IndexError", "OverflowError", "AssertionError", "SyntaxError",
             "MemoryError", "RecursionError", "UnicodeDecodeError", "IndexNotSupported", "IndexNotLoaded", "FileNotFoundError",
             "IsADirectoryError", "NotADirectoryError", "OSError", "ModuleNotFoundError", "Exception", "DatabaseError", "OperationalError",
             "Panic", "SourmashError", "JSONDecodeError", "EOFError", "BadGzipFile", "Io", "Internal", "Msg", "Unknown", "Utf8Error",
             "SerdeError", "StorageError"}


def enc_sbt(path):
    """SBT.load(path) without a storage argument: a `<name>.sbt.json`, or a zip collection (`*.sbt.zip`)"""
    import importlib.util
    import tempfile
    from sourmash.sbt_storage import ZipStorage
    dirname = os.path.dirname(os.path.abspath(path))
    sbt_name = os.path.basename(path)
    if sbt_name.endswith(".sbt.json"):
        sbt_name = sbt_name[:-9]
    # --- where the description comes from (the first step of SBT.load, call for call)
    zip_tok, open_tok = "-", "-"
    storage = None
    tree_data = None
    try:
        if ZipStorage.can_open(path):
            storage = ZipStorage(path)
        elif not path.endswith(".sbt.zip") and ZipStorage.can_open(path + ".sbt.zip"):
            storage = ZipStorage(path + ".sbt.zip")
        if storage:
            sbts = storage.list_sbts()
            zip_tok = f"m{len(sbts)}"
            if len(sbts) == 1:
                tree_data = storage.load(sbts[0])
    except Exception as e:  # noqa: BLE001   native storage failures are inputs of the model
        name = type(e).__name__
        if name not in KNOWN_CLS:
            return None
        zip_tok = "r:" + name
    toks, doc = ["J"], None
    if not zip_tok.startswith("r:"):
        tmp = None
        if tree_data is not None:
            tmp = tempfile.NamedTemporaryFile()
            tmp.write(tree_data)
            tmp.flush()
            sbt_fn = tmp.name
        else:
            sbt_fn = os.path.join(dirname, sbt_name)
            if not sbt_fn.endswith(".sbt.json"):
                sbt_fn += ".sbt.json"
        try:
            fp = open(sbt_fn)
        except OSError as e:
            open_tok = type(e).__name__
            if open_tok not in KNOWN_CLS:
                return None
            fp = None
        if fp is not None:
            with fp:
                toks, doc = dec_tokens(fp)
        if tmp is not None:
            tmp.close()
    mkdir = "-"
    sample = "n"
    mf = ["n"]
    subdir = None
    if storage is None:
        try:
            v = doc.get("version") if isinstance(doc, dict) else 1
            if isinstance(v, (int, float)) and not isinstance(v, bool) and v < 3 or v is True:
                subdir = f".sbt.{sbt_name}"
            else:
                p = doc["storage"]["args"]["path"]
                if isinstance(p, str) and doc["storage"]["backend"] == "FSStorage":
                    mkdir = _mkdir_pred(dirname, p)
                    subdir = p
        except (KeyError, TypeError, AttributeError):
            pass
        try:
            first = None
            if isinstance(doc, list):
                first = doc[0]
            elif isinstance(doc, dict):
                for k, val in doc["nodes"].items():
                    if int(k) == 0:
                        first = val
            if isinstance(first, dict) and isinstance(first.get("filename"), str):
                sample = _fs_state(os.path.join(dirname, first["filename"]))
                if sample.startswith("u:"):
                    sample = "n"
        except (KeyError, TypeError, AttributeError, ValueError, IndexError):
            pass
    try:
        if isinstance(doc, dict) and isinstance(doc.get("manifest_path"), str):
            if storage is not None:
                try:
                    data = storage.load(doc["manifest_path"])
                except FileNotFoundError:
                    data = None
                    mf = ["n"]
                except Exception as e:  # noqa: BLE001
                    data = None
                    if type(e).__name__ not in KNOWN_CLS:
                        return None
                    mf = ["u:" + type(e).__name__]
            elif subdir is not None:
                full = os.path.join(dirname, subdir, doc["manifest_path"])
                st = _fs_state(full)
                data = open(full, "rb").read() if st == "e" else None
                if data is None:
                    mf = [st]
            else:
                data = None
            if data is not None:
                try:
                    text = bytes(data).decode("utf-8")
                    mf = ["c"] + csv_doc(io.StringIO(text))
                except UnicodeDecodeError:
                    mf = ["x"]
    except (KeyError, TypeError, AttributeError):
        pass
    net = importlib.util.find_spec("redis") is not None or importlib.util.find_spec("ipfshttpclient") is not None
    return " ".join(["sbt", zip_tok, open_tok] + toks + [mkdir, sample, "1" if net else "0"] + mf)


def mro_names(e):
    return "<".join(c.__name__ for c in type(e).__mro__)


def enc_chain(calls):
    """calls: list of (fn name, inner outcome string)"""
    return " ".join(["chain", str(len(calls))] + [t for c in calls for t in c])
