"""Targeted (structure-aware) damages for the file kinds whose hand-written reader has a Lean model: each is aimed
at one decision the reader makes (version header, float comparison, required columns, per-cell conversion,
argument string, version dispatch, key presence and type per index version, key -> int conversion, size fields).
Every function returns a list of (bytes, extra) where `extra` is the worker's third job field (picklist argument
template) or None.  Random choices come from the rng the check hands in."""
import copy
import json

MF_PREFIX = "# SOURMASH-MANIFEST-VERSION: "

VERSIONS = ["1.0", "1", "1.", "01.0", "+1.0", "1e0", "1E+0", "10e-1", "0.1e1", " 1.0", "1.0 ", "\t1.0", "1.00000000000000000000",
            "1.00000000000000011102230246251565404236316680908203125", "1.000000000000000111022302462515654042363166809082031250001",
            "0.999999999999999944488848768742172978818416595458984375", "0.99999999999999994448884876874217297881841659545898437499",
            "1.1", "0.9", "2.0", "-1.0", "0", "", "nan", "inf", "-inf", "Infinity", "1_0", "1_.0", "0x1", "1e", "1e+", ".", "1.0.0",
            "abc", "1e99999", "1e-99999", "0." + "0" * 40 + "1e41", "1" + "0" * 30 + "e-30", "١", "1,0", "1 .0"]

LIT_CELLS = ["", " ", "True", "False", "None", " True", "True ", "\tFalse", "0", "1", "7", "007", "00", "0000", "10", "if", "in", "not",
             "lambda", "zz", "print", "__debug__", "match", "_", "true", "TRUE", "9" * 4300, "9" * 4301, "-" * 100000 + "1",
             "(" * 300, "[" * 50 + "]" * 50, "1_0", "-1", "[1]", "''", "x y", "1 +", "é", "0.0", "None\n"]

INT_CELLS = ["", " ", "21", " 21 ", "+21", "-21", "2_1", "2__1", "_21", "21_", "0x15", "21.0", "1e3", "0", "00021", "9" * 4300, "9" * 4301,
             "0" * 4301, "٢١", "２１", "21\x1c", "\x1f21", "+-21", "+ 21", "2 1", "True", "None", "２_1"]


def _csv_line(cells):
    out = []
    for c in cells:
        if any(ch in c for ch in ',"\r\n'):
            c = '"' + c.replace('"', '""') + '"'
        out.append(c)
    return ",".join(out)


def _parse_simple(seed):
    import csv
    import io
    text = seed.decode("utf-8")
    first, _, rest = text.partition("\n")
    rows = list(csv.reader(io.StringIO(rest, newline="")))
    return first, rows


def _build(first, rows, eol="\r\n"):
    return (first + "\n" + "".join(_csv_line(r) + eol for r in rows)).encode("utf-8")


def manifest(seed, rng):
    first, rows = _parse_simple(seed)
    hdr, data = rows[0], rows[1:]
    out = []
    for v in VERSIONS:
        out.append(_build(MF_PREFIX + v, rows))
    for f in ["# SOURMASH-MANIFEST-VERSION:1.0", "#SOURMASH-MANIFEST-VERSION: 1.0", MF_PREFIX.strip(), MF_PREFIX, " " + MF_PREFIX + "1.0",
              MF_PREFIX.lower() + "1.0", MF_PREFIX + "1.0\r", MF_PREFIX + "1.0 \t ", MF_PREFIX + "1.0\x1c", MF_PREFIX + "1.0\xa0", ""]:
        out.append(_build(f, rows))
    # first line terminated by \r only / no terminator at all
    out.append((MF_PREFIX + "1.0\r" + "".join(_csv_line(r) + "\r\n" for r in rows)).encode())
    out.append((MF_PREFIX + "1.0").encode())
    out.append((MF_PREFIX + "1.0\n").encode())
    out.append((MF_PREFIX + "1.0\n\n\n").encode())
    out.append((MF_PREFIX + "1.0\n" + _csv_line(hdr)).encode())
    ia, ik = hdr.index("with_abundance"), hdr.index("ksize")
    for c in LIT_CELLS:
        r = copy.deepcopy(data)
        r[rng.randrange(len(r))][ia] = c
        out.append(_build(first, [hdr] + r))
    for c in INT_CELLS:
        r = copy.deepcopy(data)
        r[rng.randrange(len(r))][rng.choice([ik, hdr.index("num"), hdr.index("scaled"), hdr.index("n_hashes")])] = c
        out.append(_build(first, [hdr] + r))
    for k in range(0, len(hdr) + 3):
        r = copy.deepcopy(data)
        i = rng.randrange(len(r))
        r[i] = (r[i] + ["x", "y", "z"])[:k]
        out.append(_build(first, [hdr] + r))
    for k in hdr:
        out.append(_build(first, [[h for h in hdr if h != k]] + data))
    out.append(_build(first, [hdr + ["ksize"]] + [d + ["31"] for d in data]))
    out.append(_build(first, [hdr + ["ksize"]] + data))                       # duplicated column, short rows -> None
    out.append(_build(first, [["ksize"] + hdr] + [["zz"] + d for d in data]))  # earlier duplicate is overwritten
    out.append(_build(first, [hdr + ["with_abundance"]] + [d + [""] for d in data]))
    out.append(_build(first, [list(reversed(hdr))] + [list(reversed(d)) for d in data]))
    out.append(_build(first, [hdr, [], []] + data + [[], []]))
    out.append(_build(first, [[], hdr] + data))
    out.append(_build(first, [hdr] + data * 40))
    out.append(_build(first, [hdr] + data, eol="\n"))
    out.append(_build(first, [hdr] + data, eol="\r"))
    b = _build(first, [hdr] + data)
    out.append(b + b"\xff")
    out.append(b + b"\xe2\x82")                         # truncated multi-byte sequence at the very end
    out.append(b[:40] + b"\xff" + b[40:])
    out.append(b[:len(b) // 2] + b"\xc3" + b[len(b) // 2:])
    out.append(_build(first, [hdr] + data * 30) + b"\xff\n")      # beyond the first decoder chunk
    out.append(_build(first, [hdr] + [data[0][:-1] + ['a"b']] + data[1:]))
    res = [(m, None) for m in out]
    # load_from_filename picks gzip.open by the NAME: the same bytes under both names, gzip streams whole and broken
    import gzip as _gz
    good = _build(first, [hdr] + data)
    z = _gz.compress(good)
    short = _gz.compress(_build(first, [hdr] + [data[0][:7]]))
    badver = _gz.compress(_build(MF_PREFIX + "2.0", [hdr] + data))
    for name in ("suffix=.csv.gz", "suffix=.csv"):
        for payload in (good, z, z[:len(z) // 2], z[:10], z[:3], b"\x1f\x8b", z + b"trailing garbage", z + z, z[:-4] + b"\x00\x00\x00\x00",
                        z[:20] + bytes([z[20] ^ 0xff]) + z[21:], b"", short, badver, _gz.compress(b""), _gz.compress(good[:40]),
                        _gz.compress(good + b"\xff")):
            res.append((payload, name))
    return res


PL_ARGS = ["{}:md5:md5", "{}:md5:md5:include", "{}:md5:md5:exclude", "{}:md5:md5:bogus", "{}:md5:md5:", "{}:md5", "{}", "{}:md5:md5:include:x",
           "{}::manifest", "{}:name:manifest", "{}::gather", "{}::search", "{}::prefetch", "{}:name:ident", "{}:name:identprefix", "{}:name:name",
           "{}:md5:md5prefix8", "{}:md5:md5short", "{}:nonexistent:md5", "{}:md5:bogus", "{}::md5", "{}::", "::", ":::", "",
           "{}.missing:md5:md5", "{}:md5:MD5", "{}: md5:md5", "{}:name:md5"]


def picklist(seed, mf_seed, rng):
    """returns (bytes, extra) — the pickfile content and the argument template"""
    text = seed.decode("utf-8")
    lines = text.split("\r\n")
    hdr, rows = lines[0], [l for l in lines[1:] if l]
    out = []
    for a in PL_ARGS:
        out.append((seed, a))
    mftext = mf_seed.decode("utf-8")
    for a in ["{}::manifest", "{}::gather", "{}::search", "{}::prefetch", "{}:name:ident", "{}:name:identprefix", "{}:md5short:md5short",
              "{}:md5:md5", "{}:filename:name", "{}:with_abundance:name"]:
        out.append((mf_seed, a))
    pre = mftext.replace("name,", "match_name,").replace(",md5,", ",match_md5,")
    out.append((pre.encode(), "{}::prefetch"))
    out.append((pre.encode(), "{}::gather"))
    # rows too short for the columns a meta-coltype reads
    ml = mftext.split("\n")
    for k in (2, 9, 10):
        cut = list(ml)
        cut[2] = ",".join(cut[2].split(",")[:k])
        out.append(("\n".join(cut).encode(), "{}::manifest"))
        out.append(("\n".join(cut).encode(), "{}:name:ident"))
    files = [
        "# comment\r\n" + text, "#comment\r\n" + text, "#\r\n" + text, "# \r\n" + text, "# a: b: c: d\r\n" + text, "#", "# x", "",
        "\r\n" + text, "\r\n\r\n", hdr + "\r\n", hdr, "md5\r\n\r\n\r\n", hdr + "\r\n,\r\n,x\r\n" + "\r\n".join(rows) + "\r\n",
        hdr + "\r\n" + "\r\n".join(rows + rows) + "\r\n", hdr + "\r\n" + "\r\n".join(r.split(",")[0][:8] + ",n" for r in rows) + "\r\n",
        "name,md5\r\n" + "\r\n".join(",".join(reversed(r.split(",", 1))) for r in rows) + "\r\n",
        "md5,name,md5\r\n" + "\r\n".join(r + ",zz" for r in rows) + "\r\n", "md5,name,md5\r\n" + "\r\n".join(rows) + "\r\n",
        "name\r\nGCF_1.1 Escherichia coli\r\nGCF_1.2 other\r\n GCF_2\r\n.5 x\r\nplain\r\n\r\n",
        hdr + "\r\n" + rows[0] + "\r\n" + 'x,"unterminated' + "\r\n", hdr + "\r\n" + "A" * 140000 + ",n\r\n",
    ]
    for f in files:
        for a in rng.sample(["{}:md5:md5", "{}:name:ident", "{}:name:identprefix", "{}:md5:md5prefix8", "{}:name:name", "{}::manifest"], 3):
            out.append((f.encode("utf-8"), a))
    big = (hdr + "\r\n" + (rows[0] + "\r\n") * 200).encode()
    out.append((big[:4095] + "é".encode() + big[4095:], "{}:md5:md5"))          # a 2-byte character across the first buffer boundary
    out.append((big[:3000] + b"\xff" + big[3000:], "{}:md5:md5"))
    out.append((big[:6000] + b"\xff" + big[6000:], "{}:md5:md5"))
    out.append((b"\xff" + seed, "{}:md5:md5"))
    out.append((seed + b"\xe2\x82", "{}:md5:md5"))
    # FileInputCSV sniffs gzip by content: whole and broken gzip streams of the same pickfile
    import gzip as _gz
    z = _gz.compress(seed)
    zh = _gz.compress(("# comment\r\n" + text).encode())
    for payload in (z, zh, z[:len(z) // 2], z[:10], z[:3], b"\x1f\x8b", b"\x1f\x8b\x08", z + z, z[:-4] + b"\x00\x00\x00\x00",
                    z[:20] + bytes([z[20] ^ 0xff]) + z[21:], _gz.compress(b""), _gz.compress(seed + b"\xff"), _gz.compress(b"\xff" + seed),
                    _gz.compress(b"#x\r\n" + seed), _gz.compress(big[:4095] + "é".encode() + big[4095:]), z + b"trailing garbage"):
        for a in ("{}:md5:md5", "{}:name:ident"):
            out.append((payload, a))
    return out


def _j(d):
    return json.dumps(d).encode()


def sbtjson(seed, rng, thorough=False):
    base = json.loads(seed)
    out = []

    def edit(fn):
        d = copy.deepcopy(base)
        try:
            r = fn(d)
        except (KeyError, TypeError, IndexError):
            return
        out.append(_j(d if r is None else r))

    def setp(path, val):
        def f(d):
            x = d
            for p in path[:-1]:
                x = x[p]
            x[path[-1]] = val
        return f

    def delp(path):
        def f(d):
            x = d
            for p in path[:-1]:
                x = x[p]
            del x[path[-1]]
        return f
    # version dispatch
    for v in [1, 2, 3, 4, 5, 6, 7, 0, -1, 6.0, 5.0, 6.5, True, False, None, "6", [6], {"v": 6}, 2 ** 70, float("nan"), float("inf")]:
        edit(setp(["version"], v))
    edit(delp(["version"]))
    # documents shaped for the older versions
    for v in (5, 4, 3, 2):
        def older(d, v=v):
            d["version"] = v
            if v == 5:
                d["leaves"] = d.pop("signatures")
            else:
                d["nodes"].update(d.pop("signatures"))
        edit(older)
        for k in ("nodes", "leaves", "factory", "d", "storage"):
            def older_del(d, v=v, k=k):
                older(d, v)
                del d[k]
            edit(older_del)
        for val in (None, [], {}, "ab", 5):
            def older_set(d, v=v, val=val):
                older(d, v)
                key = rng.choice([k for k in ("nodes", "leaves", "factory", "d", "storage") if k in d])
                d[key] = val
            edit(older_set)

        def older_node(d, v=v):
            older(d, v)
            k = rng.choice(list(d["nodes"]))
            d["nodes"][k] = rng.choice([None, [], "internal", 5, {"name": "internal.0"}, {"name": None, "filename": "x"}, {"name": ["internal"], "filename": "x"},
                                        {"name": "x", "filename": "y"}, {"name": "x", "filename": "y", "metadata": "z"}, {"filename": "x"}])
        for _ in range(6):
            edit(older_node)
    # top level not a mapping: version 1
    for top in ([], [None], [{"filename": "internal.0", "name": "internal.0"}], [{"name": "x"}], [{"filename": 5}], [5], ["ab"], "ab", "", 5, None, True, 2.5,
                [[{"filename": "x"}]], [{"filename": ""}], ["manifest_path"], [{"filename": "nonexistent", "name": "internal.0"}, "manifest_path"]):
        out.append(_j(top))
    out.append(_j({"version": 1}))
    out.append(_j({"version": 2, "nodes": {"0": None}}))
    out.append(_j({"version": 2, "nodes": {"1": {"filename": "x"}}}))
    out.append(_j({"version": 2, "nodes": {"0": {"filename": "nonexistent"}}, "d": 2}))
    out.append(_j({"version": 2, "nodes": {" 0 ": {"filename": ""}}, "d": 2}))
    out.append(_j({"version": 2, "nodes": {"0": {"name": "x"}}}))
    out.append(_j({"version": 2, "nodes": {"0": "x"}}))
    out.append(_j({"version": 2, "nodes": []}))
    # required keys and their types, v6
    for k in list(base):
        edit(delp([k]))
        for val in (None, [], {}, "ab", 5, True, 2.5):
            edit(setp([k], val))
    for k in ("backend", "args"):
        edit(delp(["storage", k]))
        for val in (None, [], {}, "ab", 5, "FSStorage", "ZipStorage", "RedisStorage", "IPFSStorage", "fsstorage", ["FSStorage"], {"a": 1}):
            edit(setp(["storage", k], val))
    for b in ("RedisStorage", "IPFSStorage", "ZipStorage", "Nope"):
        for a in ({}, {"path": "x"}, {"host": "127.0.0.1"}, [], None, "ab"):
            def st(d, b=b, a=a):
                d["storage"] = {"backend": b, "args": a}
            edit(st)
    edit(delp(["storage", "args", "path"]))
    for val in (None, 5, [], "", "newdir", "a/b/c", "x" * 300, "nul\x00byte", ".sbt.t2/", "./.sbt.t2"):
        edit(setp(["storage", "args", "path"], val))
    edit(delp(["factory", "args"]))
    for val in (None, 5, [], [1], [1, 2], [1, 2, 3, 4], "abc", "ab", {"a": 1, "b": 2, "c": 3}, [None, None, None], [[1], [2], [3]], True):
        edit(setp(["factory", "args"], val))
    # node / leaf tables
    for tab in ("nodes", "signatures"):
        keys = list(base[tab])
        for val in (None, [], "ab", 5, {}, {"x": {}}, {"1.0": {}}, {"": {}}):
            edit(setp([tab], val))
        for nk in (" 7 ", "+7", "-7", "07", "7_0", "7__0", "_7", "0x7", "7.0", "1e1", "٧", "9" * 4, "\t7\n", "7\x1c", "seven", ""):
            def rekey(d, tab=tab, nk=nk):
                k = rng.choice(list(d[tab]))
                d[tab][nk] = d[tab].pop(k)
            edit(rekey)

        def collide(d, tab=tab):
            k = list(d[tab])[0]
            d[tab][" " + k] = {"filename": "other", "name": "other", "metadata": "m"}
        edit(collide)
        for val in (None, [], "ab", 5, {}, {"name": "n"}, {"filename": "f"}, {"metadata": "m"}, {"name": "n", "filename": "f"},
                    {"metadata": "m", "name": "n"}, {"metadata": None, "name": None, "filename": None}, {"name": 5, "filename": [], "metadata": {}}):
            def ent(d, tab=tab, val=val):
                d[tab][rng.choice(list(d[tab]))] = val
            edit(ent)
    # d: anything is accepted; children() costs d
    for val in (0, 1, 3, 1000, 100000, -5, True, None, "abc", 2.5, [2], {}):
        edit(setp(["d"], val))
    # position keys as size fields: len(_missing_nodes) grows with the largest key
    for big in ((50, 5000, 20000) if not thorough else (50, 5000, 20000, 2000000)):
        def bigkey(d, big=big):
            k = max(d["signatures"], key=int)
            d["signatures"][str(big)] = d["signatures"].pop(k)
        edit(bigkey)

        def bignode(d, big=big):
            d["nodes"][str(big // 10)] = {"filename": "internal.0", "name": "internal.0"}
        edit(bignode)
    # manifest pointer
    edit(delp(["manifest_path"]))
    for val in (None, 5, [], "", "nonexistent.csv", "../t2.sbt.json", "t2.manifest.csv", "./t2.manifest.csv", "internal.0", "nul\x00", "x" * 300):
        edit(setp(["manifest_path"], val))
    return [(m, None) for m in out]


def lca(seed, rng):
    base = json.loads(seed)
    out = []

    def edit(fn):
        d = copy.deepcopy(base)
        try:
            r = fn(d)
        except (KeyError, TypeError, IndexError):
            return
        out.append(_j(d if r is None else r))

    def setk(k, v):
        def f(d):
            d[k] = v
        return f

    def delk(k):
        def f(d):
            del d[k]
        return f
    for v in ["2.1", "2.0", "2", "1.9", "1.99999999999999988897769753748434595763683319091796875", "1.9999999999999998889776975374843459576368331909179687499",
              " 2.1 ", "+2.1", "2e0", "20e-1", "0.2e1", "abc", "", "nan", "inf", "-inf", "2_1", "٢", "1e99999", 2, 2.0, 2.1, 1.9, 1, 3, True, False,
              None, [2], {"v": 2}, 2 ** 1024, 2 ** 1024 - 2 ** 970, 2 ** 1024 - 2 ** 970 - 1, -(2 ** 2000), float("nan"), float("inf"), float("-inf"), -0.0]:
        edit(setk("version", v))
    edit(delk("version"))
    for v in ["sourmash_lca", "sourmash_LCA", "", None, 5, ["sourmash_lca"], "sourmash_lca "]:
        edit(setk("type", v))
    for k in list(base):
        edit(delk(k))
        for v in (None, [], {}, "ab", 5, True, 2.5, [1, 2], {"a": 1}, {"1": 1}, {"1": [1]}, {"x": []}, "12"):
            edit(setk(k, v))
    for k in ("ksize", "scaled"):
        for v in ("21", " 21 ", "2_1", "x", "", "21.0", 21.9, -21.9, 1e308, float("nan"), float("inf"), True, None, [21], 2 ** 70, -3, 0, "9" * 4301):
            edit(setk(k, v))
    for m in ("DNA", "protein", "dna", "", None, 5, ["DNA"]):
        for ks in (21, 22, 3, 0, -21, -22, 3 * 2 ** 1030, 3 * (2 ** 53 + 1), 3 * (2 ** 53 + 3), 3 * (2 ** 54 + 2), 3 * (2 ** 54 + 6), 3 * (2 ** 60 + 2 ** 7),
                   3 * (2 ** 1024 - 2 ** 970), 3 * (2 ** 1024 - 2 ** 970 - 1), 21.0, "21", True):
            def mk(d, m=m, ks=ks):
                d["moltype"] = m
                d["ksize"] = ks
            edit(mk)
    for v in ({"0": "ab"}, {"0": "a"}, {"0": ""}, {"0": ["ab", "cd"]}, {"0": [["superkingdom", [1]]]}, {"0": [["superkingdom", {"a": 1}], ["superkingdom", "B"]]},
              {"0": [["superkingdom", "B"], ["superkingdom", [1]]]}, {"0": [[["x"], "B"]]}, {"0": [[{"x": 1}, "B"]]}, {"0": {"ab": 1}}, {"0": {"a": 1}}, {"0": {}},
              {"0": 5}, {"0": None}, {"0": [5]}, {"0": [None]}, {"0": [[]]}, {"0": [["x"]]}, {"0": [["x", "y", "z"]]}, {"0": [{"a": 1}]}, {"x": []}, {" 0 ": []},
              {"0": [], "00": [], " 0": []}, {"0": [["strain", [1]]]}, {"0": [["unranked", [1]]]}, {"0": [[1, [1]]]}, {"0": [[None, 2], [True, 3], [1.5, 4]]},
              {"x": [5]}, {"x": [["superkingdom", [1]]]}, {}):
        edit(setk("lid_to_lineage", v))
    for v in ({"1": [0]}, {"1": []}, {"1": "abc"}, {"1": {"a": 1}}, {"1": 5}, {"1": None}, {"1": [[0]]}, {"1": [{}]}, {"1": [None, True, 1.5, "x"]},
              {"x": [0]}, {"x": 5}, {"x": [[0]]}, {" 1": [0], "1 ": [1], "1": [2]}, {"-1": [0]}, {"1_0": [0]}, {"1.0": [0]}, {}):
        edit(setk("hashval_to_idx", v))
    for v in ({"a": 0}, {"a": 0, "b": 5}, {"a": True}, {"a": None}, {"a": "x"}, {"a": [1]}, {"a": {}}, {"a": 1.5}, {"a": float("nan")}, {"a": float("inf")},
              {"a": 2 ** 70}, {"a": -1}, {"a": 0, "b": "x"}, {"a": 0, "b": 1.5}, {"a": 0, "b": None}, {"a": True, "b": 3}, [0], [], "ab", "", 5, 0, True, False, None):
        edit(setk("ident_to_idx", v))
    for v in ({"0": 0}, {"0": 0, "1": 7}, {"0": None}, {"0": "zz"}, {"0": [1]}, {"0": 1.5}, {"0": True}, {"x": 0}, {" 0 ": 0, "0": 1}, {"0": 0, "1": "x"},
              [], [0], "ab", "", 5, 0, None, {}):
        edit(setk("idx_to_lid", v))
    raw = [b"", b"{", b"{}", b"[]", b"[{}]", b" {}", b"\n{\"type\":\"sourmash_lca\"}", b"{\"type\":\"sourmash_lca\"}", b"\xff{}", b"{}\xff", b"{\"a\":\"\xff\"}",
           b"x" * 9000 + b"\xff", b"{\"a\": \"" + b"x" * 9000 + b"\xff\"}", b"{\"a\": NaN, \"type\": \"sourmash_lca\", \"version\": NaN}",
           b"{\"type\": \"sourmash_lca\", \"version\": Infinity}", b"{\"type\": \"sourmash_lca\", \"version\": -Infinity}",
           b"{\"type\": \"sourmash_lca\", \"version\": 1e999}", b"{\"type\": \"sourmash_lca\", \"version\": \"2.1\", \"version\": \"1.0\", \"lid_to_lineage\": {}}",
           b"{\"a\":" * 2000, b"{\"a\":" + b"[" * 3000 + b"]" * 3000 + b"}", b"{\"type\": \"sourmash_lca\", \"version\": 2." + b"0" * 5000 + b"}",
           b"{\"type\": \"sourmash_lca\", \"version\": " + b"9" * 5000 + b"}"]
    return [(m, None) for m in out] + [(r, None) for r in raw]


def sbtzip(seed, rng):
    """zip-stored SBT: the index-file location step (how many *.sbt.json members) and the description read from the zip"""
    import io
    import zipfile
    zf = zipfile.ZipFile(io.BytesIO(seed))
    names = zf.namelist()
    idx = [n for n in names if n.endswith(".sbt.json")]
    if len(idx) != 1:
        return []
    base = json.loads(zf.read(idx[0]))

    def build(members):
        buf = io.BytesIO()
        with zipfile.ZipFile(buf, "w") as zo:
            for n, data in members:
                zo.writestr(n, data)
        return buf.getvalue()
    others = [(n, zf.read(n)) for n in names if n != idx[0]]
    out = [build(others),                                                        # no description at all
           build(others + [(idx[0], zf.read(idx[0])), ("second.sbt.json", zf.read(idx[0]))]),   # two descriptions
           build([(idx[0], zf.read(idx[0]))]),                                   # description only
           build(others + [("renamed.json", zf.read(idx[0]))]),
           build(others + [(idx[0], b"")]), build(others + [(idx[0], b"[]")]), build(others + [(idx[0], b"{")]),
           build(others + [(idx[0], b"\xff{}")])]
    docs = []
    for v in (1, 2, 3, 4, 5, 7, "6", None, [6], 6.0, True):
        d = copy.deepcopy(base)
        d["version"] = v
        docs.append(d)
    for key in list(base):
        d = copy.deepcopy(base)
        del d[key]
        docs.append(d)
    for st in ({"backend": "RedisStorage", "args": {}}, {"backend": "Nope", "args": {}}, None, [], {"backend": "FSStorage", "args": {"path": "elsewhere"}}):
        d = copy.deepcopy(base)
        d["storage"] = st
        docs.append(d)
    for mp in (None, 5, 7, 255, 256, 300, -1, True, 2.5, [], "", "nonexistent.csv", names[0], "SOURMASH-MANIFEST.csv"):
        d = copy.deepcopy(base)
        d["manifest_path"] = mp
        docs.append(d)
    for tab in ("nodes", "signatures"):
        for val in (None, [], {}, {"x": {}}, {" 1 ": {"filename": "f", "name": "n", "metadata": "m"}}):
            d = copy.deepcopy(base)
            d[tab] = val
            docs.append(d)
    for d in docs:
        out.append(build(others + [(idx[0], json.dumps(d).encode())]))
    return [(m, None) for m in out]
