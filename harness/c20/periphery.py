"""C20 periphery (runs inside the worker): the same damaged file through the OTHER routes the Python layer offers,
agreement of the views a successful load gives, re-verification of earlier results after later (failed) loads.

* routes: per kind a list of (name, fn(path) -> sorted md5 list or summary string).  The primary route is the one the
  worker has always used; for every job ONE alternate route is added, picked by a counter the harness does not see
  (all of them when C20_ALL_ROUTES is set: thorough tier).  A route may raise anything ordinary — helpers of the CLI layer
  (sourmash_args.*, the command line) may also end in SystemExit, that is their documented way to report an error.
  Only a crash / hang (seen by the harness) is a violation, and: when the primary route and an 'all signatures' route both
  SUCCEED they must have read the same signatures (`routes-disagree`).
* views: len(idx) vs signatures() vs manifest rows vs signatures_with_location(); md5 of a signature vs md5 of its row;
  a rebuilt manifest vs the stored one (`views-disagree`).
* history: every index / signature list a load returned is kept, uncopied, and re-read after later jobs: md5 sums, len,
  and a repeated search must still give what they gave first (`history-changed`).  Loading the same file twice must give
  the same outcome (`reload-differs`)."""
import io
import os
import sys

import sourmash
from sourmash import signature as sigmod


class CliExit(Exception):
    pass


def md5s(sigs):
    return sorted(ss.md5sum() for ss in sigs)


def _cli(argv):
    """run the command line in-process; returns 'cli rc=<n>'"""
    from sourmash import __main__ as smain
    out, err = sys.stdout, sys.stderr
    sys.stdout, sys.stderr = open(os.devnull, "w"), open(os.devnull, "w")
    try:
        try:
            rc = smain.main(argv)
        except SystemExit as e:
            rc = e.code
    finally:
        sys.stdout, sys.stderr = out, err
    return f"cli rc={rc}"


# ---------------------------------------------------------------------------------------------------- routes

def sig_routes(path):
    from sourmash import sourmash_args
    from sourmash.index import LinearIndex, MultiIndex
    from sourmash import save_load

    def stdin_route(p):
        old = sys.stdin
        try:
            sys.stdin = open(p, "rt")
            return md5s(save_load._load_stdin("-").signatures())
        finally:
            try:
                sys.stdin.close()
            finally:
                sys.stdin = old

    def one(p):
        return [sigmod.load_one_signature_from_json(open(p, "rb").read()).md5sum()]

    return [
        ("json:path", True, lambda p: md5s(sigmod.load_signatures_from_json(p))),
        ("json:bytes:raise", True, lambda p: md5s(sigmod.load_signatures_from_json(open(p, "rb").read(), do_raise=True))),
        ("json:filehandle", True, lambda p: md5s(sigmod.load_signatures_from_json(open(p, "rb")))),
        ("json:text", True, lambda p: md5s(sigmod.load_signatures_from_json(open(p, "rb").read().decode("utf-8")))),
        ("json:ksize-filter", False, lambda p: md5s(sigmod.load_signatures_from_json(p, ksize=21, select_moltype="DNA"))),
        ("json:ignore-md5", True, lambda p: md5s(sigmod.load_signatures_from_json(p, ignore_md5sum=True))),
        ("load_one_signature_from_json", False, one),
        ("sourmash.load_one_signature", False, lambda p: [sourmash.load_one_signature(p).md5sum()]),
        ("sourmash.load_signatures", True, lambda p: md5s(sourmash.load_signatures(p))),
        ("LinearIndex.load", True, lambda p: md5s(LinearIndex.load(p).signatures())),
        ("MultiIndex.load_from_path", True, lambda p: md5s(MultiIndex.load_from_path(p).signatures())),
        ("stdin", True, stdin_route),
        ("sourmash_args.load_query_signature", False, lambda p: [sourmash_args.load_query_signature(p, 21, "DNA").md5sum()]),
        ("sourmash_args.load_many_signatures", True,
         lambda p: md5s(ss for ss, _ in sourmash_args.load_many_signatures([p], sourmash_args.SignatureLoadingProgress()))),
        ("sourmash_args.load_one_signature", False, lambda p: [sourmash_args.load_one_signature(p, ksize=31).md5sum()]),
        ("cli:sig describe", False, lambda p: _cli(["sig", "describe", p])),
        ("cli:sig cat", False, lambda p: _cli(["sig", "cat", p, "-o", p + ".cat.out"])),
    ]


def index_routes(kind, path):
    from sourmash import sourmash_args
    from sourmash.index import ZipFileLinearIndex, StandaloneManifestIndex
    from sourmash.index.sqlite_index import SqliteIndex, load_sqlite_index
    from sourmash.manifest import CollectionManifest
    from sourmash.sbt import SBT
    from sourmash.sbtmh import SigLeaf, load_sbt_index
    from sourmash.lca import lca_db
    r = [
        ("load_file_as_signatures", True, lambda p: md5s(sourmash.load_file_as_signatures(p))),
        ("load_file_as_index:yield_all_files", False, lambda p: md5s(sourmash.load_file_as_index(p, yield_all_files=True).signatures())),
        ("sourmash_args.load_many_signatures", True,
         lambda p: md5s(ss for ss, _ in sourmash_args.load_many_signatures([p], sourmash_args.SignatureLoadingProgress()))),
        ("get_manifest:rebuild", True,
         lambda p: sorted(r["md5"] for r in sourmash_args.get_manifest(sourmash.load_file_as_index(p), rebuild=True).rows)),
        ("cli:sig fileinfo", False, lambda p: _cli(["sig", "fileinfo", p])),
        ("cli:sig manifest", False, lambda p: _cli(["sig", "manifest", p, "-o", p + ".mf.out", "--no-rebuild-manifest"])),
        ("cli:sig describe", False, lambda p: _cli(["sig", "describe", p])),
    ]
    if kind in ("zip", "zipnomf"):
        r += [("ZipFileLinearIndex.load", True, lambda p: md5s(ZipFileLinearIndex.load(p).signatures())),
              ("ZipFileLinearIndex.load:no-manifest", True, lambda p: md5s(ZipFileLinearIndex.load(p, use_manifest=False).signatures())),
              ("ZipFileLinearIndex.load:yield-all", False, lambda p: md5s(ZipFileLinearIndex.load(p, traverse_yield_all=True, use_manifest=False).signatures()))]
    if kind == "sqldb":
        r += [("SqliteIndex.load", True, lambda p: md5s(SqliteIndex.load(p).signatures())),
              ("load_sqlite_index", True, lambda p: md5s(load_sqlite_index(p).signatures())),
              ("CollectionManifest.load_from_filename", True, lambda p: sorted(r["md5"] for r in CollectionManifest.load_from_filename(p).rows)),
              ("LCA_Database.load", False, lambda p: md5s(lca_db.LCA_Database.load(p).signatures()))]
    if kind in ("sbtzip", "sbtjson"):
        r += [("load_sbt_index", True, lambda p: md5s(load_sbt_index(p).signatures())),
              ("sourmash.load_sbt_index", True, lambda p: md5s(sourmash.load_sbt_index(p).signatures())),
              ("SBT.load:cache_size=1", True, lambda p: md5s(SBT.load(p, leaf_loader=SigLeaf.load, cache_size=1).signatures())),
              ("SBT.leaves", True, lambda p: md5s(l.data for l in load_sbt_index(p).leaves()))]
    if kind == "lca":
        r += [("load_single_database", True, lambda p: md5s(lca_db.load_single_database(p)[0].signatures())),
              ("load_databases", True, lambda p: md5s(lca_db.load_databases([p])[0][0].signatures())),
              ("LCA_Database.load", True, lambda p: md5s(lca_db.LCA_Database.load(p).signatures())),
              ("LCA_Database.load+downsample_scaled", False,
               lambda p: (lambda db: (db.downsample_scaled(db.scaled * 2), md5s(db.signatures()))[1])(lca_db.LCA_Database.load(p))),
              ("cli:lca summarize", False, lambda p: _cli(["lca", "summarize", "--db", p, "--query", p]))]
    if kind == "manifest":
        r = [("StandaloneManifestIndex.load", False, lambda p: str(len(StandaloneManifestIndex.load(p)))),
             ("load_from_csv", True, lambda p: sorted(r["md5"] for r in CollectionManifest.load_from_csv(open(p, newline="")).rows)),
             ("cli:sig check", False, lambda p: _cli(["sig", "check", p, "--picklist", p + "::manifest"]))]
    return r


def other_routes(kind, path, extra):
    if kind == "nodegraph":
        from sourmash.nodegraph import Nodegraph, extract_nodegraph_info

        def buf(p):
            ng = Nodegraph.from_buffer(open(p, "rb").read())
            return f"{ng.tablesizes() if callable(getattr(ng, 'tablesizes', None)) else ''} {ng.n_occupied()} {ng.ksize}"
        return [("Nodegraph.from_buffer", False, buf), ("extract_nodegraph_info", False, lambda p: str(extract_nodegraph_info(p)))]
    if kind == "hll":
        from sourmash.hll import HLL
        return [("HLL.from_buffer", False, lambda p: str(len(HLL.from_buffer(open(p, "rb").read()))))]
    if kind in ("picklist", "plarg"):
        import argparse
        from sourmash import sourmash_args
        argstr = (extra or "{}:md5:md5").replace("{}", path)

        def lp(p):
            pl = sourmash_args.load_picklist(argparse.Namespace(picklist=argstr, picklist_require_all=False))
            return str(len(pl.pickset))
        return [("sourmash_args.load_picklist", False, lp)]
    if kind == "taxonomy":
        from sourmash.tax.tax_utils import LineageDB, MultiLineageDB
        from sourmash.lca.command_index import load_taxonomy_assignments
        return [("LineageDB.load", False, lambda p: str(len(LineageDB.load(p)))),
                ("MultiLineageDB.load:keep-versions", False, lambda p: str(len(MultiLineageDB.load([p], keep_full_identifiers=True, keep_identifier_versions=True)))),
                ("lca.load_taxonomy_assignments", False, lambda p: str(load_taxonomy_assignments(p)[1])),
                ("lca.load_taxonomy_assignments:force", False, lambda p: str(load_taxonomy_assignments(p, force=True, split_identifiers=True)[1]))]
    return []


def routes_for(kind, path, extra):
    if kind in ("sig", "siggz"):
        return sig_routes(path)
    if kind in ("zip", "zipnomf", "sqldb", "sbtzip", "sbtjson", "lca", "manifest"):
        return index_routes(kind, path)
    return other_routes(kind, path, extra)


# ---------------------------------------------------------------------------------------------------- views

def views(idx, sigs):
    """problems: list of strings"""
    probs = []
    got = md5s(sigs)
    try:
        n = len(idx)
        if n != len(sigs):
            probs.append(f"[len-vs-signatures] len(idx)={n} but signatures() yields {len(sigs)}")
    except Exception as e:  # noqa: BLE001
        probs.append(f"[len-raises] signatures() works but len() raises {type(e).__name__}")
    m = getattr(idx, "manifest", None)
    try:
        if m is not None:
            rows = sorted(str(r["md5"]) for r in m.rows)
            import re as _re
            wellformed = {x for x in rows if _re.fullmatch(r"[0-9a-f]{32}", x)}
            # every signature handed out must be listed, every (well-formed) listed md5 must be handed out, and the counts agree
            if (set(got) - set(rows)) or (wellformed - set(got)) or len(rows) != len(got):
                probs.append(f"[manifest-md5-vs-signatures] manifest lists {len(rows)} md5s, signatures() yields {len(got)} ({len(set(rows) ^ set(got))} differ)")
            if len(m) != len(rows):
                probs.append(f"[manifest-len] len(manifest)={len(m)} but it has {len(rows)} rows")
    except Exception as e:  # noqa: BLE001
        probs.append(f"[manifest-raises] signatures() works but reading the manifest rows raises {type(e).__name__}")
    try:
        swl = list(idx.signatures_with_location())
        if md5s(ss for ss, _ in swl) != got:
            probs.append(f"[with-location] signatures_with_location() yields {len(swl)} signatures, signatures() {len(got)}")
    except NotImplementedError:
        pass
    except Exception as e:  # noqa: BLE001
        probs.append(f"[with-location-raises] signatures() works but signatures_with_location() raises {type(e).__name__}")
    for ss in sigs[:4]:
        try:
            mh = ss.minhash
            if len(mh) != len(mh.hashes) or len(list(mh.hashes)) != len(mh):
                probs.append("[minhash-len] len(minhash) != len(minhash.hashes)")
            if ss.md5sum() != sigmod.SourmashSignature(mh.copy() if hasattr(mh, "copy") else mh).md5sum():
                probs.append("[sig-md5] md5 of the signature != md5 of a signature around a copy of its sketch")
        except AssertionError:
            pass
        except Exception as e:  # noqa: BLE001
            probs.append(f"[sig-raises] reading a loaded signature raises {type(e).__name__}")
    return probs


# ---------------------------------------------------------------------------------------------------- history

class History:
    KEEP = 5

    def __init__(self):
        self.kept = []          # (label, idx or None, sigs, md5 snapshot, len snapshot, search snapshot)

    def _search(self, idx, sigs):
        if idx is None or not sigs:
            return None
        q = sigs[0]
        try:
            if not q.minhash.scaled:
                return None
            if q.minhash.track_abundance:
                q = q.to_mutable()
                q.minhash = q.minhash.flatten()
            return sorted(sr.signature.md5sum() for sr in idx.search(q, threshold=0.1))
        except Exception as e:  # noqa: BLE001
            return "exc " + type(e).__name__

    def keep(self, label, idx, sigs):
        try:
            ln = len(idx) if idx is not None else len(sigs)
        except Exception:  # noqa: BLE001
            ln = None
        self.kept.append((label, idx, sigs, md5s(sigs), ln, self._search(idx, sigs)))
        if len(self.kept) > self.KEEP:
            self.kept.pop(0)

    def reverify(self):
        probs = []
        for label, idx, sigs, snap, ln, srch in self.kept:
            try:
                if md5s(sigs) != snap:
                    probs.append(f"md5 sums of the signatures loaded earlier from {label} changed")
                if idx is not None and ln is not None and len(idx) != ln:
                    probs.append(f"len() of the index loaded earlier from {label} changed")
                again = self._search(idx, sigs)
                if again != srch:
                    probs.append(f"the search repeated on the index loaded earlier from {label} gives {str(again)[:60]}, first {str(srch)[:60]}")
            except Exception as e:  # noqa: BLE001
                probs.append(f"re-reading what was loaded earlier from {label} raises {type(e).__name__}")
        return probs


class Periphery:
    def __init__(self):
        self.counter = 0
        self.history = History()
        self.all_routes = bool(os.environ.get("C20_ALL_ROUTES"))

    def after_job(self, kind, path, extra, primary, info):
        """primary: None (the generic load raised) or (idx or None, sigs)"""
        per = {"problems": []}
        info["periphery"] = per
        label = kind + ":" + os.path.basename(os.path.dirname(path))
        pm = None
        if primary is not None:
            idx, sigs = primary
            pm = md5s(sigs)
            if idx is not None:
                per["problems"] += ["views-disagree: " + p for p in views(idx, sigs)]
        routes = routes_for(kind, path, extra)
        if routes:
            chosen = routes if self.all_routes else [routes[self.counter % len(routes)]]
            self.counter += 1
            per["alt"] = []
            for name, same_content, fn in chosen:
                with open(path + ".route", "w") as f:
                    f.write(name)
                try:
                    r = fn(path)
                    out = "ok"
                except SystemExit:
                    r, out = None, "exit"
                except Exception as e:  # noqa: BLE001
                    r, out = None, "exc " + type(e).__name__
                per["alt"].append([name, out])
                if out == "ok" and same_content and pm is None and isinstance(r, list) and not r and not name.startswith("json:") \
                        and kind in ("sig", "siggz", "zip", "zipnomf", "sqldb", "sbtzip", "sbtjson", "lca") \
                        and name != "sourmash.load_signatures" and os.path.getsize(path) > 0:
                    # (load_signatures_from_json without do_raise is lenient by contract: it yields nothing on any error)
                    per["problems"].append(f"route-silently-empty: the generic loader refuses this file, {name} returns an EMPTY collection "
                                           f"from it without any error")
                if out == "ok" and same_content and pm is not None and isinstance(r, list) and r != pm:
                    from collections import Counter
                    a, b = Counter(pm), Counter(r)
                    shape = "subset" if (not (a - b) or not (b - a)) else "md5-differ"
                    per["problems"].append(f"routes-disagree: [{shape}] the generic loader read {len(pm)} signatures, {name} read {len(r)} "
                                           f"({len(set(r) ^ set(pm))} md5 differ) from the same file, both without error")
            try:
                os.unlink(path + ".route")
            except OSError:
                pass
        # loading the same file again must give the same outcome
        if pm is not None and self.counter % 2 == 0 and kind in ("sig", "siggz", "zip", "zipnomf", "sqldb", "sbtzip", "sbtjson", "lca"):
            try:
                again = md5s(sourmash.load_file_as_index(path).signatures())
            except Exception as e:  # noqa: BLE001
                again = "exc " + type(e).__name__
            if again != pm:
                per["problems"].append(f"reload-differs: the first load read {len(pm)} signatures, the second "
                                       f"{'read ' + str(len(again)) + ' signatures' if isinstance(again, list) else 'raised ' + again[4:]}")
        per["problems"] += ["history-changed: " + p for p in self.history.reverify()]
        if primary is not None:
            self.history.keep(label, primary[0], primary[1])
