"""C20, damage class 'referential': the index / manifest of a multi-file collection stays INTACT, one of the files
or zip members it REFERS to is deleted, renamed, truncated to 0 bytes, swapped with another, or (zip) has one byte of
its name flipped in the central directory / in its local header.

Collections (8 signatures with pairwise disjoint hashes: a query matches exactly itself):
  sbtjson   tree.sbt.json + .sbt.tree/ (7 internal nodes, 8 leaves, tree.manifest.csv)
  sbtzip    tree.sbt.zip  (same members inside a zip)
  zip       c.zip         (SOURMASH-MANIFEST.csv + signatures/<md5>.sig.gz)
  sigdir    sigs/         (a directory of .sig files: the directory listing is the only index)
  mfcsv     mf.csv        (standalone manifest CSV whose internal_location column points at sigs/g<i>.sig)
  mfsql     mf.sqlmf      (the same manifest as an SQLite manifest)
  pathlist  list.txt      (one path per line)
(LCA JSON and .sqldb are single files: nothing referential to damage.)

`build(outdir)` runs under the package built from the working tree (seeds are made with the current code);
`plan(kind, rng, tier)` and `apply(kind, root, damage, target, other)` run in the harness."""
import os
import shutil
import sys
import zipfile

N_SIGS = 8
ENTRY = {"sbtjson": "tree.sbt.json", "sbtzip": "tree.sbt.zip", "zip": "c.zip", "sigdir": "sigs", "mfcsv": "mf.csv",
         "mfsql": "mf.sqlmf", "pathlist": "list.txt"}
KINDS = list(ENTRY)


def make_sigs():
    from sourmash import MinHash, SourmashSignature
    sigs = []
    for i in range(N_SIGS):
        mh = MinHash(n=0, ksize=31, scaled=1)
        mh.add_many(range(i * 1000 + 1, i * 1000 + 201))
        sigs.append(SourmashSignature(mh, name=f"genome{i}", filename=f"g{i}.fa"))
    return sigs


def names():
    return [f"genome{i}" for i in range(N_SIGS)]


def build(out):
    from sourmash import signature as sigmod
    from sourmash.manifest import CollectionManifest
    from sourmash.sbtmh import create_sbt_index
    from sourmash.sourmash_args import SaveSignaturesToLocation
    sigs = make_sigs()

    def tree():
        t = create_sbt_index(bloom_filter_size=1e5, n_children=2)
        for s in sigs:
            t.insert(s)
        return t

    def write_sigs(d):
        os.makedirs(d)
        for i, s in enumerate(sigs):
            js = sigmod.save_signatures_to_json([s])
            with open(os.path.join(d, f"g{i}.sig"), "wb") as f:
                f.write(js if isinstance(js, bytes) else js.encode())
    os.makedirs(os.path.join(out, "sbtjson"))
    tree().save(os.path.join(out, "sbtjson", "tree.sbt.json"))
    os.makedirs(os.path.join(out, "sbtzip"))
    tree().save(os.path.join(out, "sbtzip", "tree.sbt.zip"))
    os.makedirs(os.path.join(out, "zip"))
    with SaveSignaturesToLocation(os.path.join(out, "zip", "c.zip")) as sv:
        for s in sigs:
            sv.add(s)
    for k in ("sigdir", "mfcsv", "mfsql", "pathlist"):
        write_sigs(os.path.join(out, k, "sigs"))
    rows = [CollectionManifest.make_manifest_row(s, f"sigs/g{i}.sig", include_signature=False) for i, s in enumerate(sigs)]
    m = CollectionManifest(rows)
    with open(os.path.join(out, "mfcsv", "mf.csv"), "w", newline="") as f:
        m.write_to_csv(f, write_header=True)
    m.write_to_filename(os.path.join(out, "mfsql", "mf.sqlmf"), database_format="sql")
    # pathlist: written per copy (absolute paths), see instantiate()


def instantiate(seedroot, kind, dst):
    """a private copy of the seed collection `kind` under dst; returns the path to load"""
    shutil.copytree(os.path.join(seedroot, kind), dst, symlinks=True)
    if kind == "pathlist":
        with open(os.path.join(dst, "list.txt"), "w") as f:
            for i in range(N_SIGS):
                f.write(os.path.join(dst, "sigs", f"g{i}.sig") + "\n")
    return os.path.join(dst, ENTRY[kind])


# ------------------------------------------------------------------------------------------- what is referenced

def targets(seedroot, kind):
    """[(target, class)]: the referenced files (relative paths) or zip members, with their class
    (node / leaf / manifest / sig)"""
    def cls_of(n):
        b = os.path.basename(n)
        if b.startswith("internal."):
            return "node"
        if b.endswith("manifest.csv") or b == "SOURMASH-MANIFEST.csv":
            return "manifest"
        return "leaf"
    if kind == "sbtjson":
        d = os.path.join(seedroot, kind, ".sbt.tree")
        return [(os.path.join(".sbt.tree", f), cls_of(f)) for f in sorted(os.listdir(d))]
    if kind == "sbtzip":
        zf = zipfile.ZipFile(os.path.join(seedroot, kind, "tree.sbt.zip"))
        return [(n, cls_of(n)) for n in zf.namelist() if not n.endswith("/") and not n.endswith(".sbt.json")]
    if kind == "zip":
        zf = zipfile.ZipFile(os.path.join(seedroot, kind, "c.zip"))
        return [(n, "sig") for n in zf.namelist() if n.endswith(".sig.gz")]       # the manifest IS the index: intact
    return [(os.path.join("sigs", f"g{i}.sig"), "sig") for i in range(N_SIGS)]


FS_DAMAGES = ("delete", "rename", "empty")
ZIP_DAMAGES = ("delete", "rename", "empty", "cdflip", "lhflip")


def plan(seedroot, kind, rng, thorough):
    """[(damage, target, other, target class)]"""
    tg = targets(seedroot, kind)
    dmg = ZIP_DAMAGES if kind in ("sbtzip", "zip") else FS_DAMAGES
    out = []
    for t, c in tg:
        for d in dmg:
            out.append((d, t, None, c))
    by = {}
    for t, c in tg:
        by.setdefault(c, []).append(t)
    pairs = []
    for c, ts in by.items():
        if c == "manifest":
            continue
        for _ in range(6 if thorough else 3):
            if len(ts) >= 2:
                a, b = rng.sample(ts, 2)
                pairs.append((a, b, c))
    if "node" in by and "leaf" in by:
        pairs.append((rng.choice(by["node"]), rng.choice(by["leaf"]), "node"))
    for a, b, c in pairs:
        out.append(("swap", a, b, c))
    return out


def expected_names(kind, damage, target):
    """the signatures the (intact) index / manifest lists after the damage.  Only a bare directory has no index: there
    a deleted or renamed file is simply not part of the collection any more."""
    ns = names()
    if kind == "sigdir" and damage in ("delete", "rename"):
        i = int(os.path.basename(target)[1:-4])
        ns = [n for n in ns if n != f"genome{i}"]
    return ns


# ------------------------------------------------------------------------------------------- applying a damage

def _rewrite_zip(path, fn):
    zf = zipfile.ZipFile(path)
    tmp = path + ".new"
    with zipfile.ZipFile(tmp, "w") as zo:
        for info in zf.infolist():
            r = fn(info.filename, zf.read(info.filename))
            if r is None:
                continue
            n, data = r
            zo.writestr(zipfile.ZipInfo(n, date_time=info.date_time), data, compress_type=info.compress_type)
    zf.close()
    os.replace(tmp, path)


def _flip_name(path, entry, central):
    data = bytearray(open(path, "rb").read())
    with zipfile.ZipFile(path) as zf:
        start = zf.start_dir
    name = entry.encode("utf-8")
    pos = data.find(name, start) if central else data.find(name, 0, start)
    if pos < 0:
        raise ValueError("entry name not found")
    data[pos + len(name) - 1] = ord("X") if data[pos + len(name) - 1] != ord("X") else ord("Y")
    with open(path, "wb") as f:
        f.write(bytes(data))


def apply(kind, root, damage, target, other=None):
    """root: the private copy made by instantiate()"""
    if kind in ("sbtzip", "zip"):
        z = os.path.join(root, ENTRY[kind])
        if damage == "delete":
            _rewrite_zip(z, lambda n, d: None if n == target else (n, d))
        elif damage == "rename":
            _rewrite_zip(z, lambda n, d: (n + ".moved", d) if n == target else (n, d))
        elif damage == "empty":
            _rewrite_zip(z, lambda n, d: (n, b"") if n == target else (n, d))
        elif damage == "swap":
            zf = zipfile.ZipFile(z)
            a, b = zf.read(target), zf.read(other)
            zf.close()
            _rewrite_zip(z, lambda n, d: (n, b) if n == target else ((n, a) if n == other else (n, d)))
        elif damage in ("cdflip", "lhflip"):
            _flip_name(z, target, damage == "cdflip")
        else:
            raise ValueError(damage)
        return
    f = os.path.join(root, target)
    if damage == "delete":
        os.unlink(f)
    elif damage == "rename":
        os.rename(f, f + ".moved")
    elif damage == "empty":
        open(f, "wb").close()
    elif damage == "swap":
        g = os.path.join(root, other)
        a, b = open(f, "rb").read(), open(g, "rb").read()
        open(f, "wb").write(b)
        open(g, "wb").write(a)
    else:
        raise ValueError(damage)


if __name__ == "__main__":
    build(sys.argv[1])
    for k in KINDS:
        print(k, os.path.join(sys.argv[1], k))
