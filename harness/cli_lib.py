"""Thorough-tier helpers: run the `sourmash` command line (from the package built out of /repo's working
tree) on files written for a generated case, and turn its CSV output into the observation lines of the
gather / partition streams."""
import csv
import json
import os
import shutil
import subprocess
import sys
import tempfile

sys.path.insert(0, os.path.dirname(os.path.abspath(__file__)))
import common  # noqa: E402
from streams import gather as G  # noqa: E402

EXT = {"sig": ".sig", "lin": ".sig", "lazy": ".sig", "zip": ".zip", "sbt": ".sbt.zip", "lca": ".lca.json", "sql": ".sqldb"}


def case_tables(case):
    sigs, files = {}, {}
    for l in case:
        w = l.split()
        if w[0] == "sig":
            sigs[int(w[1])] = {"name": int(w[2]), "scaled": int(w[4]), "track": int(w[5]),
                               "pairs": [[int(p.split(":")[0]), int(p.split(":")[1])] for p in w[6:]]}
        elif w[0] == "db":
            files[int(w[1])] = ("sig", [int(x) for x in w[2:]])
        elif w[0] == "xdb":
            files[int(w[1])] = (w[2], [int(x) for x in w[3:]])
    return sigs, files


def write_files(case, pkg):
    """-> (tmpdir, query path, {db slot: path})"""
    sigs, files = case_tables(case)
    root = os.path.join(common.VERIF, ".build", "tmp")
    os.makedirs(root, exist_ok=True)
    d = tempfile.mkdtemp(prefix="cli_", dir=root)
    spec = {"dir": d, "sigs": {str(k): v for k, v in sigs.items()}, "files": []}
    paths = {}
    spec["files"].append({"path": "query.sig", "kind": "sig", "sigs": [0]})
    for slot, (kind, members) in files.items():
        if not members:
            continue
        p = f"db{slot}{EXT[kind]}"
        spec["files"].append({"path": p, "kind": "sig" if kind in ("lin", "lazy") else kind, "sigs": members})
        paths[slot] = os.path.join(d, p)
    sp = os.path.join(d, "spec.json")
    json.dump(spec, open(sp, "w"))
    env = dict(os.environ, PYTHONPATH=pkg)
    r = subprocess.run([common.PY, os.path.join(common.VERIF, "harness", "adapters", "cli_files.py"), sp],
                       env=env, stdout=subprocess.PIPE, stderr=subprocess.PIPE, text=True)
    if r.returncode != 0:
        shutil.rmtree(d, ignore_errors=True)
        return None, None, r.stderr[-500:]
    return d, os.path.join(d, "query.sig"), paths


def run_cli(pkg, args, cwd):
    env = dict(os.environ, PYTHONPATH=pkg)
    r = subprocess.run([common.PY, "-m", "sourmash"] + args, cwd=cwd, env=env,
                       stdout=subprocess.PIPE, stderr=subprocess.PIPE, text=True, timeout=600)
    return r.returncode, r.stdout, r.stderr


def read_csv(path):
    if not os.path.exists(path):
        return []
    with open(path, newline="") as f:
        return list(csv.DictReader(f))


def optF(v):
    return "-" if v in ("", None) else G.canonF(float(v))


def gather_row_line(r):
    """a CSV row of `sourmash gather` in the format of the `next` observations (the columns both have)"""
    return (f"rank={r['gather_result_rank']} name={r['name']} md5={int(r['md5'], 16)} sc={r['scaled']}"
            f" ibp={r['intersect_bp']} ubp={r['unique_intersect_bp']} fo={G.canonF(float(r['f_orig_query']))}"
            f" fm={float(r['f_match'])!r} fmo={float(r['f_match_orig'])!r}"
            f" fu={G.canonF(float(r['f_unique_to_query']))} fw={G.canonF(float(r['f_unique_weighted']))}"
            f" avg={optF(r['average_abund'])} med={optF(r['median_abund'])} std={r['std_abund'] or '-'}"
            f" rem={r['remaining_bp']} nuw={r['n_unique_weighted_found'] or '-'} swf={r['sum_weighted_found']}"
            f" twh={r['total_weighted_hashes']} qbp={r['query_bp']} qn={r['query_n_hashes']}"
            f" qab={int(r['query_abundance'] == 'True')}")


def api_row_line(obs):
    """the same columns out of a `next` observation of the in-process adapter"""
    d = G.parse_kv(obs)
    std = "-" if d["std"] is None else repr(d["std"])
    return (f"rank={d['rank']} name={d['name']} md5={d['md5']} sc={d['sc']} ibp={d['ibp']} ubp={d['ubp']} fo={d['fo']}"
            f" fm={d['fm']!r} fmo={d['fmo']!r} fu={d['fu']} fw={d['fw']} avg={d['avg']} med={d['med']} std={std}"
            f" rem={d['rem']} nuw={d['nuw']} swf={d['swf']} twh={d['twh']} qbp={d['qbp']} qn={d['qn']} qab={d['qab']}")


def same_row(a, b):
    wa, wb = a.split(" "), b.split(" ")
    if len(wa) != len(wb):
        return False
    for x, y in zip(wa, wb):
        if x == y:
            continue
        kx, _, vx = x.partition("=")
        ky, _, vy = y.partition("=")
        if kx != ky:
            return False
        if kx in ("fm", "fmo", "std") and vx != "-" and vy != "-":
            fx, fy = float(vx), float(vy)
            if fx == fy or abs(fx - fy) <= 1e-9 * max(abs(fx), abs(fy)):
                continue
        return False
    return True


def cli_gather_case(args):
    """one thorough-tier case of C07: `sourmash gather` on files against the in-process observations.
    args = (case, impl_lines, pkg) -> list of (signature, message, data)"""
    case, impl, pkg = args
    bad = []
    gd = next((l for l in case if l.startswith("gd ")), None)
    if gd is None:
        return bad
    k = case.index(gd)
    if not impl[k].startswith("ok"):
        return bad
    w = gd.split()
    thr, ign = int(w[2]), int(w[3])
    cs = w[6:]
    mode = "prefetch" if all(c.startswith("c") for c in cs) else "ondemand" if all(c.startswith("i") for c in cs) else None
    if mode is None:
        return bad
    if mode == "prefetch" and w[4] == "-":
        return bad          # the CLI's prefetch mode corresponds to the ident / noident flavour only
    d, qpath, paths = write_files(case, pkg)
    if d is None:
        return [("C07:cli:cannot-write-files", str(paths), {"case": case})]
    try:
        dbs = [paths[int(c[1:])] for c in cs if int(c[1:]) in paths]
        if not dbs:
            return bad
        out = os.path.join(d, "out.csv")
        un = os.path.join(d, "un.sig")
        a = ["gather", qpath] + dbs + ["--threshold-bp", str(thr), "-o", out, "--output-unassigned", un, "-q"]
        if ign:
            a.append("--ignore-abundance")
        if mode == "ondemand":
            a.append("--no-prefetch")
        rc, so, se = run_cli(pkg, a, d)
        if rc != 0 and "remaining_mh += noident_mh" in se and "mismatch in scaled" in se:
            bad.append(("C07:cli:gather-output-unassigned-crashes:match-coarser-than-query",
                        "`sourmash gather --output-unassigned` died with 'mismatch in scaled' at "
                        "`remaining_mh += noident_mh` (the unidentified hashes are still at the query's scaled)",
                        {"case": case, "args": a}))
            a = [x for x in a if x not in ("--output-unassigned", un)]
            if os.path.exists(out):
                os.remove(out)
            rc, so, se = run_cli(pkg, a, d)
        elif rc == 0 and os.path.exists(un):
            # the unassigned hashes: what gather left + what prefetch never identified
            try:
                got = set(json.load(open(un))[0]["signatures"][0]["mins"])
            except Exception:           # noqa: BLE001
                got = None
            last = [o for o in impl[k:] if o.startswith(("ok", "stop"))]
            left = set(G.ints(G.parse_kv(last[-1])["q"])) if last else set()
            sp = next((o for l, o in zip(case, impl) if l.startswith("split ")), None)
            noid = set(G.ints(G.parse_kv(sp)["noident"])) if sp and mode == "prefetch" else set()
            # the remaining query is at the final comparison scaled; since the fix of finding C07.2 the
            # never-identified hashes are downsampled to it before they are added back
            scs = [int(G.parse_kv(o)["sc"]) for o in impl[k + 1:] if o.startswith("ok rank=")]
            s_final = max(scs) if scs else int(G.parse_kv(impl[k])["cmp"])
            noid = G.down(noid, s_final)
            if got is not None and got != (left | noid):
                bad.append(("C07:cli:unassigned-output-differs",
                            f"--output-unassigned holds {len(got)} hashes, expected {len(left | noid)}",
                            {"case": case, "args": a}))
        rows = [gather_row_line(r) for r in read_csv(out)]
        exp = [api_row_line(o) for o in impl[k + 1:] if o.startswith("ok rank=")]
        crashed = any(o.startswith("err") for o in impl[k + 1:])
        if rc != 0 and not crashed and exp:
            bad.append(("C07:cli:gather-exit-%d" % rc, se[-300:], {"case": case, "args": a}))
        elif not crashed:
            if len(rows) != len(exp) or any(not same_row(x, y) for x, y in zip(rows, exp)):
                i = next((j for j, (x, y) in enumerate(zip(rows, exp)) if not same_row(x, y)), min(len(rows), len(exp)))
                bad.append(("C07:cli:gather-csv-differs-from-api",
                            f"round {i}: cli={rows[i][:200] if i < len(rows) else '<none>'} api={exp[i][:200] if i < len(exp) else '<none>'}",
                            {"case": case, "args": a, "cli": rows, "api": exp}))
    finally:
        shutil.rmtree(d, ignore_errors=True)
    return bad


def cli_multigather_case(args):
    """one thorough-tier case of C07 through `sourmash multigather` (prefetch counters + the ident / noident split
    done by the command itself): the CSV it writes for the query against the in-process observations of the same
    case, and the `.unassigned` signature against what gather left plus the never-identified hashes (downsampled to
    the final comparison scaled).
    args = (case, impl, pkg) -> list of (signature, message, data)"""
    case, impl, pkg = args
    bad = []
    gd = next((l for l in case if l.startswith("gd ")), None)
    if gd is None:
        return bad
    k = case.index(gd)
    if not impl[k].startswith("ok"):
        return bad
    w = gd.split()
    thr, ign = int(w[2]), int(w[3])
    cs = w[6:]
    if not all(c.startswith("c") for c in cs) or w[4] == "-":
        return bad          # multigather = prefetch counters + ident / noident
    d, qpath, paths = write_files(case, pkg)
    if d is None:
        return [("C07:cli:cannot-write-files", str(paths), {"case": case})]
    try:
        dbs = [paths[int(c[1:])] for c in cs if int(c[1:]) in paths]
        if not dbs:
            return bad
        outdir = os.path.join(d, "mg")
        os.makedirs(outdir, exist_ok=True)
        a = ["multigather", "--query", qpath, "--db"] + dbs + ["--threshold-bp", str(thr), "--output-dir", outdir, "-q"]
        if ign:
            a.append("--ignore-abundance")
        rc, so, se = run_cli(pkg, a, d)
        # output base = basename of the signature's `filename` field, or its md5 when that is unset
        found = [f[:-4] for f in os.listdir(outdir) if f.endswith(".csv")]
        base = os.path.join(outdir, found[0]) if len(found) == 1 else os.path.join(outdir, os.path.basename(qpath))
        rows = [gather_row_line(r) for r in read_csv(base + ".csv")]
        exp = [api_row_line(o) for o in impl[k + 1:] if o.startswith("ok rank=")]
        crashed = any(o.startswith("err") for o in impl[k + 1:])
        if rc != 0 and not crashed:
            bad.append(("C07:cli:multigather-exit-%d" % rc, se[-300:], {"case": case, "args": a}))
        elif not crashed:
            if len(rows) != len(exp) or any(not same_row(x, y) for x, y in zip(rows, exp)):
                i = next((j for j, (x, y) in enumerate(zip(rows, exp)) if not same_row(x, y)), min(len(rows), len(exp)))
                bad.append(("C07:cli:multigather-csv-differs-from-api",
                            f"round {i}: cli={rows[i][:200] if i < len(rows) else '<none>'} api={exp[i][:200] if i < len(exp) else '<none>'}",
                            {"case": case, "args": a, "cli": rows, "api": exp}))
            un = base + ".unassigned.sig"
            if exp and os.path.exists(un):
                try:
                    got = set(json.load(open(un))[0]["signatures"][0]["mins"])
                except Exception:           # noqa: BLE001
                    got = None
                last = [o for o in impl[k:] if o.startswith(("ok", "stop"))]
                left = set(G.ints(G.parse_kv(last[-1])["q"])) if last else set()
                sp = next((o for l, o in zip(case, impl) if l.startswith("split ")), None)
                noid = set(G.ints(G.parse_kv(sp)["noident"])) if sp else set()
                scs = [int(G.parse_kv(o)["sc"]) for o in impl[k + 1:] if o.startswith("ok rank=")]
                noid = G.down(noid, max(scs))
                if got is not None and got != (left | noid):
                    bad.append(("C07:cli:multigather-unassigned-differs",
                                f".unassigned.sig holds {len(got)} hashes, expected {len(left | noid)}",
                                {"case": case, "args": a}))
            elif exp and not os.path.exists(un):
                bad.append(("C07:cli:multigather-unassigned-missing", "no .unassigned.sig although matches were found",
                            {"case": case, "args": a}))
    finally:
        shutil.rmtree(d, ignore_errors=True)
    return bad


def _bits(v):
    import struct
    return struct.unpack("<Q", struct.pack("<d", float(v)))[0]


def _canon(pairs):
    r = sorted((-sc, m) for m, sc in pairs)
    return "ok " + ",".join(f"{m}:{G.canonF(-sc)}" for sc, m in r)


def cli_partition_case(args):
    """one thorough-tier case of C08: `sourmash search | prefetch | gather` on files, one invocation per
    organisation; the CSVs are turned into the observations of the partition stream and judged by its oracle.
    args = (case, pkg) -> list of (signature, message, data)"""
    from streams import partition as P
    case, pkg = args
    d, qpath, paths = write_files(case, pkg)
    if d is None:
        return [("C08:cli:cannot-write-files", str(paths), {"case": case})]
    obs = []
    md5full = {}
    try:
        sigs, _ = G.parse_case(case)
        lazy = {int(l.split()[1]): True for l in case if l.startswith("xdb ") and l.split()[2] == "lazy"}
        for k, sg in sigs.items():
            md5full[f"{sg['md5']:032x}"[:8]] = sg["md5"]
        for l in case:
            w = l.split()
            o = "ok"
            try:
                if w[0] == "searchc" and w[2] == "0":
                    dbs = [paths[int(x)] for x in w[6:] if int(x) in paths]
                    out = os.path.join(d, "s.csv")
                    if os.path.exists(out):
                        os.remove(out)
                    a = ["search", qpath] + dbs + ["--threshold", repr(int(w[3]) / int(w[4])), "-o", out]
                    a += {"j": [], "c": ["--containment"], "m": ["--max-containment"]}[w[1]]
                    rc, so, se = run_cli(pkg, a, d)
                    if rc != 0 and "ERROR: cannot use '" in se:
                        o = None       # documented refusal: SBT / LCA similarity search with a coarser query
                    elif rc != 0:
                        o = "err ValueError:varN<0" if "varN" in se else "err cli-exit-%d" % rc
                    else:
                        o = _canon([(int(r["md5"], 16), float(r["similarity"])) for r in read_csv(out)])
                elif w[0] == "searchc":
                    o = None                      # best-only: the CLI prints one row; not compared here
                elif w[0] == "pfallc":
                    dbs = [paths[int(x)] for x in w[3:] if int(x) in paths]
                    out = os.path.join(d, "p.csv")
                    if os.path.exists(out):
                        os.remove(out)
                    a = ["prefetch", qpath] + dbs + ["--threshold-bp", w[2], "-o", out]
                    if any(lazy.get(int(x)) for x in w[3:]):
                        a.append("--linear")
                    rc, so, se = run_cli(pkg, a, d)
                    if rc != 0 and "unattainable" in se:
                        o = "err ValueError"
                    elif rc != 0:
                        o = "err cli-exit-%d" % rc
                    else:
                        o = _canon([(md5full.get(r["match_md5"], int(r["match_md5"], 16)), float(r["f_match_query"]))
                                    for r in read_csv(out)])
                elif w[0] == "xgd":
                    dbs = [paths[int(x)] for x in w[5:] if int(x) in paths]
                    out = os.path.join(d, "g.csv")
                    if os.path.exists(out):
                        os.remove(out)
                    a = ["gather", qpath] + dbs + ["--threshold-bp", w[2], "-o", out]
                    if w[3] == "1":
                        a.append("--ignore-abundance")
                    if w[4] == "o":
                        a.append("--no-prefetch")
                    if any(lazy.get(int(x)) for x in w[5:]):
                        a.append("--linear")
                    rc, so, se = run_cli(pkg, a, d)
                    cur_rows = read_csv(out) if rc == 0 else None
                    cur_i = 0
                    o = "x ok" if rc == 0 else "x err cli-exit-%d" % rc
                elif w[0] == "xnext":
                    if cur_rows is None:
                        o = "x dead"
                    elif cur_i < len(cur_rows):
                        r = cur_rows[cur_i]
                        cur_i += 1
                        o = (f"x ok md5={int(r['md5'], 16)} sc={r['scaled']} ibp={r['intersect_bp']} ubp={r['unique_intersect_bp']}"
                             f" fo={G.canonF(float(r['f_orig_query']))} fm~{_bits(r['f_match'])}"
                             f" fu={G.canonF(float(r['f_unique_to_query']))} fw={G.canonF(float(r['f_unique_weighted']))}"
                             f" rem={r['remaining_bp']} swf={r['sum_weighted_found']} twh={r['total_weighted_hashes']}"
                             f" rank={r['gather_result_rank']}")
                    else:
                        o = "x stop"
            except subprocess.TimeoutExpired:
                o = "err cli-timeout"
            obs.append(o)
        # drop the ops that were not run
        keep = [(l, o) for l, o in zip(case, obs) if o is not None]
        c2, o2 = [l for l, _ in keep], [o for _, o in keep]
        bad = []
        for idx, sig, msg in P.oracle(c2, o2):
            bad.append((sig.replace("C08:", "C08:cli:", 1) if not sig.endswith(("coarser-than-stored-sketch", "scaled", "threshold_bp>0", "jaccard-ani")) else sig,
                        msg, {"case": case, "observations": o2, "op_index": idx}))
        for l, o in keep:
            if o.startswith(("err cli", "x err cli")):
                bad.append(("C08:cli:command-failed", f"`{l[:80]}`: {o}", {"case": case}))
        return bad
    finally:
        shutil.rmtree(d, ignore_errors=True)
