"""Thorough-tier helpers: run the `sourmash` command line (from the package built out of /repo's working
tree) on files written for a generated case, and turn its CSV output into the observation lines of the
gather / partition streams."""
import csv
import json
import os
import shutil
import subprocess
import sys
import tempfile

sys.path.insert(0, os.path.dirname(os.path.abspath(__file__)))
import common  # noqa: E402
from streams import gather as G  # noqa: E402

EXT = {"sig": ".sig", "lin": ".sig", "lazy": ".sig", "zip": ".zip", "sbt": ".sbt.zip", "lca": ".lca.json", "sql": ".sqldb",
       "zipnm": ".nm.zip", "dir": "_dir", "multi": "_multi", "pl": ".pathlist.txt", "mf": ".manifest.csv"}


class SubprocRunner:
    """one interpreter per invocation (thorough tier): `python -m sourmash ...`"""

    def __init__(self, pkg):
        self.pkg = pkg

    def write(self, spec):
        sp = os.path.join(spec["dir"], "spec.json")
        json.dump(spec, open(sp, "w"))
        env = dict(os.environ, PYTHONPATH=self.pkg)
        r = subprocess.run([common.PY, os.path.join(common.VERIF, "harness", "adapters", "cli_files.py"), sp],
                           env=env, stdout=subprocess.PIPE, stderr=subprocess.PIPE, text=True)
        return (r.returncode == 0), r.stderr[-500:]

    def run(self, args, cwd):
        env = dict(os.environ, PYTHONPATH=self.pkg)
        r = subprocess.run([common.PY, "-m", "sourmash"] + args, cwd=cwd, env=env,
                           stdout=subprocess.PIPE, stderr=subprocess.PIPE, text=True, timeout=600)
        return r.returncode, r.stdout, r.stderr

    def close(self):
        pass


class ServerRunner:
    """one interpreter for many invocations (quick tier): adapters/cli_server.py runs
    `sourmash.__main__.main(argv)` in-process"""

    def __init__(self, pkg):
        env = dict(os.environ, PYTHONPATH=pkg)
        self.p = subprocess.Popen([common.PY, os.path.join(common.VERIF, "harness", "adapters", "cli_server.py")],
                                  env=env, stdin=subprocess.PIPE, stdout=subprocess.PIPE, stderr=subprocess.DEVNULL,
                                  text=True, bufsize=1)

    def _ask(self, req):
        self.p.stdin.write(json.dumps(req) + "\n")
        self.p.stdin.flush()
        line = self.p.stdout.readline()
        if not line:
            raise common.ToolFailure("cli_server died (exit %s)" % self.p.poll())
        return json.loads(line)

    def write(self, spec):
        a = self._ask({"op": "write", "spec": spec})
        return bool(a.get("ok")), a.get("err", "")

    def run(self, args, cwd):
        a = self._ask({"op": "run", "argv": args})
        return a.get("rc", 1), a.get("out", ""), a.get("err", "")

    def close(self):
        try:
            self.p.stdin.close()
            self.p.wait(timeout=20)
        except Exception:           # noqa: BLE001
            self.p.kill()


def inner_paths(kind, p, n, distract=False):
    """the file each of the n signatures of a collection written by adapters/cli_files.py lives in (what the
    `filename` / location of a match must name); with `distract` a foreign signature precedes and one follows them"""
    off = 1 if distract and kind in ("sig", "zip", "zipnm", "dir", "multi", "pl", "mf") else 0
    tot = n + 2 * off
    h = (tot + 1) // 2
    pos = [k + off for k in range(n)]
    if kind == "dir":
        return [os.path.join(p, f"{k:03d}.sig") for k in pos]
    if kind == "mf":
        return [os.path.join(p + ".d", f"{k:03d}.sig") for k in pos]
    if kind == "multi":
        return [os.path.join(p, "a.sig") if k < h else os.path.join(p, "sub", "b.sig") for k in pos]
    if kind == "pl":
        return [os.path.join(p + ".d", "a.zip") if k < h else os.path.join(p + ".d", "b.sig") for k in pos]
    return [p] * n


def as_runner(x):
    return SubprocRunner(x) if isinstance(x, str) else x


def case_tables(case):
    sigs, files = {}, {}
    for l in case:
        w = l.split()
        if w[0] == "sig":
            sigs[int(w[1])] = {"name": int(w[2]), "scaled": int(w[4]), "track": int(w[5]),
                               "pairs": [[int(p.split(":")[0]), int(p.split(":")[1])] for p in w[6:]]}
        elif w[0] == "db":
            files[int(w[1])] = ("sig", [int(x) for x in w[2:]])
        elif w[0] == "xdb":
            files[int(w[1])] = (w[2], [int(x) for x in w[3:]])
    return sigs, files


def write_files(case, pkg, kinds=None, query_slot=0, distract=False, extra_queries=()):
    """-> (tmpdir, query path, {db slot: path}); `kinds` = {db slot: file kind} overrides the kind of a collection
    (the same signatures, organised differently on disk)"""
    runner = as_runner(pkg)
    sigs, files = case_tables(case)
    root = os.path.join(common.VERIF, ".build", "tmp")
    os.makedirs(root, exist_ok=True)
    d = tempfile.mkdtemp(prefix="cli_", dir=root)
    spec = {"dir": d, "sigs": {str(k): v for k, v in sigs.items()}, "files": [], "distract": bool(distract)}
    paths = {}
    spec["files"].append({"path": "query.sig", "kind": "sig", "sigs": [query_slot]})
    for q in extra_queries:
        spec["files"].append({"path": f"query{q}.sig", "kind": "sig", "sigs": [q]})
    for slot, (kind, members) in files.items():
        if not members:
            continue
        kind = (kinds or {}).get(slot, kind)
        p = f"db{slot}{EXT[kind]}"
        spec["files"].append({"path": p, "kind": "sig" if kind in ("lin", "lazy") else kind, "sigs": members})
        paths[slot] = os.path.join(d, p)
    ok, err = runner.write(spec)
    if not ok:
        shutil.rmtree(d, ignore_errors=True)
        return None, None, err
    return d, os.path.join(d, "query.sig"), paths


def run_cli(pkg, args, cwd):
    return as_runner(pkg).run(args, cwd)


def read_csv(path):
    if not os.path.exists(path):
        return []
    with open(path, newline="") as f:
        return list(csv.DictReader(f))


def optF(v):
    return "-" if v in ("", None) else G.canonF(float(v))


def gather_row_line(r):
    """a CSV row of `sourmash gather` in the format of the `next` observations (the columns both have)"""
    return (f"rank={r['gather_result_rank']} name={r['name']} md5={int(r['md5'], 16)} sc={r['scaled']}"
            f" ibp={r['intersect_bp']} ubp={r['unique_intersect_bp']} fo={G.canonF(float(r['f_orig_query']))}"
            f" fm={float(r['f_match'])!r} fmo={float(r['f_match_orig'])!r}"
            f" fu={G.canonF(float(r['f_unique_to_query']))} fw={G.canonF(float(r['f_unique_weighted']))}"
            f" avg={optF(r['average_abund'])} med={optF(r['median_abund'])} std={r['std_abund'] or '-'}"
            f" rem={r['remaining_bp']} nuw={r['n_unique_weighted_found'] or '-'} swf={r['sum_weighted_found']}"
            f" twh={r['total_weighted_hashes']} qbp={r['query_bp']} qn={r['query_n_hashes']}"
            f" qab={int(r['query_abundance'] == 'True')}")


def api_row_line(obs):
    """the same columns out of a `next` observation of the in-process adapter"""
    d = G.parse_kv(obs)
    std = "-" if d["std"] is None else repr(d["std"])
    return (f"rank={d['rank']} name={d['name']} md5={d['md5']} sc={d['sc']} ibp={d['ibp']} ubp={d['ubp']} fo={d['fo']}"
            f" fm={d['fm']!r} fmo={d['fmo']!r} fu={d['fu']} fw={d['fw']} avg={d['avg']} med={d['med']} std={std}"
            f" rem={d['rem']} nuw={d['nuw']} swf={d['swf']} twh={d['twh']} qbp={d['qbp']} qn={d['qn']} qab={d['qab']}")


def same_row(a, b):
    wa, wb = a.split(" "), b.split(" ")
    if len(wa) != len(wb):
        return False
    for x, y in zip(wa, wb):
        if x == y:
            continue
        kx, _, vx = x.partition("=")
        ky, _, vy = y.partition("=")
        if kx != ky:
            return False
        if kx in ("fm", "fmo", "std") and vx != "-" and vy != "-":
            fx, fy = float(vx), float(vy)
            if fx == fy or abs(fx - fy) <= 1e-9 * max(abs(fx), abs(fy)):
                continue
        return False
    return True


def _sig_md5s(path):
    """md5s (ints) of the signatures saved to a JSON signature file, in file order"""
    try:
        return [int(x["md5sum"], 16) for rec in json.load(open(path)) for x in rec["signatures"]]
    except Exception:           # noqa: BLE001
        return None


def _rows_agree(rows, exp, tie_ok):
    """-> index of the first real difference or None.  `tie_ok`: the collections are not in the API's (list)
    order, so two sketches with the same unique overlap may be reported in either order; from the first such
    tie on the runs may legitimately differ."""
    for j, (x, y) in enumerate(zip(rows, exp)):
        if same_row(x, y):
            continue
        if tie_ok:
            kx, ky = dict(w.split("=", 1) for w in x.split(" ")), dict(w.split("=", 1) for w in y.split(" "))
            if kx["ubp"] == ky["ubp"] and kx["rank"] == ky["rank"]:
                return None
        return j
    return None if len(rows) == len(exp) else min(len(rows), len(exp))


def cli_gather_case(args):
    """one case of C07 through `sourmash gather` on files against the in-process observations of the same case.
    args = (case, impl_lines, pkg | runner[, opts]) -> list of (signature, message, data)
    opts: kinds {db slot: file kind}, save_matches, save_prefetch, create_empty, linear (None/True/False),
    explicit_prefetch (pass --prefetch / --no-prefetch explicitly), scaled (value for --scaled; the query file is
    then written from `query_slot`, a finer copy of the API's query)"""
    case, impl, pkg = args[0], args[1], args[2]
    opts = args[3] if len(args) > 3 else {}
    bad = []
    gd = next((l for l in case if l.startswith("gd ")), None)
    if gd is None:
        return bad
    k = case.index(gd)
    if not impl[k].startswith("ok"):
        return bad
    # (a case may hold a second gather run, for multigather: this function looks at the first one)
    hi = next((j for j in range(k + 1, len(case)) if case[j].split()[0] in ("sig", "gd")), len(case))
    case_all, case, impl = case, case[:hi], impl[:hi]
    w = gd.split()
    thr, ign = int(w[2]), int(w[3])
    cs = w[6:]
    mode = "prefetch" if all(c.startswith("c") for c in cs) else "ondemand" if all(c.startswith("i") for c in cs) else None
    if mode is None:
        return bad
    if mode == "prefetch" and w[4] == "-":
        return bad          # the CLI's prefetch mode corresponds to the ident / noident flavour only
    kinds = {int(a): b for a, b in (opts.get("kinds") or {}).items()}
    d, qpath, paths = write_files(case, pkg, kinds=kinds, query_slot=opts.get("query_slot", 0),
                                  distract=opts.get("distract"))
    if d is None:
        return [("C07:cli:cannot-write-files", str(paths), {"case": case})]
    try:
        dbs = [paths[int(c[1:])] for c in cs if int(c[1:]) in paths]
        if not dbs:
            return bad
        out = os.path.join(d, "out.csv")
        un = os.path.join(d, "un.sig")
        a = ["gather", qpath] + dbs + ["--threshold-bp", str(thr), "-o", out, "--output-unassigned", un]
        if opts.get("distract"):
            # the query file also holds a k=31 signature: pick ours by ksize or by md5 prefix
            qmd5 = f"{G.parse_case(case)[0][opts.get('query_slot', 0)]['md5']:032x}"
            a += ["-k", "21"] if opts.get("distract") == "k" else ["--md5", qmd5[:10]]
        pfc = os.path.join(d, "prefetch.csv")
        if opts.get("save_prefetch_csv") and mode == "prefetch":
            a += ["--save-prefetch-csv", pfc]
        if opts.get("picklist"):
            # prefetch -> gather hand-over: gather restricted to the matches `sourmash prefetch` wrote must report
            # what gather over the whole databases reports
            pl = os.path.join(d, "pl.csv")
            rcp, _, sep = run_cli(pkg, ["prefetch", qpath] + dbs + ["--threshold-bp", str(thr), "-o", pl] +
                                  (["-k", "21"] if opts.get("distract") == "k" else
                                   ["--md5", qmd5[:10]] if opts.get("distract") else []), d)
            if rcp == 0 and read_csv(pl):
                a += ["--picklist", pl + "::prefetch"]
            elif rcp != 0 and "'containment' requires 'scaled' in Index.select" in sep and "zipnm" in kinds.values():
                pass            # finding C08.7 (prefetch on a zip without manifest): reported by C08
            elif rcp != 0 and "unattainable" not in sep:
                bad.append(("C07:cli:prefetch-exit-%d" % rcp, sep[-300:], {"case": case}))
        if ign:
            a.append("--ignore-abundance")
        if mode == "ondemand":
            a.append("--no-prefetch")
        elif opts.get("explicit_prefetch"):
            a.append("--prefetch")
        if opts.get("linear") is True:
            a.append("--linear")
        elif opts.get("linear") is False:
            a.append("--no-linear")
        if opts.get("scaled"):
            a += ["--scaled", str(opts["scaled"])]
        sm = os.path.join(d, "matches.sig")
        if opts.get("save_matches"):
            a += ["--save-matches", sm]
        sp_path = os.path.join(d, "prefetch.sig")
        if opts.get("save_prefetch") and mode == "prefetch":
            a += ["--save-prefetch", sp_path]
        if opts.get("create_empty"):
            a.append("--create-empty-results")
        rc, so, se = run_cli(pkg, a, d)
        if rc != 0 and "--save-prefetch-csv" in a and "is lower than current sample scaled" in se:
            bad.append(("C07:cli:gather-save-prefetch-csv-crashes:match-coarser-than-query",
                        "`sourmash gather --save-prefetch-csv` died with 'new scaled .. is lower than current sample "
                        "scaled ..': the rows of the prefetch CSV are built at the query's scaled, finer than the match",
                        {"case": case, "args": a}))
            a = [x for x in a if x not in ("--save-prefetch-csv", pfc)]
            opts = dict(opts, save_prefetch_csv=False)
            for f in (out, un):
                if os.path.exists(f):
                    os.remove(f)
            rc, so, se = run_cli(pkg, a, d)
        if rc != 0 and "remaining_mh += noident_mh" in se and "mismatch in scaled" in se:
            bad.append(("C07:cli:gather-output-unassigned-crashes:match-coarser-than-query",
                        "`sourmash gather --output-unassigned` died with 'mismatch in scaled' at "
                        "`remaining_mh += noident_mh` (the unidentified hashes are still at the query's scaled)",
                        {"case": case, "args": a}))
            a = [x for x in a if x not in ("--output-unassigned", un)]
            if os.path.exists(out):
                os.remove(out)
            rc, so, se = run_cli(pkg, a, d)
        elif rc == 0 and os.path.exists(un):
            # the unassigned hashes: what gather left + what prefetch never identified
            try:
                got = set(json.load(open(un))[0]["signatures"][0]["mins"])
            except Exception:           # noqa: BLE001
                got = None
            last = [o for o in impl[k:] if o.startswith(("ok", "stop"))]
            left = set(G.ints(G.parse_kv(last[-1])["q"])) if last else set()
            sp = next((o for l, o in zip(case, impl) if l.startswith("split ")), None)
            noid = set(G.ints(G.parse_kv(sp)["noident"])) if sp and mode == "prefetch" else set()
            # the remaining query is at the final comparison scaled; since the fix of finding C07.2 the
            # never-identified hashes are downsampled to it before they are added back
            scs = [int(G.parse_kv(o)["sc"]) for o in impl[k + 1:] if o.startswith("ok rank=")]
            s_final = max(scs) if scs else int(G.parse_kv(impl[k])["cmp"])
            noid = G.down(noid, s_final)
            tie_free = not kinds
            if got is not None and got != (left | noid) and tie_free:
                bad.append(("C07:cli:unassigned-output-differs",
                            f"--output-unassigned holds {len(got)} hashes, expected {len(left | noid)}",
                            {"case": case, "args": a}))
        rows = [gather_row_line(r) for r in read_csv(out)]
        exp = [api_row_line(o) for o in impl[k + 1:] if o.startswith("ok rank=")]
        crashed = any(o.startswith("err") for o in impl[k + 1:])
        if rc != 0 and not crashed and exp:
            bad.append(("C07:cli:gather-exit-%d" % rc, se[-300:], {"case": case, "args": a}))
        elif not crashed:
            i = _rows_agree(rows, exp, tie_ok=bool(kinds))
            if i is not None:
                bad.append(("C07:cli:gather-csv-differs-from-api",
                            f"round {i}: cli={rows[i][:200] if i < len(rows) else '<none>'} api={exp[i][:200] if i < len(exp) else '<none>'}",
                            {"case": case, "args": a, "cli": rows, "api": exp}))
            # the `filename` column: a collection given on the command line that holds the reported sketch
            psigs, _ = G.parse_case(case)
            _, ftab = case_tables(case)
            where = {}
            for c_ in cs:
                slot = int(c_[1:])
                members = ftab.get(slot, ("", []))[1]
                if slot not in paths:
                    continue
                kind_ = kinds.get(slot, "sig")
                for m_, ip in zip(members, inner_paths(kind_, paths[slot], len(members), opts.get("distract"))):
                    where.setdefault(psigs[m_]["md5"], []).append(ip)
            for r_ in read_csv(out):
                fn, ps = r_.get("filename", ""), [x for x in where.get(int(r_["md5"], 16), []) if x]
                if fn not in ps:
                    bad.append(("C07:cli:gather-filename-column",
                                f"round {r_['gather_result_rank']}: filename={fn!r}, the match is held by "
                                f"{[os.path.basename(x) for x in ps]}", {"case": case, "args": a}))
                    break
            same_all = len(rows) == len(exp) and all(same_row(x, y) for x, y in zip(rows, exp))
            if opts.get("save_matches") and same_all and exp:
                got = _sig_md5s(sm)
                want = [int(G.parse_kv(o)["md5"]) for o in impl[k + 1:] if o.startswith("ok rank=")]
                if got != want:
                    bad.append(("C07:cli:save-matches-differs",
                                f"--save-matches holds {got}, the reported matches are {want}", {"case": case, "args": a}))
            if opts.get("save_prefetch") and mode == "prefetch" and rc == 0:
                got = _sig_md5s(sp_path)
                want = set()
                for l, o in zip(case, impl):
                    if l.startswith("cg ") and o.startswith("ok ") and ":" in o:
                        body = o.split(" ")[1].split(":", 1)[1]
                        want |= {int(x.split("=")[0]) for x in body.split(",") if x}
                if got is None or set(got) != want:
                    bad.append(("C07:cli:save-prefetch-differs",
                                f"--save-prefetch holds {sorted(got or [])[:6]}..., the counters hold {sorted(want)[:6]}...",
                                {"case": case, "args": a}))
            if opts.get("save_prefetch_csv") and mode == "prefetch" and rc == 0:
                got = {r["match_md5"] for r in read_csv(pfc)}
                want = set()
                for l, o in zip(case, impl):
                    if l.startswith("cg ") and o.startswith("ok ") and ":" in o:
                        body = o.split(" ")[1].split(":", 1)[1]
                        want |= {f"{int(x.split('=')[0]):032x}"[:8] for x in body.split(",") if x}
                if got != want:
                    bad.append(("C07:cli:save-prefetch-csv-differs",
                                f"--save-prefetch-csv lists {sorted(got)[:6]}, the counters hold {sorted(want)[:6]}",
                                {"case": case, "args": a}))
            if opts.get("create_empty") and not exp and not os.path.exists(out):
                bad.append(("C07:cli:create-empty-results-missing",
                            "--create-empty-results: no CSV although gather found nothing", {"case": case, "args": a}))
    finally:
        shutil.rmtree(d, ignore_errors=True)
    return bad


def cli_multigather_case(args):
    """one case of C07 through `sourmash multigather` (prefetch counters + the ident / noident split done by the
    command itself).  The case may hold SEVERAL gather runs (one `gd` per query): all their queries are given to ONE
    invocation (`--query q1 q2 ...`), so that whatever the command keeps between queries (counters, noident, output
    routing) shows; per query, the CSV against the in-process observations of that run and the `.unassigned`
    signature against what gather left plus the never-identified hashes (downsampled to the final comparison scaled).
    args = (case, impl, pkg | runner[, opts]) -> list of (signature, message, data); opts: kinds, add_md5 (-U)"""
    case, impl, pkg = args[0], args[1], args[2]
    opts = args[3] if len(args) > 3 else {}
    kinds = {int(a): b for a, b in (opts.get("kinds") or {}).items()}
    bad = []
    gds = [k for k, l in enumerate(case) if l.startswith("gd ")]
    if not gds or not all(impl[k].startswith("ok") for k in gds):
        return bad
    w0 = case[gds[0]].split()
    thr, ign = int(w0[2]), int(w0[3])
    for k in gds:
        w = case[k].split()
        if not all(c.startswith("c") for c in w[6:]) or w[4] == "-" or (int(w[2]), int(w[3])) != (thr, ign):
            return bad          # multigather = prefetch counters + ident / noident, one threshold for all queries
    sigs, _ = G.parse_case(case)
    qslots = [int(case[k].split()[1]) for k in gds]
    if len({sigs[q]["md5"] for q in qslots}) != len(qslots):
        return bad          # the outputs are named after the queries' md5
    d, qpath, paths = write_files(case, pkg, kinds=kinds, extra_queries=qslots[1:])
    if d is None:
        return [("C07:cli:cannot-write-files", str(paths), {"case": case})]
    try:
        # the databases of the FIRST run (every run of a case uses the same collections)
        dslots = [int(l.split()[2]) for l in case[:gds[0]] if l.startswith("cg ")]
        dbs = [paths[x] for x in dslots if x in paths]
        if not dbs:
            return bad
        outdir = os.path.join(d, "mg")
        os.makedirs(outdir, exist_ok=True)
        qfiles = [qpath] + [os.path.join(d, f"query{q}.sig") for q in qslots[1:]]
        a = ["multigather", "--query"] + qfiles + ["--db"] + dbs + ["--threshold-bp", str(thr), "--output-dir", outdir]
        if ign:
            a.append("--ignore-abundance")
        if opts.get("add_md5"):
            a.append("-U")
        rc, so, se = run_cli(pkg, a, d)
        crashed = any(o.startswith("err") for o in impl[gds[0] + 1:])
        if rc != 0 and not crashed:
            return [("C07:cli:multigather-exit-%d" % rc, se[-300:], {"case": case, "args": a})]
        if crashed:
            return bad
        splits = [o for l, o in zip(case, impl) if l.startswith("split ")]
        for j, k in enumerate(gds):
            hi = gds[j + 1] if j + 1 < len(gds) else len(case)
            # output base = basename of the signature's `filename` field, or its md5 when that is unset (ours)
            base = os.path.join(outdir, f"{sigs[qslots[j]]['md5']:032x}")
            rows = [gather_row_line(r) for r in read_csv(base + ".csv")]
            exp = [api_row_line(o) for o in impl[k + 1:hi] if o.startswith("ok rank=")]
            i = _rows_agree(rows, exp, tie_ok=bool(kinds))
            if i is not None:
                bad.append(("C07:cli:multigather-csv-differs-from-api",
                            f"query {j}, round {i}: cli={rows[i][:200] if i < len(rows) else '<none>'} "
                            f"api={exp[i][:200] if i < len(exp) else '<none>'}",
                            {"case": case, "args": a, "cli": rows, "api": exp}))
            un = base + ".unassigned.sig"
            if exp and os.path.exists(un):
                try:
                    got = set(json.load(open(un))[0]["signatures"][0]["mins"])
                except Exception:           # noqa: BLE001
                    got = None
                last = [o for l, o in zip(case[k:hi], impl[k:hi])
                        if l.split()[0] in ("gd", "next") and o.startswith(("ok", "stop"))]
                left = set(G.ints(G.parse_kv(last[-1])["q"])) if last else set()
                noid = set(G.ints(G.parse_kv(splits[j])["noident"])) if j < len(splits) else set()
                scs = [int(G.parse_kv(o)["sc"]) for o in impl[k + 1:hi] if o.startswith("ok rank=")]
                noid = G.down(noid, max(scs))
                if got is not None and got != (left | noid) and not kinds:
                    bad.append(("C07:cli:multigather-unassigned-differs",
                                f"query {j}: .unassigned.sig holds {len(got)} hashes, expected {len(left | noid)}",
                                {"case": case, "args": a}))
            elif exp and not os.path.exists(un):
                bad.append(("C07:cli:multigather-unassigned-missing",
                            f"query {j}: no .unassigned.sig although matches were found", {"case": case, "args": a}))
    finally:
        shutil.rmtree(d, ignore_errors=True)
    return bad


def quick_gather_batch(args):
    """quick tier of C07: a batch of cases through `sourmash gather` and (prefetch-mode cases) `sourmash multigather`,
    all invocations in ONE interpreter (adapters/cli_server.py).  args = (jobs, pkg), jobs = [(case, impl, opts)]
    -> [(violations, invocations)] per job"""
    jobs, pkg = args
    r = ServerRunner(pkg)
    out = []
    try:
        for case, impl, opts in jobs:
            bad = cli_gather_case((case, impl, r, opts))
            n = 1
            if any(l.startswith("split ") for l in case):
                bad = bad + cli_multigather_case((case, impl, r, {"kinds": opts.get("kinds"),
                                                                   "add_md5": opts.get("mg_add_md5")}))
                n += 1
            out.append((bad, n))
    finally:
        r.close()
    return out


def quick_partition_batch(args):
    """quick tier of C08: a batch of partition cases through `sourmash search | prefetch | gather`, one interpreter.
    args = (jobs, pkg), jobs = [(case, impl, kinds)] -> [violations] per job"""
    jobs, pkg = args
    r = ServerRunner(pkg)
    out = []
    try:
        for n, (case, impl, kinds) in enumerate(jobs):
            out.append(cli_partition_case((case, r, kinds, impl, n % 2 == 1)))
    finally:
        r.close()
    return out


def _bits(v):
    import struct
    return struct.unpack("<Q", struct.pack("<d", float(v)))[0]


def _canon(pairs):
    r = sorted((-sc, m) for m, sc in pairs)
    return "ok " + ",".join(f"{m}:{G.canonF(-sc)}" for sc, m in r)


def cli_partition_case(args):
    """one thorough-tier case of C08: `sourmash search | prefetch | gather` on files, one invocation per
    organisation; the CSVs are turned into the observations of the partition stream and judged by its oracle.
    args = (case, pkg | runner[, kinds[, impl]]) -> list of (signature, message, data)
    kinds = {db slot: file kind}: the same signatures organised differently on disk (one JSON file, a zip, a directory,
    a directory tree, a pathlist of a zip and a file, a standalone manifest, ...); impl = the in-process
    observations of the same case: search / prefetch rows of the command line must equal the API's."""
    from streams import partition as P
    case, pkg = args[0], args[1]
    kinds = {int(a): b for a, b in ((args[2] if len(args) > 2 else None) or {}).items()}
    impl = args[3] if len(args) > 3 else None
    distract = args[4] if len(args) > 4 else False
    KX = ["-k", "21"] if distract else []     # the files also hold k=31 and num signatures: they must be ignored
    d, qpath, paths = write_files(case, pkg, kinds=kinds, distract="k" if distract else None)
    if d is None:
        return [("C08:cli:cannot-write-files", str(paths), {"case": case})]
    obs = []
    md5full = {}
    asserts = []
    try:
        sigs, _ = G.parse_case(case)
        lazy = {int(l.split()[1]): True for l in case if l.startswith("xdb ") and l.split()[2] == "lazy"}
        for k, sg in sigs.items():
            md5full[f"{sg['md5']:032x}"[:8]] = sg["md5"]
        for l in case:
            w = l.split()
            o = "ok"
            try:
                if w[0] == "searchc" and w[2] == "0":
                    dbs = [paths[int(x)] for x in w[6:] if int(x) in paths]
                    out = os.path.join(d, "s.csv")
                    if os.path.exists(out):
                        os.remove(out)
                    a = ["search", qpath] + dbs + ["--threshold", repr(int(w[3]) / int(w[4])), "-o", out] + KX
                    a += {"j": [], "c": ["--containment"], "m": ["--max-containment"]}[w[1]]
                    rc, so, se = run_cli(pkg, a, d)
                    if rc != 0 and "ERROR: cannot use '" in se:
                        o = None       # documented refusal: SBT / LCA similarity search with a coarser query
                    elif rc != 0:
                        o = "err ValueError:varN<0" if "varN" in se else "err cli-exit-%d" % rc
                    else:
                        o = _canon([(int(r["md5"], 16), float(r["similarity"])) for r in read_csv(out)])
                elif w[0] == "xsa" and w[1] == "0":
                    # an abundance query: `sourmash search` runs search_databases_with_abund_query (angular similarity)
                    dbs = [paths[int(x)] for x in w[5:] if int(x) in paths]
                    out = os.path.join(d, "sa.csv")
                    if os.path.exists(out):
                        os.remove(out)
                    a = ["search", qpath] + dbs + ["--threshold", repr(int(w[2]) / int(w[3])), "-o", out] + KX
                    rc, so, se = run_cli(pkg, a, d)
                    if rc != 0 and "ERROR: cannot use '" in se:
                        o = None       # documented refusal: SBT / LCA similarity search with a coarser query
                    elif rc != 0:
                        o = "x err cli-exit-%d %s" % (rc, se[-200:].replace("\n", " | "))
                    else:
                        o = "x " + _canon([(int(r["md5"], 16), float(r["similarity"])) for r in read_csv(out)])
                elif w[0] == "xsa":
                    o = None
                elif w[0] == "searchc":
                    o = None                      # best-only: the CLI prints one row; not compared here
                elif w[0] == "pfallc":
                    o = None                      # Index.prefetch rows: the command prints prefetch_database's (`xpfc`)
                elif w[0] == "xpfc":
                    dbs = [paths[int(x)] for x in w[3:] if int(x) in paths]
                    out = os.path.join(d, "p.csv")
                    if os.path.exists(out):
                        os.remove(out)
                    a = ["prefetch", qpath] + dbs + ["--threshold-bp", w[2], "-o", out] + KX
                    if any(lazy.get(int(x)) for x in w[3:]):
                        a.append("--linear")
                    rc, so, se = run_cli(pkg, a, d)
                    if rc != 0 and "unattainable" in se:
                        o = "x err ValueError"
                    elif rc != 0 and "'containment' requires 'scaled' in Index.select" in se and \
                            any(kinds.get(int(x)) == "zipnm" for x in w[3:]):
                        asserts.append(("C08:cli:prefetch-crashes-on-collection-without-manifest",
                                        "`sourmash prefetch` died with \"'containment' requires 'scaled' in Index.select'\" "
                                        "on a zip archive of signature files without a manifest", {"case": case, "args": a}))
                        o = None
                    elif rc != 0 and "assert result.pass_threshold" in se:
                        # search.prefetch_database re-checks every row of Index.prefetch in base pairs; for a query
                        # finer than the database Index.prefetch admits sketches below threshold_bp (D6) and the
                        # command dies on the assert
                        _, ftab = case_tables(case)
                        qsc = sigs[int(w[1])]["scaled"]
                        dsc = max([sigs[m]["scaled"] for x in w[3:] if int(x) in ftab for m in ftab[int(x)][1]] or [0])
                        d6 = qsc < dsc and int(w[2]) > 0
                        asserts.append(("C08:cli:prefetch-AssertionError:query-finer-than-db:threshold_bp>0" if d6
                                        else "C08:cli:prefetch-AssertionError",
                                        f"`sourmash prefetch --threshold-bp {w[2]}` died on `assert result.pass_threshold` "
                                        f"(query scaled {qsc}, database scaled {dsc}); regression of finding C08.5", {"case": case, "args": a}))
                        o = None
                    elif rc != 0:
                        o = "x err cli-exit-%d %s" % (rc, se[-200:].replace("\n", " | "))
                    else:
                        o = "x " + _canon([(md5full.get(r["match_md5"], int(r["match_md5"], 16)), float(r["f_match_query"]))
                                           for r in read_csv(out)])
                elif w[0] == "xgd":
                    dbs = [paths[int(x)] for x in w[5:] if int(x) in paths]
                    out = os.path.join(d, "g.csv")
                    if os.path.exists(out):
                        os.remove(out)
                    a = ["gather", qpath] + dbs + ["--threshold-bp", w[2], "-o", out] + KX
                    if w[3] == "1":
                        a.append("--ignore-abundance")
                    if w[4] == "o":
                        a.append("--no-prefetch")
                    if any(lazy.get(int(x)) for x in w[5:]):
                        a.append("--linear")
                    rc, so, se = run_cli(pkg, a, d)
                    cur_rows = read_csv(out) if rc == 0 else None
                    cur_i = 0
                    o = "x ok" if rc == 0 else "x err cli-exit-%d" % rc
                elif w[0] == "xnext":
                    if cur_rows is None:
                        o = "x dead"
                    elif cur_i < len(cur_rows):
                        r = cur_rows[cur_i]
                        cur_i += 1
                        o = (f"x ok md5={int(r['md5'], 16)} sc={r['scaled']} ibp={r['intersect_bp']} ubp={r['unique_intersect_bp']}"
                             f" fo={G.canonF(float(r['f_orig_query']))} fm~{_bits(r['f_match'])}"
                             f" fu={G.canonF(float(r['f_unique_to_query']))} fw={G.canonF(float(r['f_unique_weighted']))}"
                             f" rem={r['remaining_bp']} swf={r['sum_weighted_found']} twh={r['total_weighted_hashes']}"
                             f" rank={r['gather_result_rank']}")
                    else:
                        o = "x stop"
            except subprocess.TimeoutExpired:
                o = "err cli-timeout"
            obs.append(o)
        # drop the ops that were not run
        keep = [(l, o) for l, o in zip(case, obs) if o is not None]
        c2, o2 = [l for l, _ in keep], [o for _, o in keep]
        bad = list(asserts)
        for idx, sig, msg in P.oracle(c2, o2):
            bad.append((sig.replace("C08:", "C08:cli:", 1) if not sig.endswith(("coarser-than-stored-sketch", "scaled", "threshold_bp>0", "jaccard-ani", "ignores-abundance")) else sig,
                        msg, {"case": case, "observations": o2, "op_index": idx}))
        for l, o in keep:
            if o.startswith(("err cli", "x err cli")):
                bad.append(("C08:cli:command-failed", f"`{l[:80]}`: {o}", {"case": case}))
        if impl is not None:
            for l, o, io in zip(case, obs, impl):
                if o is None or not l.startswith(("searchc", "xpfc", "xsa")):
                    continue
                io = io[:-5] if io.endswith(" L=ok") else io
                if l.startswith(("xpfc", "xsa")):
                    # the reference for `sourmash prefetch` is search.prefetch_database run in-process on the same
                    # collections (rows of Index.prefetch that pass PrefetchResult.pass_threshold, f_match_query)
                    o, io = o[2:], io[2:]
                if o != io and not (o.startswith("err") or io.startswith("err")):
                    bad.append(("C08:cli:rows-differ-from-api", f"`{l[:60]}`: cli={o[:160]} api={io[:160]}",
                                {"case": case, "kinds": {str(a): b for a, b in kinds.items()}}))
        return bad
    finally:
        shutil.rmtree(d, ignore_errors=True)
