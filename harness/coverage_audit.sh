#!/bin/sh
# harness/coverage_audit.sh [ids...] : AUDIT TOOL (not a check). Runs the quick tier of the given checks (default: all)
# with coverage.py tracing every adapter / CLI subprocess of the package built from /repo, then prints, per source file
# of src/sourmash, the functions none of the streams ever executed.  Used to find API surface the streams do not reach
# (the seeded changes that were missed all sat in such places).  Output: /var/tmp/cov/report.txt
cd /verif
COV=/var/tmp/cov; rm -rf $COV; mkdir -p $COV
python3 harness/setup.py >/dev/null 2>&1
PKG=/verif/.build/pkg
cat > $COV/rc <<EOF
[run]
parallel = true
data_file = $COV/data
source = $PKG/sourmash
concurrency = multiprocessing
EOF
echo "import coverage; coverage.process_startup()" > $PKG/sitecustomize.py
ids=${*:-C01 C02 C03 C04 C05 C06 C07 C08 C09 C10 C11 C12 C13 C14 C15 C16 C17 C18 C19 C20}
for id in $ids; do
  COVERAGE_PROCESS_START=$COV/rc VERIF_EVIDENCE=$COV/evidence ./check $id --tier quick > $COV/$id.out 2>&1
  echo "$id rc=$?"
done
rm -f $PKG/sitecustomize.py
cd $COV && /venv/bin/python -m coverage combine --rcfile=$COV/rc >/dev/null 2>&1
/venv/bin/python -m coverage json --rcfile=$COV/rc -o $COV/cov.json >/dev/null 2>&1
/venv/bin/python - <<'P'
import json, ast, os
cov = json.load(open('/var/tmp/cov/cov.json'))
out = open('/var/tmp/cov/report.txt', 'w')
for path, info in sorted(cov['files'].items()):
    ex = set(info['executed_lines'])
    try:
        tree = ast.parse(open(path).read())
    except Exception:
        continue
    miss = []
    tot = 0
    def visit(node, prefix=''):
        global tot
        for n in getattr(node, 'body', []):
            if isinstance(n, (ast.FunctionDef, ast.AsyncFunctionDef)):
                tot += 1
                body_lines = {m.lineno for s in n.body for m in ast.walk(s) if hasattr(m, 'lineno')}
                if not (body_lines & ex):
                    miss.append(prefix + n.name)
            if isinstance(n, ast.ClassDef):
                visit(n, prefix + n.name + '.')
    visit(tree)
    rel = path.split('/pkg/')[-1]
    pct = info['summary']['percent_covered']
    out.write(f"{rel}: {pct:.0f}% lines; {len(miss)}/{tot} functions never executed: {' '.join(miss)}\n")
print(open('/var/tmp/cov/report.txt').read()[:200])
P
