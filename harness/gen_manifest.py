#!/usr/bin/env python3
"""Writes MANIFEST.json from the table below (kept in code so that it is always schema-valid)."""
import json, os
V = os.path.dirname(os.path.dirname(os.path.abspath(__file__)))
TITLES = {json.loads(l)["id"]: json.loads(l)["title"] for l in open(os.path.join(V, "properties.jsonl"))}

NOTE_COMMON = ("Trusted: Lean 4.33 kernel with axioms propext/Classical.choice/Quot.sound only (audited by #print axioms each run; "
               "no sorry/native_decide/bv_decide/own axioms); the hand-written model is tied to /repo by a correspondence run "
               "(differential testing against a package rebuilt from the working tree) and by the translator for literal tables/"
               "rounding modes; third-party libraries, Rust std, cffi, md5, OS are trusted. ")

CLAIMED = {
    "C02": dict(
        text="Lean theorems: the SeqToHashes iterator (transcribed branch for branch, incl. the lagging dna_last_position_check cursor and the Ok(0) sentinel) yields, for EVERY byte string, every k and both force values, exactly the window specification: the hash of the lexicographically smaller of each upper-cased k-mer and its reverse complement, in order; error at the first window holding a non-ACGT byte, or with force the skip of exactly the windows holding it (dna_iter_eq_spec, by a loop invariant; also shows no index panic and termination). Corollaries: reverse complement / letter case give the same multiset, two pieces overlapping by k-1 give the items of the whole, short sequences give nothing (all four molecule types); amino-acid input hashes every window of the re-encoded sequence (protein_eq_spec); translated DNA yields exactly the six frames in the emitted order (translate_eq_spec). The five tables of encodings.rs are re-extracted on every run and re-checked by decide against an independently typed standard genetic code, Dayhoff and HP classes, complement involution and VALID = ACGT. Tied to the code by the seq correspondence stream (seq_to_hashes, kmers_and_hashes, add_sequence, add_protein, hash_murmur; MurmurHash3 re-implemented in Lean and in the oracle) and an independent Python oracle on every observation.",
        note=NOTE_COMMON + "The hash function is an arbitrary parameter of the theorems (they say WHICH byte strings are hashed, in which order); MurmurHash3 itself is only compared, nothing is claimed about its distribution. A k-mer hashing to exactly 0 is dropped (0 is the iterator's in-band skip sentinel): theorems about the hashes offered to a sketch assume hash != 0; exhibited for amino-acid input of k NUL bytes with seed k (C02.4), no ACGT k-mer with hash 0 is known. Translated DNA with non-ACGT letters is modelled and compared but not judged (the statement is silent). Known findings C02.3 (a NUL byte ends the C string in add_sequence/add_protein/hash_murmur) and C02.4 (hash value 0 doubles as the skip marker); D20, C02.1, C02.2 were found by this check and are fixed in /repo (67d1f7c, d13355a, a005a3e), with regression theorems. Not proved: the pieces statement for translated input; the exact k-mer strings kmers_and_hashes pairs with hashes of translated/amino-acid input.",
        technique="Lean 4 loop-invariant proof of an iterator against a window specification + decide over translator-regenerated tables + model/impl correspondence and independent oracle over generated sequences",
        ref="DESIGN.md section 5 C02"),
    "C10": dict(
        text="Lean theorems over ALL lists of create-then-append sessions and all signature records (equal md5 under different names, repeated signatures, empty sketches, hashes to 2^64-1): zip collections are stored faithfully for EVERY session sequence (zip_sessions_faithful: manifest rows in save order with every column from the signature and the member actually holding it, no unlisted member, reload = saved set, and = saved list in order when nothing is saved twice), with termination + specification of the _n name search; directory output faithful at full strength; SQLite round trip exact (every field incl. seed, hashes through the signed 64-bit mapping with its order laws) of exactly the admitted signatures, all others refused; LCA databases return, up to order, exactly one flattened/downsampled image per accepted insert (incl. sketches empty at the database's scaled); SBT leaves; loader and saver choice for 15 file kinds over priorities re-read from the source. Regression theorems (old_variant_*) with kernel-checked counterexamples for the three repaired defects (D10, C10.2, D11) and counterexamples for the open findings C10.1/C10.4/C10.5. Tied to the code by the store stream: real files in every format, every reload path, manifest compared field by field.",
        note=NOTE_COMMON + "JSON/gzip/zipfile/sqlite3/csv bytes are trusted (a member is the list of records it decodes to); member-name rendering assumed injective; SBT internal nodes and LCA lineages not modelled; ascending order of the hash list an LCA database returns and its _next_index recomputation are only tested; standalone-manifest/pathlist reloads are modelled as the generic load of the collection restricted by the manifest's picklist. Known findings: C10.1/C10.1b (a signature saved twice: one member, two rows), C10.3/C10.3b (empty .sig / directory cannot be reloaded, loud), C10.4 (manifest rebuilt from a zip skips <md5>.sig.gz_n members), C10.5 (SQLite-format manifest keeps one row per md5 and collection).",
        technique="Lean 4 invariant proof over all session histories (finite-map model), pigeonhole termination proof, permutation proof for the LCA inverted index, kernel-checked counterexamples; translator for priorities/columns/constants/variant-selecting source shapes; model/impl correspondence on real files + independent multiset/manifest oracle",
        ref="DESIGN.md section 5 C10"),
    "C14": dict(
        text="Lean theorems: (A) a twin machine applies every operation (add, add-with-abundance incl. abundance 0, add_many, add_many_with_abund, remove_many, clear, merge, add_from, downsample_scaled, both From conversions, serde round trip, md5) to the model of KmerMinHash and to the model of KmerMinHashBTree (BTreeSet/BTreeMap as ascending lists, current_max, md5 cache); btree_eq_vec proves for the current source (D14 repaired, /repo 779da1d; the translator re-reads the four repaired sites and source_has_repair fails otherwise) that parameters, hashes, abundances and md5 coincide at every handle along EVERY history of sketches that are num or scaled, not both (conversions: stable thresholds); the statement without that hypothesis is false (kernel-checked counterexample, known finding D14e); regression theorems about the unrepaired variant (agreement outside the D14 classes + four kernel-checked counterexamples) record what the repair removed; conv_preserves (given Stable), count_common / intersection_size agree. (B) the parser of -p strings is total with its exception classes characterised, never yields num and scaled together, build_template yields exactly one fresh sketch per (k, moltype) with the requested parameters, every factory-built sketch is num xor scaled, and factory_eq_direct: a factory-built sketch fed any hashes converts to exactly the directly-created sketch fed the same hashes (same JSON, same md5). Tied to the code by the twin stream (Lean twin vs real KmerMinHash+KmerMinHashBTree through the Rust harness; oracle: the two real observations are equal), the sketch stream (parameter strings from a grammar through parse/factory/sig.minhash/JSON; FASTA records into factory-built vs directly-created sketches) and, in the thorough tier, the sourmash sketch dna|protein|translate command line.",
        note=NOTE_COMMON + "The translator re-reads DEFAULTS, the x3 multiplier, the order of the parser's item tests, build_template's molecule order and builder calls, the ComputeParameters defaults and which of the two known shapes (repaired / as first found) the four D14 sites have; the twin driver runs the variant the source has; a partial repair or revert is reported as a broken tie. Hashing of sequences is C02's subject (factory_eq_direct is over hash lists; real sequences are compared impl-vs-impl by the oracle). Stable (threshold survives scaled()) is a hypothesis here, C03's theorem for scaled <= 2^31. Findings: D14a-d fixed (779da1d); known: D14e (a sketch that is both num and scaled, Rust API only) and C14.1 (-p scaled=0 / num=0 accepted).",
        technique="Lean 4 simulation proof between two implementations (abstraction function + invariants, induction over op histories, ghost flag for the classes excluded in the unrepaired variant) + parser/factory model; model/impl correspondence over generated histories and parameter strings; translator for literal tables and code shapes",
        ref="DESIGN.md section 5 C14"),
    "C05": dict(
        text="Lean theorems on Inv sketches: intersection_size = (|A∩B|, |A∪B|), count_common = |A∩B| independent of the swap-by-size, Jaccard = |A∩B|/max(1,|A∪B|) (in Q and as the exact double) with range/self/disjoint/symmetry, the num path restricted to the bottom-n of the union, the angular merge loop = Σ a_h b_h with both norms, similarity dispatch, raw containment = common/|A| with 0<bias<=1, corrected>=raw, clamped<=1, max/avg containment symmetric, with the downsample flag containment = containment of the pair downsampled to the common scaled, check_compatible ⇔ same k/molecule/seed/max_hash and every comparison of incompatible sketches (containment functions with empty operands and the comparison dataclasses included) is an error. Tied to the code by the cmp stream (bit-exact integers and ratios, independent set/Fraction oracle) and by a translator re-reading check_compatible, the Jaccard expression and the statement sequence of the containment functions.",
        note=NOTE_COMMON + "Floats tier 2: sqrt/acos of the angular similarity and the bias factor (1-1/s)^(n*s) are computed with the runtime Float and compared with relative tolerance 1e-12, not proved; as a consequence the self-similarity of the angular measure is 1 only up to 1.3e-8 (known finding C05-F2, shown by the oracle on the real code; the theorem angular_self_parts proves the cosine fed to the float tail is exactly 1). u64 overflow of the sums of squared abundances assumed absent in the theorems (the model wraps like the release build). scaled <= 2^31. Two different non-zero num values are outside the statement (similarity answers, jaccard refuses).",
        technique="Lean 4 loop-invariant proofs on list models + exact binary64 model for ratios + model/impl correspondence over generated sketch pairs with an independent Fraction/set oracle",
        ref="DESIGN.md section 5 C05"),
    "C18": dict(
        text="Lean theorems over a model of LCA_Database and the lineage utilities: (history_invariant / index_is_relation) for every history of accepted and refused insertions, downsamplings and JSON save/load round trips (including insertions after a load) the inverted index is exactly the relation 'signature idx was inserted and holds h at the database's scaled'; get_lineage_assignments / get_identifiers_for_hashval return exactly the lineages / identifiers of the holders (assignments_exact, identifiers_exact); _signatures, including its 50-hash batching, rebuilds every inserted sketch exactly, empty ones included, with its name (reconstruct, reconstruct_exact, signatures_named, signatures_count); JSON save/load preserves every table and answer up to padding lineages with empty names (json_roundtrip, json_lineage_same_taxa); find_lca(build_tree(L)) is the unique solution of the LCA specification, independent of order and duplicates (find_lca_spec, lca_spec_unique, find_lca_set_only, the two prose halves lca_deepest_if_no_disagreement / lca_first_disagreement); summarize credits each hash to its LCA and every ancestor exactly once (aggregate_once, counts_eq); classify and pop_to_rank against their specs. Tied to the code by the lca correspondence stream (in-memory, JSON, SQLite forms, downsample_scaled, summarize/classify, both find_lca implementations) with an independent relation-based oracle, and by translator items (taxlist, NCBI_RANKS, SQL column orders, downsample comparison/threshold, batch constant, threshold comparisons, AST identity of the two find_lca/build_tree implementations).",
        note=NOTE_COMMON + "Not proved: equivalence of the SQLite form (modelled and compared only; four of its behaviours are known findings), classify --majority tie-breaking, md5-based default identifiers of unnamed signatures. minhash.downsample is abstracted as 'hashes <= max_hash' (C01/C03). LCAs are computed on the taxa a lineage names (empty names skipped). downsample_scaled now equals direct insertion at the coarser scaled (downsample_entry, downsample_commutes; D9 repaired). Known findings: C18.3-C18.5 (SQLite form: downsample_scaled is a no-op on the answers, lineages looked up by name instead of identifier, identifiers re-derived from names). Fixed in /repo: D9, D11, C18.6, C18.7, C18.8.",
        technique="Lean 4 invariant proof over all insertion/downsampling histories + trie induction for find_lca + sum bookkeeping for summarize; model/impl correspondence over generated histories with a relation oracle; translator for rank tables and comparison shapes",
        ref="DESIGN.md section 5 C18"),
    "C20": dict(
        text="PARTIAL by nature. Lean theorems about the one hand-written binary reader that takes sizes from the file (Nodegraph::from_reader): it is a total function of the input, the memory it requests is bounded by the input length whatever the size fields say (alloc_bounded, for the allocation discipline the translator re-reads from the source on every run; the pre-repair pre-allocating discipline is proved unbounded), and it refuses zero-sized tables. Every mutated nodegraph file is also run through the reader model and compared with the real reader. Everything else (JSON/gzip/zip/sqlite/CSV decoders, native memory safety) is differential TESTING in crash-isolated workers (address-space limit, per-file timeout, post-failure sentinel computation) over mutated files of all 11 kinds; labelled as testing in the evidence.",
        note=NOTE_COMMON + "Memory safety of native code, third-party decoders and the allocator cannot be expressed in an executable model and are not claimed; a signal, timeout or damaged process state found by the isolated workers is reported with the file bytes as replay.",
        technique="Lean 4 proof of allocation bound / totality of the size-taking reader (translator-selected variant) + crash-isolated differential loading of mutated files",
        ref="DESIGN.md section 5 C20"),
    "C15": dict(
        text="PARTIAL by nature. Lean theorems over an ownership model (heap of sketch cells, handles, frozen flags; for each API entry point whether it writes its receiver and whether its result is fresh or an alias): frame rule (only a mutator's receiver cell can change), frozen objects refuse every mutator and keep their content through EVERY history (frozen_forever), to_mutable always yields a fresh cell so a mutable copy shares no state, and the only aliases ever handed out are frozen cells or flatten() of a flat sketch. The alias table itself is checked against the real objects after every op of every generated history (content of all live objects, frozen flags, Python object identity); read-only calls (comparisons, search, prefetch, gather, compare, save/load, manifest export) are executed twice and their operands digested before and after.",
        note=NOTE_COMMON + "The theorem is relative to the transcribed alias/clone table; CPython/cffi object lifetime and aliasing inside native code are observed by the monitor, not proved.",
        technique="Lean 4 frame/invariant proofs over an ownership model + object-table monitor correspondence after every op",
        ref="DESIGN.md section 5 C15"),
    "C03": dict(
        text="Lean theorems: (A) downsampling keeps exactly the hashes at or below the new threshold with their counts, equals sketching the same additions directly at the coarser value, composes, and upsampling is refused (Rust and Python layers); (B) for EVERY scaled value 1..2^31, analytically (no enumeration): Python .scaled, Rust scaled(), copy/pickle, Python downsample and the BTree conversion all reproduce S / the same threshold, proved over an exact integer model of binary64 division and rounding whose rounding modes are re-read from the source by the translator on every run. Tied to the code by the scaled stream (every conversion pipeline incl. count_common(downsample=True) both ways) and, in the thorough tier, a contiguous sweep 1..2^21 of the real code against the model.",
        note=NOTE_COMMON + "IEEE-754 correct rounding of hardware division and of CPython int/int true division is assumed (that is what Float64.lean models). Above 2^31.5 the threshold no longer determines scaled: known finding D22.",
        technique="Lean 4 proof: float error analysis over Q for all S<=2^31 + refinement; translator for rounding modes; model/impl correspondence incl. exhaustive sweep 1..2^21 (thorough)",
        ref="DESIGN.md section 5 C03"),
    "C01": dict(
        text="Lean theorems: the model of KmerMinHash + FFI glue + Python dispatch keeps a strictly sorted, abundance-aligned vector (invariant over all op histories) and, for scaled sketches, refines a finite-map spec (hash -> count restricted to <= max_hash) for every op incl. remove/clear/merge/set-abundances; num sketches equal the first n entries of the unbounded sketch for removal-free histories. Tied to the code by the mh correspondence stream and a spec oracle on every history.",
        note=NOTE_COMMON + "u64 abundance sums assumed not to wrap. Num sketches with a removal after an eviction cannot satisfy the statement (known finding D21, information-theoretic).",
        technique="Lean 4 refinement proof (induction over op histories) + model/impl correspondence over generated histories",
        ref="DESIGN.md section 5 C01"),
    "C11": dict(
        text="Lean theorem md5_valid: in every state reachable through any history of the 27 modelled operations (Rust core, FFI clone paths, Python copy/pickle/downsample/set-ops) an md5 query answers the digest pre-image of the current ksize and hashes; proved by an invariant on the md5 cache over all ops. Tied to the code by histories with md5 queries interleaved, plus an oracle recomputing md5 from the reported hashes.",
        note=NOTE_COMMON + "md5 itself is uninterpreted (collision-freeness assumed for the 'changed content => changed md5' direction).",
        technique="Lean 4 invariant proof over all operation histories + model/impl correspondence with interleaved md5 queries",
        ref="DESIGN.md section 5 C11"),
}

# checks that exist but are being re-synchronised with a /repo fix: not claimed until green again
PENDING = set()


def main():
    checks = []
    for pid in sorted(CLAIMED):
        if pid in PENDING:
            continue
        c = CLAIMED[pid]
        checks.append({
            "property_id": pid,
            "quick_cmd": f"./check {pid} --tier quick",
            "thorough_cmd": f"./check {pid} --tier thorough",
            "evidence_file": f"evidence/{pid}.json",
            "replay_cmd_template": f"./check {pid} --replay {{path}}",
            "engine": "lean4-model+correspondence",
            "level_claimed": {"category": c.get("category", "proof"), "text": c["text"], "design_ref": c["ref"]},
            "level_note": c["note"],
            "technique": c["technique"],
        })
    na = [{"property_id": p, "reason": "check not built yet in this round (planned: see DESIGN.md section 5); not claimed until its Lean model, theorems and correspondence run exist"}
          for p in sorted(TITLES) if p not in CLAIMED or p in PENDING]
    m = {
        "version": 1,
        "setup_cmd": "python3 harness/setup.py",
        "hooks": {
            "guard": "SOURMASH_VERIF",
            "enable": "no source hooks are needed: checks observe public API of a package assembled from /repo's working tree (harness/build_repo.py); SOURMASH_VERIF=1 is exported to adapters for future use",
            "baseline_off_cmd": "cd /repo && /venv/bin/python -m pytest -ra -q -p no:cacheprovider --timeout=900 --continue-on-collection-errors",
            "source_commits": [],
            "add_only": True,
        },
        "engines": [{
            "name": "lean4-model+correspondence",
            "path": "lean/ (Lake library SmVerif), harness/ (builder, translator, streams, adapters, oracles)",
            "serves_properties": sorted(set(CLAIMED) - PENDING),
            "kind_free_text": "machine-checked proof in Lean 4 about a hand-written executable model; model regenerated in part by a translator and compared with the real code over generated operation histories through a line protocol",
        }],
        "checks": checks,
        "not_applicable": na,
        "notes": "See DESIGN.md. known_findings.json lists genuine defects (fixed: / known).",
    }
    json.dump(m, open(os.path.join(V, "MANIFEST.json"), "w"), indent=1)
    print("wrote MANIFEST.json with", len(checks), "checks")

if __name__ == "__main__":
    main()
