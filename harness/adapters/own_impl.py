"""Real-code adapter for the `own` stream (C15).  After EVERY op it prints the whole table of
live objects: handle, alias class (by Python object identity), frozen flag, content — so that
any write the model does not predict shows up.  Read-only ops are executed twice and the two
results must agree; the signatures/collections they were given are digested before and after."""
import io
import os
import pickle
import sys

import sourmash
from sourmash import MinHash, SourmashSignature
from sourmash.minhash import FrozenMinHash
from sourmash.signature import FrozenSourmashSignature
from sourmash.index import (LinearIndex, MultiIndex, LazyLinearIndex, ZipFileLinearIndex,
                            StandaloneManifestIndex)
from sourmash.sbt import SBT
from sourmash.sbtmh import create_sbt_index
from sourmash.lca.lca_db import LCA_Database
from sourmash.index.sqlite_index import SqliteIndex, LCA_SqliteDatabase
from sourmash.sbtmh import load_sbt_index
from sourmash.picklist import SignaturePicklist
from sourmash.manifest import CollectionManifest
from sourmash.search import GatherDatabases, prefetch_database
from sourmash import signature as sigmod


def cell(mh):
    hs = mh.hashes
    keys = list(hs.keys())
    mins = ",".join(map(str, keys))
    ab = ",".join(str(hs[k]) for k in keys) if mh.track_abundance else "-"
    return f"{int(isinstance(mh, FrozenMinHash))}:{mh.num}:{mh._max_hash}:{mins}:{ab}"


def heap(T):
    hs = sorted(T)
    out = []
    for h in hs:
        cls = min(g for g in hs if T[g] is T[h])
        out.append(f"{h}@{cls}={cell(T[h])}")
    return " ".join(out)


def exc_name(e):
    for c in (NotImplementedError, IndexError, TypeError, RuntimeError, ValueError, AssertionError, KeyError, AttributeError):
        if isinstance(e, c):
            return c.__name__
    return type(e).__name__


def sig_digest(ss):
    mh = ss.minhash
    return (ss.name, ss.filename, ss.md5sum(), tuple(mh.hashes.items()), mh.track_abundance, mh.num, mh._max_hash,
            type(ss).__name__)


class Differs(Exception):
    pass


# --- several routes to one modelled operation: a per-case counter the model does not see (reset at `#`)
ROUTE = [0]


def route(n):
    ROUTE[0] += 1
    return ROUTE[0] % n


# --- histories: every result object a call returned is kept (uncopied) until the end of the case and re-read after every op
KEPT = []


def keep(label, obj, digest_fn):
    if len(KEPT) < 60:
        try:
            KEPT.append((label, obj, digest_fn, digest_fn(obj)))
        except Exception:  # noqa: BLE001
            pass


def kept_state():
    for label, obj, fn, d0 in KEPT:
        try:
            if fn(obj) != d0:
                return "changed:" + label
        except Exception as e:  # noqa: BLE001
            return "unreadable:" + label + ":" + type(e).__name__
    return "ok"


class UnknownOp(Exception):
    pass


class ViewChanged(Exception):
    """a save changed what the saved collection answers"""


def canon(x):
    if isinstance(x, float):
        return x.hex()
    if isinstance(x, (list, tuple)):
        return tuple(canon(y) for y in x)
    if isinstance(x, dict):
        return tuple(sorted((canon(k), canon(v)) for k, v in x.items()))
    if isinstance(x, SourmashSignature):
        return sig_digest(x)
    if isinstance(x, MinHash):
        return cell(x)
    return x


REF_MODE = {}


def dig_sig_ref(x):
    """a signature inside a kept result: its content when it is frozen (must stay), its identity when it was mutable at the
    time the result was kept (the caller may legitimately change his own object later)"""
    try:
        mode = REF_MODE.setdefault(id(x), isinstance(x, sigmod.FrozenSourmashSignature))
        return sig_digest(x) if mode else ("mutable", id(x))
    except Exception as e:  # noqa: BLE001
        return ("unreadable", type(e).__name__)


def dig_results(lst):
    return [(r.score, dig_sig_ref(r.signature), str(r.location)) for r in lst]


def ro(name, objs):
    """one read-only API call over the given MinHash objects; returns a canonical result"""
    a = objs[0]
    b = objs[1] if len(objs) > 1 else objs[0]
    if name == "eq2":
        return a == b, b == a, a == a, a != b if hasattr(a, "__ne__") else None
    if name == "seqhashes":
        sq = "ACGTTGCATGCATGCAAGCTAGCTAGGATCCA"
        return (a.seq_to_hashes(sq), a.seq_to_hashes(sq, force=True, bad_kmers_as_zeroes=True),
                [(k, h) for k, h in a.kmers_and_hashes(sq)])
    if name == "getters":
        return (a.get_mins(), a.get_mins(with_abundance=True) if a.track_abundance else None, a._max_hash, a.moltype, a.ksize,
                a.is_dna, a.is_protein, a.dayhoff, a.hp, a.seed, a.unique_dataset_hashes if a.scaled else None,
                a.size_is_accurate() if a.scaled else None, a.std_abundance if a.track_abundance else None,
                repr(a.hashes)[:40] != "", a.hashes == a.hashes, bool(a))
    if name == "inflate":
        return a.inflate(b)
    if name == "hashesset":
        hs = a.hashes
        before = dict(hs)
        try:
            hs[12345] = 7
            out = "accepted"
        except RuntimeError:
            out = "refused"
        if dict(a.hashes) != before:
            raise Differs("assignment into .hashes changed the sketch")
        return out
    if name == "cac":
        c = a.copy_and_clear()
        if c is a:
            raise Differs("copy_and_clear returned the object itself")
        c.add_hash(1)
        return len(a), c.track_abundance, c.num, c._max_hash
    if name == "fdn":
        from sourmash.minhash import flatten_and_downsample_num
        r = flatten_and_downsample_num(a, b.num)
        return cell(r), (r is a)
    if name == "cc":
        return a.count_common(b, True), b.count_common(a, True)
    if name == "sim":
        return a.similarity(b, downsample=True), a.similarity(b, ignore_abundance=True, downsample=True)
    if name == "jac":
        return a.jaccard(b, downsample=True)
    if name == "cont":
        return a.contained_by(b, downsample=True), a.max_containment(b, downsample=True), a.avg_containment(b, downsample=True)
    if name == "ang":
        return a.angular_similarity(b)
    if name == "iu":
        return a.intersection_and_union_size(b)
    if name == "md5":
        return SourmashSignature(a).md5sum()
    if name == "hashes":
        return dict(a.hashes), len(a), a.scaled, a.num, a.track_abundance
    if name == "pickle":
        return pickle.dumps(a) == pickle.dumps(a)
    if name == "and":
        return a & b
    if name == "or":
        return a | b
    if name == "fds":
        from sourmash.minhash import flatten_and_downsample_scaled, flatten_and_intersect_scaled
        return flatten_and_downsample_scaled(a, b.scaled), flatten_and_intersect_scaled(a, b)
    if name == "ani":
        return (str(a.containment_ani(b, downsample=True)), str(a.jaccard_ani(b, downsample=True)),
                str(a.max_containment_ani(b, downsample=True)), str(a.avg_containment_ani(b, downsample=True)))
    # --- signature / collection level: build signatures from the objects, digest them before and after
    sigs = [SourmashSignature(o, name=f"s{i}") for i, o in enumerate(objs)]
    if name.endswith("m"):
        # variant with a MUTABLE query signature (as built in memory by a caller); the database stays frozen
        name = name[:-1]
        for s in sigs[1:]:
            s.into_frozen()
    else:
        for s in sigs:
            s.into_frozen()       # what loaders and collections hand out
    before = [sig_digest(s) for s in sigs]
    query, db = sigs[0], sigs[1:] or sigs[:1]
    if name == "sigcopy":
        # copies of a signature share no state with it
        res = []
        for s0 in sigs:
            d0 = sig_digest(s0)
            m = s0.to_mutable()
            if m is s0:
                raise Differs("to_mutable() returned the signature itself")
            m.name = "changed"
            mm = m.minhash.to_mutable()
            mm.add_hash(12345)
            m.minhash = mm
            c = s0.copy() if hasattr(s0, "copy") else s0
            f = s0.to_frozen()
            if sig_digest(s0) != d0:
                raise Differs("mutating a to_mutable() copy changed the original signature")
            res.append((sig_digest(m)[3] != d0[3], type(f).__name__))
    elif name == "selview":
        # select() on a view is a read-only call on that view
        import tempfile, shutil
        from sourmash.index import ZipFileLinearIndex, LazyLinearIndex
        from sourmash.sourmash_args import SaveSignaturesToLocation
        td = tempfile.mkdtemp(prefix="own_", dir=os.environ.get("VERIF_TMP") or None)
        try:
            zp = os.path.join(td, "c.zip")
            with SaveSignaturesToLocation(zp) as sv:
                for s0 in sigs:
                    sv.add(s0)
            views = [
                ("linear", LinearIndex(sigs)),
                ("lazy", LazyLinearIndex(LinearIndex(sigs))),
                ("zip", ZipFileLinearIndex.load(zp)),
                ("zipnm", ZipFileLinearIndex.load(zp, use_manifest=False)),
                ("multi", MultiIndex.load([LinearIndex(sigs)], [None], parent="")),
            ]
            res = []
            for kind, base in views:
                v = base.select(ksize=21)
                before_v = sorted(sig_digest(x) for x in v.signatures())
                n_before = len(v)
                for kw in (dict(moltype="protein"), dict(moltype="DNA"), dict(scaled=True), dict(ksize=21), dict(abund=True)):
                    try:
                        w = v.select(**kw)
                        list(w.signatures())
                    except (ValueError, TypeError):
                        pass
                    after_v = sorted(sig_digest(x) for x in v.signatures())
                    if after_v != before_v or len(v) != n_before:
                        raise Differs(f"select({kw}) on a {kind} view changed the view it was called on")
                res.append((kind, n_before))
        finally:
            shutil.rmtree(td, ignore_errors=True)
    elif name == "save":
        res = sigmod.save_signatures_to_json(sigs)
        res2 = [sig_digest(x) for x in sigmod.load_signatures_from_json(res)]
        res = (res, res2)
    elif name in ("search", "searchc", "prefetch", "gather", "manifest", "compare"):
        idx = LinearIndex(db)
        fq = query
        if name == "search":
            with query.update() as fq:
                fq.minhash = fq.minhash.flatten()
            res = [(r.score, sig_digest(r.signature)) for r in idx.search(fq, threshold=0.0)]
        elif name == "searchc":
            with query.update() as fq:
                fq.minhash = fq.minhash.flatten()
            res = [(r.score, sig_digest(r.signature)) for r in idx.search(fq, threshold=0.0, do_containment=True)]
        elif name == "prefetch":
            with query.update() as fq:
                fq.minhash = fq.minhash.flatten()
            res = [(r.score, sig_digest(r.signature)) for r in idx.prefetch(fq, 0)]
        elif name == "gather":
            counters = [idx.counter_gather(query, 0)]
            res = [(g.match.md5sum(), g.intersect_bp, g.f_unique_to_query, g.remaining_bp)
                   for g in GatherDatabases(query, counters, threshold_bp=0)]
        elif name == "manifest":
            mi = MultiIndex.load([idx], [None], parent="")
            held = [sig_digest(s) for s in mi.signatures()]
            fp = io.StringIO()
            mi.manifest.write_to_csv(fp, write_header=True)
            try:
                held2 = [sig_digest(s) for s in mi.signatures()]
                fp2 = io.StringIO()
                mi.manifest.write_to_csv(fp2, write_header=True)
                found = [r.signature.md5sum() for r in mi.search(query, threshold=0.0)] if not query.minhash.track_abundance else []
            except Exception as e:  # noqa: BLE001
                raise Differs(f"collection unusable after manifest export: {type(e).__name__}: {e}")
            if held2 != held or fp2.getvalue() != fp.getvalue():
                raise Differs("manifest export changed the collection")
            res = (fp.getvalue(), held, len(mi.manifest), found)
        else:
            from sourmash.compare import compare_all_pairs
            m = compare_all_pairs(sigs, ignore_abundance=True, downsample=True)
            res = [[float(x).hex() for x in row] for row in m]
    else:
        raise UnknownOp(name)
    after = [sig_digest(s) for s in sigs]
    if before != after:
        raise Differs("a signature passed to `%s` was modified" % name)
    return res



# --------------------------------------------------------------------------------------------
# layers 2 and 3: signature objects (table S) and collection views (table V)

import re
import shutil
import tempfile

NAME_RE = re.compile(r"^[a-z0-9]+$")
SEQ_RE = re.compile(r"^[A-Z]+$")
MOLS = ["DNA", "protein", "dayhoff", "hp"]
KEYS = {"ksize": 0, "moltype": 1, "scaled": 2, "num": 3, "abund": 4, "containment": 5}
TMPDIRS = []


def name_tok(s):
    if s == "-":
        return ""
    if not NAME_RE.match(s):
        raise UnknownOp("name")
    return s


def dash(s):
    return s if s else "-"


def show_sig(ss):
    try:
        mh = ss.minhash
        hs = mh.hashes
        keys = list(hs.keys())
        ab = ",".join(str(hs[k]) for k in keys) if mh.track_abundance else "-"
        return (f"{int(isinstance(ss, FrozenSourmashSignature))}:{dash(ss.name)}:{dash(ss.filename)}:"
                f"{mh.num}:{mh._max_hash}:{','.join(map(str, keys))}:{ab}")
    except Exception as e:  # noqa: BLE001  (an object destroyed by a half-refused mutator)
        return "BROKEN-" + exc_name(e)


def sref(S, obj):
    hs = [h for h in sorted(S) if S[h] is obj]
    return f"s{hs[0]}" if hs else "s?"


def vref(V, obj):
    hs = [h for h in sorted(V) if V[h] is obj]
    return f"v{hs[0]}" if hs else "v?"


def kind_of(v):
    if isinstance(v, LinearIndex):
        return "linear"
    if isinstance(v, LazyLinearIndex):
        return "lazy"
    if isinstance(v, ZipFileLinearIndex):
        return "zipm" if v.manifest is not None else "zipnm"
    if isinstance(v, MultiIndex):
        return "multi"
    if isinstance(v, StandaloneManifestIndex):
        return "standalone"
    if isinstance(v, SBT):
        return "sbtdisk" if getattr(v, "_own_disk", False) else "sbt"
    if isinstance(v, LCA_Database):
        return "lca"
    if isinstance(v, LCA_SqliteDatabase):
        return "lcasql"
    if isinstance(v, SqliteIndex):
        return "sqlite"
    return "?"


def show_sel(d):
    if d is None:
        return "-"
    if not d:
        return "{}"
    items = []
    for k, v in d.items():
        code = KEYS[k]
        if v is None:
            val = "N"
        elif k == "moltype":
            val = str(MOLS.index(v))
        else:
            val = str(int(v))
        items.append((code, val))
    return ",".join(f"{c}:{v}" for c, v in sorted(items))


def show_picks(pls):
    return "".join("(" + "+".join(sorted(pl.pickset)) + ")" for pl in pls)


def show_sigs(v):
    try:
        return "[" + "/".join(sorted(show_sig(x) for x in v.signatures())) + "]"
    except Exception as e:  # noqa: BLE001
        return "!" + exc_name(e)


def sbt_members(t):
    return [leaf.data for leaf in t.leaves()]


def show_view(v, S, V, rownum):
    """never raises: a collection damaged by an earlier call shows as `!<exception>` in the part that cannot be read"""
    try:
        return show_view_(v, S, V, rownum)
    except Exception as e:  # noqa: BLE001
        return kind_of(v) + ";!" + exc_name(e) + ";" + show_sigs(v)


ALL_TMP = []          # every temporary directory of the current case, in creation order
LOCNUM = {"dirs": [], "md5s": []}


def loc_reset():
    LOCNUM["dirs"], LOCNUM["md5s"] = [], []


def loc_dir(x):
    for td in ALL_TMP:
        if x == td or x.startswith(td + os.sep):
            return td
    return None


def loc_note(x):
    """first pass of a dump: number temporary directories / md5-named members by first appearance"""
    if not isinstance(x, str):
        return
    td = loc_dir(x)
    if td is not None:
        if td not in LOCNUM["dirs"]:
            LOCNUM["dirs"].append(td)
    elif re.match(r"^signatures/.*\.sig(\.gz)?$", x):
        if x not in LOCNUM["md5s"]:
            LOCNUM["md5s"].append(x)


def show_loc(x):
    """a location up to the names of temporary directories: `T<k>[/<i>.sig]`, `M<k>` for `signatures/<md5>.sig.gz`"""
    if x is None:
        return "-"
    x = str(x)
    td = loc_dir(x)
    if td is not None:
        k = LOCNUM["dirs"].index(td) if td in LOCNUM["dirs"] else "?"
        base = os.path.basename(x)
        return f"T{k}/{int(base[:-4])}.sig" if re.match(r"^\d+\.sig$", base) else f"T{k}"
    if re.match(r"^signatures/.*\.sig(\.gz)?$", x):
        return f"M{LOCNUM['md5s'].index(x)}" if x in LOCNUM["md5s"] else "M?"
    m = re.match(r"^(.*/)?(\d+)\.sig$", x)
    if m:
        return (m.group(1) or "") + str(int(m.group(2))) + ".sig"
    return x


def show_view_(v, S, V, rownum):
    k = kind_of(v)
    if k == "linear":
        own = "m=" + ",".join(sref(S, x) for x in v._signatures)
    elif k == "sbt":
        own = "m=" + ",".join(sorted(sref(S, x) for x in sbt_members(v))) + ";p=" + show_picks(v.picklists)
    elif k == "lazy":
        own = "db=" + vref(V, v.db) + ";sel=" + show_sel(v.selection_dict)
    elif k == "zipnm":
        own = "sel=" + show_sel(v.selection_dict)
    elif k in ("sqlite", "lcasql"):
        own = "sel=" + show_sel(v.manifest.selection_dict)
    elif k == "sbtdisk":
        own = "p=" + show_picks(v.picklists)
    elif k in ("zipm", "multi", "standalone"):
        items = []
        for row in v.manifest.rows:
            sg = row.get("signature")
            items.append(f"R{rownum[id(row)]}({len(row)}.{dash(row['name'])}.{dash(row['filename'])}."
                         f"{row['n_hashes']}.{int(bool(row['with_abundance']))}.{'-' if sg is None else sref(S, sg)}."
                         f"{show_loc(row['internal_location'])})")
        own = "rows=" + ",".join(items)
        if k == "multi":
            own = f"pre={int(bool(v.prepend_location))};" + own
    elif k == "lca":
        own = f"n={len(v)};p=" + show_picks(v.picklists)
    else:
        own = "?"
    return k + ";loc=" + show_loc(v.location) + ";" + own + ";" + show_answers(v, S) + ";" + show_sigs(v)


def probe_of(S):
    """the probe query of the dump: the signature with the lowest handle that is flat, scaled and readable"""
    for h in sorted(S):
        try:
            mh = S[h].minhash
            if mh.scaled and not mh.track_abundance:
                return S[h]
        except Exception:  # noqa: BLE001
            continue
    return None


def show_answers(v, S):
    """what the collection ANSWERS beyond signatures(): len(), manifest membership of every signature of the world,
    and a containment search with the probe query -- so that hidden indices / caches (manifest._md5_set, LCA / SBT
    tables, node caches, sqlite row counts) show up as soon as they change an answer"""
    try:
        n = str(len(v))
    except Exception as e:  # noqa: BLE001
        n = "!" + exc_name(e)
    m = getattr(v, "manifest", None)
    if m is None:
        member = "-"
    else:
        bits = []
        for h in sorted(S):
            try:
                bits.append("1" if S[h] in m else "0")
            except Exception:  # noqa: BLE001
                bits.append("x")
        member = "".join(bits) or "."
    q = probe_of(S)
    if q is None:
        found = "-"
    else:
        try:
            got = list(v.signatures())
            if any(x.minhash._max_hash != q.minhash._max_hash or x.minhash.num for x in got):
                found = "?"          # mixed resolutions: outside what the dump's model of `find` covers
            elif kind_of(v) == "sbt" and any(leaf.name != leaf.data.md5sum() for leaf in v.leaves()):
                found = "~"          # a referenced member got other hashes after insertion: the inner nodes are stale (C15.4)
            else:
                found = "+".join(sorted(dash(r.signature.name) + "@" + show_loc(r.location)
                                        for r in v.search(q, threshold=0.0, do_containment=True))) or "."
        except Exception as e:  # noqa: BLE001
            found = "!" + exc_name(e)
    try:
        locs = "+".join(sorted(dash(x.name) + "@" + show_loc(loc) for x, loc in v.signatures_with_location())) or "."
    except Exception as e:  # noqa: BLE001
        locs = "!" + exc_name(e)
    return f"n={n};in={member};f={found};L={locs}"


def world(T, S, V):
    out = []
    if T:
        out.append(heap(T))
    for h in sorted(S):
        cls = min(g for g in S if S[g] is S[h])
        out.append(f"s{h}@{cls}={show_sig(S[h])}")
    rownum = {}
    loc_reset()
    for h in sorted(V):
        try:
            loc_note(V[h].location)
        except Exception:  # noqa: BLE001
            pass
        m = getattr(V[h], "manifest", None)
        if m is not None and kind_of(V[h]) in ("zipm", "multi", "standalone"):
            for row in m.rows:
                rownum.setdefault(id(row), len(rownum))
                loc_note(row.get("internal_location"))
    for h in sorted(V):
        cls = min(g for g in V if V[g] is V[h])
        out.append(f"v{h}@{cls}={show_view(V[h], S, V, rownum)}")
    return " ".join(out)


def agreement(T, S, V):
    """what can be read about an object through two routes must agree (asserted after EVERY op)"""
    try:
        for h in sorted(T):
            mh = T[h]
            hs = mh.hashes
            keys = list(hs.keys())
            if not (len(mh) == len(hs) == len(keys) == len(list(iter(hs)))):
                return f"len:{h}"
            if keys != sorted(keys) or keys != list(mh.get_mins()):
                return f"mins:{h}"
            if mh.track_abundance and dict(mh.get_mins(with_abundance=True)) != dict(hs):
                return f"abund:{h}"
            if bool(mh) != (len(keys) > 0):
                return f"bool:{h}"
        for h in sorted(S):
            ss = S[h]
            try:
                mh = ss.minhash
            except Exception:  # noqa: BLE001
                continue
            from sourmash.utils import decode_str
            from sourmash._lowlevel import lib as _lib
            if ss.md5sum() != decode_str(mh._methodcall(_lib.kmerminhash_md5sum)) or hash(ss) != hash(ss.md5sum()) or len(ss) != 1:
                return f"sig:{h}"
            if str(ss) != (ss.name or ss.filename or ss.md5sum()[:8]) or ss._name != ss.name:
                return f"signame:{h}"
        for h in sorted(V):
            v = V[h]
            k = kind_of(v)
            try:
                sigs = list(v.signatures())
            except Exception:  # noqa: BLE001
                continue
            try:
                withloc = list(v.signatures_with_location())
            except Exception:  # noqa: BLE001   (a MultiIndex with prepend_location over rows without a location: TypeError, in the dump)
                withloc = None
            if withloc is not None and sorted(sig_digest(x) for x in sigs) != sorted(sig_digest(x) for x, _ in withloc):
                return f"swl:v{h}"
            if k in ("linear", "lazy", "zipnm", "zipm", "multi", "standalone", "sqlite", "lcasql"):
                if len(v) != len(sigs):
                    return f"len:v{h}"
            if k in ("linear", "lazy", "zipnm", "zipm", "multi", "standalone", "sqlite", "lcasql", "sbt", "sbtdisk", "lca"):
                if bool(v) != (len(sigs) > 0) and k not in ("sbt", "sbtdisk", "lca"):
                    return f"bool:v{h}"
            m = getattr(v, "manifest", None)
            if m is not None and k in ("zipm", "standalone", "sqlite", "lcasql"):
                rows = sorted((r["md5"], r["name"] or "", int(r["n_hashes"]), bool(r["with_abundance"]), int(r["scaled"]), int(r["num"]))
                              for r in m.rows)
                have = sorted((x.md5sum(), x.name or "", len(x.minhash), bool(x.minhash.track_abundance), int(x.minhash.scaled),
                               int(x.minhash.num)) for x in sigs)
                if rows != have:
                    return f"rows:v{h}"
            if m is not None and k == "multi":
                for r in m.rows:
                    sg = r.get("signature")
                    # (a row made from a signature that was MUTABLE then may legitimately be stale: the caller renamed his object)
                    if sg is not None and REF_MODE.setdefault(("row", id(r)), isinstance(sg, sigmod.FrozenSourmashSignature)):
                        if r["md5"] != sg.md5sum() or (r["name"] or "") != (sg.name or "") or int(r["n_hashes"]) != len(sg.minhash):
                            return f"row-vs-sig:v{h}"
        return "ok"
    except Exception as e:  # noqa: BLE001
        return "exc:" + type(e).__name__


def mins_of(ss):
    return tuple(ss.minhash.hashes.keys())


def uniform_scaled(mx, sigs):
    return all(x.minhash.num == 0 and x.minhash._max_hash == mx and mx != 0 for x in sigs)


def new_tmp():
    base = os.environ.get("VERIF_TMP") or None
    td = tempfile.mkdtemp(prefix="own_", dir=base)
    TMPDIRS.append(td)
    ALL_TMP.append(td)
    return td


def drop_tmp():
    del ALL_TMP[:]
    while TMPDIRS:
        shutil.rmtree(TMPDIRS.pop(), ignore_errors=True)


def parse_kw(tokens):
    kw = {}
    for t in tokens:
        if t.count("=") != 1:
            raise UnknownOp("kw")
        k, v = t.split("=")
        if k not in KEYS or k in kw:
            raise UnknownOp("kw")
        if v == "N":
            kw[k] = None
            continue
        if not v.isdigit():
            raise UnknownOp("kw")
        n = int(v)
        if k == "moltype":
            if n >= 4:
                raise UnknownOp("kw")
            kw[k] = MOLS[n]
        elif k in ("abund", "containment"):
            if n >= 2:
                raise UnknownOp("kw")
            kw[k] = bool(n)
        else:
            kw[k] = n
    return kw


def twice(fn):
    """run a read-only call twice; -> 'ok' | 'err RepeatDiffers' (a consistent refusal is not C15's business)"""
    try:
        r1 = canon(fn())
    except Differs:
        return "err InputModified"
    except ViewChanged:
        return "err ViewChanged"
    except Exception as e1:  # noqa: BLE001
        try:
            fn()
            return "err RepeatDiffers"
        except Differs:
            return "err InputModified"
        except Exception as e2:  # noqa: BLE001
            return "ok" if type(e1) is type(e2) else "err RepeatDiffers"
    try:
        r2 = canon(fn())
    except ViewChanged:
        return "err ViewChanged"
    except Exception:  # noqa: BLE001
        return "err RepeatDiffers"
    return "ok" if r1 == r2 else "err RepeatDiffers"


def sig_ro(name, sigs):
    a = sigs[0]
    b = sigs[1] if len(sigs) > 1 else sigs[0]
    if name == "md5":
        return a.md5sum(), str(a), repr(a), len(a), hash(a)
    if name == "eq":
        return a == b, a != b
    if name == "sim":
        return a.similarity(b, downsample=True), a.jaccard(b), a.contained_by(b, downsample=True), a.max_containment(b, downsample=True)
    if name == "anis":
        return (str(a.jaccard_ani(b, downsample=True)), str(a.containment_ani(b, downsample=True)),
                str(a.max_containment_ani(b, downsample=True)), a.avg_containment(b, downsample=True),
                str(a.avg_containment_ani(b, downsample=True)), a.license, a._name, len(a), a != b)
    if name == "save":
        js = sigmod.save_signatures_to_json(sigs)
        return js, [sig_digest(x) for x in sigmod.load_signatures_from_json(js)]
    if name == "pickle":
        return [sig_digest(pickle.loads(pickle.dumps(x))) for x in sigs]
    if name == "copies":
        return [(sig_digest(x.to_mutable()), sig_digest(x.to_frozen()), sig_digest(x.copy())) for x in sigs]
    if name == "mhmut":
        # the sketch handed out by .minhash is a private clone: whatever is done with a mutable copy of it stays outside
        out = []
        for x in sigs:
            m = x.minhash.to_mutable()
            m.add_hash(7)
            m.clear()
            out.append(sig_digest(x))
        return out
    if name == "insertinto":
        # putting a signature INTO a collection / a manifest / a saver is a read-only call on the signature
        import tempfile as _tf
        out = []
        td = new_tmp()
        SAVE_N[0] += 1
        from sourmash.save_load import SaveSignaturesToLocation as _S
        for kind in ("linear", "sbt", "lca", "sqlite", "manifest", "zip", "sqldb", "sig"):
            try:
                if kind == "linear":
                    c = LinearIndex()
                    for x in sigs:
                        c.insert(x)
                    res = len(c)
                elif kind == "sbt":
                    c = create_sbt_index()
                    for x in sigs:
                        c.insert(x)
                    res = len(list(c.signatures()))
                elif kind == "lca":
                    c = LCA_Database(21, sigs[0].minhash.scaled or 1, "DNA")
                    res = [c.insert(x, ident=f"i{n}") for n, x in enumerate(sigs)]
                elif kind == "sqlite":
                    c = SqliteIndex.create(os.path.join(td, f"i{SAVE_N[0]}.sqldb"))
                    SAVE_N[0] += 1
                    for x in sigs:
                        c.insert(x)
                    res = len(c)
                elif kind == "manifest":
                    c = CollectionManifest.create_manifest((x, "loc") for x in sigs)
                    res = len(c)
                else:
                    loc = os.path.join(td, f"i{SAVE_N[0]}." + kind)
                    SAVE_N[0] += 1
                    with _S(loc) as sv:
                        for x in sigs:
                            sv.add(x)
                    res = len(sv)
            except Exception as e:  # noqa: BLE001   (a refusal is fine, it must be repeatable)
                res = "exc:" + type(e).__name__
            out.append((kind, res))
        return out
    if name == "compare":
        from sourmash.compare import compare_all_pairs
        m = compare_all_pairs(sigs, ignore_abundance=True, downsample=True)
        return [[float(x).hex() for x in row] for row in m]
    raise UnknownOp(name)


def view_ro(name, v, qs):
    q = qs[0] if qs else None
    if name == "sigs":
        return sorted(sig_digest(x) for x in v.signatures()), len(v), bool(v)
    if name == "locs":
        return sorted((sig_digest(x), str(loc)) for x, loc in v.signatures_with_location())
    if name == "manifest":
        fp = io.StringIO()
        v.manifest.write_to_csv(fp, write_header=True)
        return fp.getvalue(), len(v.manifest), bool(v.manifest), sorted(map(str, v.manifest.locations()))
    if name == "picklist":
        pl = v.manifest.to_picklist()
        return sorted(map(str, pl.pickset))
    if q is None:
        raise UnknownOp("query")
    if name == "cgather" and False:
        pass
    if name == "cgather":
        # CounterGather built FROM the view (counter_gather = prefetch + add), driven by hand, then the source view again
        before = observe(v, q)
        cg = v.counter_gather(q, 0)
        cur = q.minhash.flatten() if q.minhash.track_abundance else q.minhash
        steps = []
        for _ in range(4):
            res = cg.peek(cur)
            if not res:
                break
            sr, inter = res
            steps.append((sr.score, sig_digest(sr.signature), show_loc(sr.location), len(inter)))
            cg.consume(inter)
            cur = cur.to_mutable()
            cur.remove_many(inter)
        held = sorted(sig_digest(x) for x in cg.signatures())
        uf = cg.union_found
        keep("CounterGather", cg, lambda c: sorted(dig_sig_ref(x) for x in c.signatures()))
        steps.append(cell(uf))
        for _ in range(2):
            if observe(v, q) != before:
                raise ViewChanged("after counter_gather / peek / consume")
        return steps, held
    if name == "interleave":
        # a search generator that is only partly consumed must not disturb another search on the same collection
        # (nor on the collection it was selected from): hidden cursor / cache state
        q2 = qs[1] if len(qs) > 1 else q
        def names(it):
            return [(r.score, sig_digest(r.signature)) for r in it]
        ref1, ref2 = names(v.prefetch(q, 0)), names(v.prefetch(q2, 0))
        g = v.prefetch(q, 0)
        head = names([next(g)]) if ref1 else []
        try:
            mid = names(v.prefetch(q2, 0))
            mid_child = names(v.select(ksize=21).prefetch(q2, 0))
            rest = names(g)
        except Exception as e:  # noqa: BLE001
            raise Differs(f"interleaved search: {type(e).__name__}: {e}")
        if head + rest != ref1 or mid != ref2 or sorted(mid_child) != sorted(ref2):
            raise Differs("interleaved search gave other results")
        return ref1, ref2
    if name == "searchab":
        got = v.search_abund(q, threshold=0.0)
        keep("search_abund", got, dig_results)
        return dig_results(got)
    if name in ("results", "results2"):
        # the result classes the commands build on top of search / prefetch / gather (each part on its own: a refusal of one
        # -- an abundance query, an incompatible sketch -- must not hide the others)
        from sourmash.search import (search_databases_with_flat_query, search_databases_with_abund_query, prefetch_database)
        out = []
        dig_sr = lambda lst: [(sorted((k, str(x)) for k, x in r.resultdict.items()), r.score) for r in lst]
        dig_pr = lambda lst: [sorted((k, str(x)) for k, x in r.prefetchresultdict.items()) for r in lst]
        # (reading `prefetchresultdict` of a GatherResult shortens its `md5` in place, so `gatherresultdict` reads differently
        #  afterwards: finding C15.5.  `results` reads the gather columns only; `results2` -- corpus -- reads both.)
        if name == "results2":
            dig_gr = lambda lst: [(sorted((k, str(x)) for k, x in r.gatherresultdict.items()),
                                   sorted((k, str(x)) for k, x in r.prefetchresultdict.items())) for r in lst]
        else:
            dig_gr = lambda lst: [sorted((k, str(x)) for k, x in r.gatherresultdict.items()) for r in lst]

        def part(label, make, dig):
            try:
                got = make()
                keep(label, got, dig)
                d = dig(got)
                if got and hasattr(got[0], "init_dictwriter"):
                    fp = io.StringIO()
                    w = got[0].init_dictwriter(fp)
                    for r in got:
                        r.write(w)
                    d = (d, fp.getvalue())
                out.append(d)
            except Exception as e:  # noqa: BLE001
                out.append("exc:" + type(e).__name__)

        fq = q.to_frozen()
        if q.minhash.track_abundance:
            part("SearchResult", lambda: search_databases_with_abund_query(q, [v], threshold=0.0), dig_sr)
            with fq.update() as fq2:
                fq2.minhash = fq2.minhash.flatten()
            fq = fq2
        part("SearchResult", lambda: search_databases_with_flat_query(fq, [v], threshold=0.0, do_containment=True), dig_sr)
        part("SearchResult", lambda: search_databases_with_flat_query(fq, [v], threshold=0.0), dig_sr)
        part("PrefetchResult", lambda: list(prefetch_database(fq, v, 0)), dig_pr)
        part("GatherResult", lambda: list(GatherDatabases(q, [v.counter_gather(q, 0)], threshold_bp=0)), dig_gr)
        return out
    if name == "search":
        got = v.search(q, threshold=0.0) if route(2) else list(v.find(make_jaccard(), q))
        keep("search", got, dig_results)
        return sorted((r.score, sig_digest(r.signature)) for r in got)
    if name == "searchc":
        return [(r.score, sig_digest(r.signature)) for r in v.search(q, threshold=0.0, do_containment=True)]
    if name == "prefetch":
        got = list(v.prefetch(q, 0))
        keep("prefetch", got, dig_results)
        return sorted((r.score, sig_digest(r.signature)) for r in got)
    if name == "best":
        r = v.best_containment(q, threshold_bp=0)
        return None if r is None else (r.score, sig_digest(r.signature))
    if name == "gather":
        counters = [v.counter_gather(q, 0)]
        return [(g.match.md5sum(), g.intersect_bp, g.f_unique_to_query, g.remaining_bp)
                for g in GatherDatabases(q, counters, threshold_bp=0)]
    if name == "gatheri":
        # gather without prefetch: the index itself plays the counter
        return [(g.match.md5sum(), g.intersect_bp, g.remaining_bp) for g in GatherDatabases(q, [v], threshold_bp=0)]
    raise UnknownOp(name)


# op -> (number of fixed arguments, index of the first non-handle fixed argument or None, variadic handles?)
SYNTAX = {
    "snew": "hhnn", "smh": "hh", "ssetmh": "hh", "sname": "hn", "sfile": "hn", "saddseq": "hbq", "saddprot": "hq",
    "ssetstate": "hhnn", "sintofrozen": "h", "stomut": "hh", "stofrozen": "hh", "scopy": "hh", "spickle": "hh",
    "supdflat": "hh", "supdname": "hhn", "sgatherinit": "hh", "scg": "hh*", "sro": "w*", "vlinear": "h*",
    "vlazy": "hh", "vzip": "hb*", "vstandalone": "h*", "vmulti": "h*", "vsbt": "h*", "vlca": "h*", "vinsert": "hh",
    "vsel": "hhK", "vselpick": "hhN", "vget": "hhh", "vro": "wh*", "vsbtload": "hhh*", "vsqlite": "h*", "vlcaload": "hh*", "vmf": "whh*", "vzipg": "hbh*", "vmultiof": "hbX", "vfrom": "hhh", "vstandof": "hh", "vmpath": "hhh",
}


def check_syntax(op, a):
    """same well-formedness as the model's parser: anything else is `bad-op` on both sides"""
    pat = SYNTAX[op]
    fixed = pat.rstrip("*KNX")
    tail = pat[len(fixed):]
    if len(a) < len(fixed) or (not tail and len(a) != len(fixed)):
        raise UnknownOp("arity")
    for c, x in zip(fixed, a):
        if c == "h" and not x.isdigit():
            raise UnknownOp("handle")
        if c == "b" and x not in ("0", "1"):
            raise UnknownOp("flag")
        if c == "n":
            name_tok(x)
        if c == "q" and not SEQ_RE.match(x):
            raise UnknownOp("seq")
    rest = a[len(fixed):]
    if tail == "*" and not all(x.isdigit() for x in rest):
        raise UnknownOp("handle")
    if tail == "N":
        for x in rest:
            name_tok(x)
    if tail == "K":
        parse_kw(rest)


SAVE_N = [0]
SAVES = ("save", "savefs", "savesig", "saveto0", "saveto1", "saveto2", "saveto3", "lcasave0", "lcasave1", "mfsave0", "mfsave1")


def inner_state(v):
    """the in-memory tables of the two collections that keep their own: an LCA_Database (values AND container types: a
    set turned into a list answers the same but breaks the next insert) and an SBT (where every node lives)"""
    if isinstance(v, LCA_Database):
        return ("lca",
                sorted((k, type(x).__name__, tuple(sorted(x))) for k, x in v._hashval_to_idx.items()),
                type(v._hashval_to_idx).__name__,
                sorted(v._ident_to_name.items()), sorted(v._ident_to_idx.items()), sorted(v._idx_to_lid.items()),
                v._next_index, v._next_lid, v.scaled, v.ksize, v.moltype, len(v.picklists))
    if isinstance(v, SBT):
        return ("sbt", sorted((pos, type(n).__name__, n._path, type(n.storage).__name__,
                               sorted((k, str(x)) for k, x in n.metadata.items()) if isinstance(n.metadata, dict) else "-")
                              for pos, n in v if n is not None),
                type(v.storage).__name__, len(v.picklists), v.next_node)
    return None


def observe(v, q, inner=True):
    """what a collection answers: its signatures, its size, and a containment search with q (when q is a flat scaled query)"""
    sigs = sorted(sig_digest(x) for x in v.signatures())
    n = (len(v), inner_state(v) if inner else None)
    found = None
    if q is not None and not q.minhash.track_abundance and q.minhash.scaled:
        try:
            found = sorted((r.score, sig_digest(r.signature)) for r in v.search(q, threshold=0.0, do_containment=True))
        except Exception as e:  # noqa: BLE001
            found = "exc:" + type(e).__name__
    return sigs, n, found


def do_save(name, v, td):
    SAVE_N[0] += 1
    base = os.path.join(td, f"out{SAVE_N[0]}")
    if name == "save":          # SBT: zip storage
        return v.save(base + ".sbt.zip")
    if name == "savefs":        # SBT: .sbt.json + hidden directory (FSStorage)
        return v.save(base + ".sbt.json")
    if name == "savesig":       # LinearIndex.save
        return v.save(base + ".sig")
    if name.startswith("saveto"):
        from sourmash.sourmash_args import SaveSignaturesToLocation
        loc = base + [".zip", ".sig", "/", ".sqldb"][int(name[-1])]
        with SaveSignaturesToLocation(loc) as sv:
            for x in v.signatures():
                sv.add(x)
        return len(sv)
    if name.startswith("lcasave"):
        fmt = ["json", "sql"][int(name[-1])]
        return v.save(base + (".lca.json" if fmt == "json" else ".lca.sqldb"), format=fmt)
    if name.startswith("mfsave"):
        fmt = ["csv", "sql"][int(name[-1])]
        return v.manifest.write_to_filename(base + (".csv" if fmt == "csv" else ".mf.sqlmf"), database_format=fmt)
    raise UnknownOp(name)


def view_save(name, v, qs):
    """a save is a read-only call on the collection it is given: same answers before and (twice) after"""
    q = qs[0] if qs else None
    before = observe(v, q)
    td = new_tmp()
    do_save(name, v, td)
    for _ in range(2):
        try:
            after = observe(v, q)
        except Exception as e:  # noqa: BLE001
            raise ViewChanged(f"after {name}: {type(e).__name__}: {e}")
        if after != before:
            raise ViewChanged(f"after {name}")
    return before


MF_OPS = ("add", "eq", "in", "select", "filter", "misc", "combine", "wrap", "getmf", "iadd", "helpers")


def make_jaccard():
    from sourmash.search import make_jaccard_search_query
    return make_jaccard_search_query(threshold=0.0)



def two_views_ro(name, va, vb, sigs):
    """read-only calls that take the COLLECTIONS themselves as input; both must answer the same afterwards (twice)"""
    q = sigs[0] if sigs else None
    # (combine: answers only.  The combined tree holds SHALLOW copies of the other tree's nodes, so a later insert lowers
    #  `min_n_below` / adds Bloom bits in nodes both trees share -- a conservative change of pruning data, observation C15.6)
    inner = name != "combine"
    before = (observe(va, q, inner), observe(vb, q, inner))
    if name == "combine":
        # SBT.combine(other): merges `other` into a FRESH tree built from va's signatures; vb (and va) are only read
        t = create_sbt_index()
        for x in va.signatures():
            t.insert(x)
        t.combine(vb)
        res = sorted(sig_digest(x) for x in t.signatures())
        for x in sigs:
            t.insert(x)            # growing the combined tree afterwards must not reach into vb's nodes
        res = (res, sorted(sig_digest(x) for x in t.signatures()))
    elif name == "wrap":
        # index objects constructed AROUND a live manifest object
        from sourmash.sourmash_args import get_manifest
        m = va.manifest
        w1 = StandaloneManifestIndex(m, "wrapped", prefix="")
        w2 = w1.select(abund=True)
        res = [len(w1), len(w2), mf_rows(w2.manifest), mf_rows(CollectionManifest.load_from_manifest(m))]
        if isinstance(va, ZipFileLinearIndex):
            z = ZipFileLinearIndex(va.storage, manifest=m, use_manifest=True)
            res.append(sorted(sig_digest(x) for x in z.select(ksize=21).signatures()))
    elif name == "helpers":
        # the helper functions the `sig fileinfo / check / collect / extract / grep` commands call on a loaded collection
        from sourmash import sourmash_args as sa
        from sourmash.sig.__main__ import _summarize_manifest
        res = []
        for x in (va, vb):
            inplace = kind_of(x) in ("sbt", "sbtdisk", "lca")
            m = sa.get_manifest(x, require=False, rebuild=False)
            res.append(None if m is None else sorted(map(str, _summarize_manifest(m)["sketch_info"])))
            m2 = sa.get_manifest(x, require=False, rebuild=True)
            res.append(None if m2 is None else (_summarize_manifest(m2)["total_hashes"], len(m2)))
            if not inplace:                      # (on SBT / LCA_Database select narrows in place, by design)
                pl = SignaturePicklist("name")
                pl.init(["a", "b"])
                y = sa.apply_picklist_and_pattern(x, pl, None)
                res.append(sorted(sig_digest(z) for z in y.signatures()))
                if getattr(x, "manifest", None) is not None:
                    y2 = sa.apply_picklist_and_pattern(x, None, lambda vals: any("a" in str(t) for t in vals))
                    res.append(sorted(sig_digest(z) for z in y2.signatures()))
    elif name == "getmf":
        from sourmash.sourmash_args import get_manifest
        res = [mf_rows(get_manifest(x, require=False, rebuild=rb)) if get_manifest(x, require=False, rebuild=rb) is not None else None
               for x in (va, vb) for rb in (False, True)]
    else:
        raise UnknownOp(name)
    for _ in range(2):
        if (observe(va, q, inner), observe(vb, q, inner)) != before:
            raise ViewChanged(name)
    return res



def row_key(row):
    return tuple((k, str(row.get(k))) for k in sorted(CollectionManifest.required_keys))


def mf_rows(m):
    return [row_key(r) for r in m.rows]


def manifest_ro(name, a, b, sigs):
    """read-only calls on manifests a (receiver) and b"""
    if name == "add":
        x, y, z = a + b, b + a, a + a
        keep("manifest-sum", x, mf_rows)
        return mf_rows(x), mf_rows(y), mf_rows(z), len(x), len(y), len(z)
    if name == "iadd":
        # `+=` / add_row on a FRESH manifest built from a's rows: a and b themselves are only read
        m = CollectionManifest(a.rows)
        m += b
        for r in list(b.rows)[:1]:
            m.add_row(r)
        keep("manifest-iadd", m, mf_rows)
        return mf_rows(m), len(m), mf_rows(a), mf_rows(b)
    if name == "eq":
        return a == b, b == a, a == a, bool(a), bool(b)
    if name == "in":
        return [(x in a, x in b) for x in sigs]
    if name == "select":
        out = []
        for kw in (dict(ksize=21), dict(ksize=31), dict(abund=True), dict(scaled=1), dict(moltype="DNA"), dict(moltype="protein"),
                   dict(containment=True, scaled=1)):
            try:
                out.append(mf_rows(a.select_to_manifest(**kw)))
            except Exception as e:  # noqa: BLE001
                out.append("exc:" + type(e).__name__)
        if hasattr(a, "_select"):
            try:
                out.append([row_key(r) for r in a._select(abund=True)])
            except Exception as e:  # noqa: BLE001
                out.append("exc:" + type(e).__name__)
        return out
    if name == "filter":
        f1 = a.filter_rows(lambda row: bool(row["with_abundance"]))
        f2 = a.filter_on_columns(lambda vals: any("a" in str(x) for x in vals), ["name", "filename"])
        return mf_rows(f1), mf_rows(f2)
    if name == "misc":
        fp, fp2 = io.StringIO(), io.StringIO()
        a.write_to_csv(fp, write_header=True)
        a.write_to_csv(fp2, write_header=True)
        return (sorted(map(str, a.to_picklist().pickset)), list(map(str, a.locations())), len(a), bool(a),
                mf_rows(type(a).load_from_manifest(a)) if isinstance(a, CollectionManifest) else None,
                mf_rows(a), [row_key(r) for r in a.rows], fp.getvalue(), fp2.getvalue() == fp.getvalue())
    raise UnknownOp(name)


ORDERED = ("linear", "lazy", "multi", "zipnm", "zipm", "standalone", "sqlite")


def bound(S, x):
    return any(x is y for y in S.values())


def has_private(v, S):
    """the collection holds signature objects that are not in the table (private copies read from disk)"""
    if isinstance(v, LinearIndex):
        return any(not bound(S, x) for x in v._signatures)
    if isinstance(v, MultiIndex):
        return any(r.get("signature") is not None and not bound(S, r["signature"]) for r in v.manifest.rows)
    if isinstance(v, LazyLinearIndex):
        return has_private(v.db, S)
    return False


def obj_op(op, a, T, S, V):
    """layers 2 and 3; returns the result string; raises UnknownOp/KeyError for bad-op"""
    i = int
    check_syntax(op, a)
    if op == "snew":
        mh_, nm_, fn_ = T[i(a[1])], name_tok(a[2]), name_tok(a[3])
        k = route(3)
        if k == 0:
            x = SourmashSignature(mh_, name=nm_, filename=fn_)
        elif k == 1:
            x = SourmashSignature(mh_, nm_, fn_)
        else:
            x = SourmashSignature(mh_)
            if nm_:
                x.name = nm_
            if fn_:
                x.filename = fn_
        S[i(a[0])] = x
    elif op == "smh":
        T[i(a[0])] = S[i(a[1])].minhash
    elif op == "ssetmh":
        mh = T[i(a[1])]
        S[i(a[0])].minhash = mh
    elif op == "sname":
        x = name_tok(a[1])
        if route(2):
            S[i(a[0])].name = x
        else:
            S[i(a[0])]._name = x
    elif op == "sfile":
        x = name_tok(a[1])
        S[i(a[0])].filename = x
    elif op == "saddseq":
        if a[1] not in ("0", "1") or not SEQ_RE.match(a[2]):
            raise UnknownOp("seq")
        if route(2):
            S[i(a[0])].add_sequence(a[2], bool(i(a[1])))
        else:
            S[i(a[0])].add_sequence(a[2], force=bool(i(a[1])))
    elif op == "saddprot":
        if not SEQ_RE.match(a[1]):
            raise UnknownOp("seq")
        S[i(a[0])].add_protein(a[1])
    elif op == "ssetstate":
        ss, mh, nm, fn = S[i(a[0])], T[i(a[1])], name_tok(a[2]), name_tok(a[3])
        ss.__setstate__((mh, nm, fn))
    elif op == "sintofrozen":
        S[i(a[0])].into_frozen()
    elif op == "stomut":
        x = S[i(a[1])].to_mutable(); S[i(a[0])] = x
    elif op == "stofrozen":
        x = S[i(a[1])].to_frozen(); S[i(a[0])] = x
    elif op == "scopy":
        import copy as _copy
        src = S[i(a[1])]
        k = route(3)
        x = src.copy() if k == 0 else (_copy.copy(src) if k == 1 else src.__copy__())
        S[i(a[0])] = x
    elif op == "spickle":
        import copy as _copy
        src = S[i(a[1])]
        k = route(3)
        x = pickle.loads(pickle.dumps(src)) if k == 0 else (_copy.deepcopy(src) if k == 1 else pickle.loads(pickle.dumps(src, 2)))
        S[i(a[0])] = x
    elif op == "supdflat":
        src = S[i(a[1])]
        with src.update() as q:
            q.minhash = q.minhash.flatten()
        S[i(a[0])] = q
    elif op == "supdname":
        src, x = S[i(a[1])], name_tok(a[2])
        with src.update() as q:
            q.name = x
        S[i(a[0])] = q
    elif op == "sgatherinit":
        src = S[i(a[1])]
        gd = GatherDatabases(src, [])
        if gd.orig_query is not src:
            raise Differs("orig_query")
        S[i(a[0])] = gd.query
    elif op == "scg":
        src = S[i(a[1])]
        ds = [S[i(h)] for h in a[2:]]
        if src.minhash.num != 0 or not uniform_scaled(src.minhash._max_hash, ds):
            raise UnknownOp("domain")
        cg = LinearIndex(ds).counter_gather(src, 0)
        T[i(a[0])] = cg.orig_query_mh
    elif op == "sro":
        sigs = [S[i(h)] for h in a[1:]]
        if not sigs:
            raise UnknownOp("no operands")
        if a[0] not in ("md5", "eq", "sim", "save", "pickle", "copies", "mhmut", "compare", "insertinto", "anis"):
            raise UnknownOp(a[0])
        return twice(lambda: sig_ro(a[0], sigs))
    elif op == "vlinear":
        members = [S[i(h)] for h in a[1:]]
        k = route(3)
        if k == 0:
            x = LinearIndex(members)
        elif k == 1:
            x = LinearIndex(iter(members))
        else:
            x = LinearIndex()
            for m_ in members:
                x.insert(m_)
        V[i(a[0])] = x
    elif op == "vlazy":
        db = V[i(a[1])]
        if not isinstance(db, LinearIndex) or not all(any(x is y for y in S.values()) for x in db._signatures):
            raise UnknownOp("domain")
        V[i(a[0])] = LazyLinearIndex(db)
    elif op in ("vzip", "vstandalone"):
        if op == "vzip":
            if a[1] not in ("0", "1"):
                raise UnknownOp("flag")
            hs = a[2:]
        else:
            hs = a[1:]
        sigs = [S[i(h)] for h in hs]
        if not sigs or len({mins_of(x) for x in sigs}) != len(sigs):
            raise UnknownOp("domain")
        td = new_tmp()
        if op == "vzip":
            from sourmash.sourmash_args import SaveSignaturesToLocation
            zp = os.path.join(td, "c.zip")
            with SaveSignaturesToLocation(zp) as sv:
                for x in sigs:
                    sv.add(x)
            V[i(a[0])] = ZipFileLinearIndex.load(zp, use_manifest=bool(i(a[1])))
        else:
            locs = []
            for n, x in enumerate(sigs):
                pth = os.path.join(td, f"{n}.sig")
                with open(pth, "w") as fp:
                    sigmod.save_signatures_to_json([x], fp)
                locs.append((x, pth))
            mf = CollectionManifest.create_manifest(iter(locs), include_signature=False)
            V[i(a[0])] = StandaloneManifestIndex(mf, os.path.join(td, "mf.csv"), prefix="")
    elif op == "vmulti":
        idxs = [V[i(h)] for h in a[1:]]
        if not all(isinstance(x, LinearIndex) and not has_private(x, S) for x in idxs):
            raise UnknownOp("domain")
        V[i(a[0])] = MultiIndex.load(idxs, [f"src{n}" for n in range(len(idxs))], parent="p", prepend_location=bool(i(a[0]) % 2))
    elif op in ("vsbt", "vlca"):
        sigs = [S[i(h)] for h in a[1:]]
        if not sigs or not uniform_scaled(sigs[0].minhash._max_hash, sigs):
            raise UnknownOp("domain")
        if op == "vsbt":
            t = create_sbt_index()
            for x in sigs:
                t.insert(x)
            t._own_scaled = sigs[0].minhash.scaled
            V[i(a[0])] = t
        else:
            names = [x.name for x in sigs]
            if not all(names) or len(set(names)) != len(names):
                raise UnknownOp("domain")
            db = LCA_Database(21, sigs[0].minhash.scaled, "DNA")
            for x in sigs:
                db.insert(x)
            V[i(a[0])] = db
    elif op == "vzipg":
        import zipfile
        sigs = [S[i(h)] for h in a[3:]]
        kk = i(a[2])
        if kk == 0 or not sigs or len({mins_of(x) for x in sigs}) != len(sigs):
            raise UnknownOp("domain")
        td = new_tmp()
        zp = os.path.join(td, "adhoc.zip")
        locs = []
        with zipfile.ZipFile(zp, "w") as zf:
            for g in range(0, len(sigs), kk):
                nm = f"g{g // kk}.sig"
                zf.writestr(nm, sigmod.save_signatures_to_json(sigs[g:g + kk]))
                locs += [(x, nm) for x in sigs[g:g + kk]]
            if i(a[1]):
                mf = CollectionManifest.create_manifest(iter(locs), include_signature=False)
                fp = io.StringIO()
                mf.write_to_csv(fp, write_header=True)
                zf.writestr("SOURMASH-MANIFEST.csv", fp.getvalue())
        V[i(a[0])] = ZipFileLinearIndex.load(zp, use_manifest=bool(i(a[1])))
    elif op == "vmf":
        va, vb = V[i(a[1])], V[i(a[2])]
        sigs = [S[i(h)] for h in a[3:]]
        if a[0] not in MF_OPS:
            raise UnknownOp(a[0])
        if a[0] in ("combine", "wrap", "getmf", "helpers"):
            return twice(lambda: two_views_ro(a[0], va, vb, sigs))
        return twice(lambda: manifest_ro(a[0], va.manifest, vb.manifest, sigs))
    elif op == "vmultiof":
        if a[1] not in ("0", "1"):
            raise UnknownOp("flag")
        ins = []
        for t in a[2:]:
            if t.count(":") != 1:
                raise UnknownOp("input")
            hv, lab = t.split(":")
            if not hv.isdigit():
                raise UnknownOp("input")
            ins.append((V[i(hv)], name_tok(lab) or None))
        if not all(kind_of(x) in ORDERED for x, _ in ins):
            raise UnknownOp("domain")
        V[i(a[0])] = MultiIndex.load([x for x, _ in ins], [lab for _, lab in ins], parent="p", prepend_location=bool(i(a[1])))
    elif op == "vfrom":
        v, kind = V[i(a[2])], i(a[1])
        if kind_of(v) not in ORDERED or kind > 2:
            raise UnknownOp("domain")
        members = list(v.signatures())
        nb = sum(1 for x in members if bound(S, x))
        if kind == 0:
            if 0 < nb < len(members):
                raise UnknownOp("domain")
            V[i(a[0])] = LinearIndex(members)
        else:
            if not members or not uniform_scaled(members[0].minhash._max_hash, members):
                raise UnknownOp("domain")
            if kind == 1:
                if nb != len(members):
                    raise UnknownOp("domain")
                t = create_sbt_index()
                for x in members:
                    t.insert(x)
                t._own_scaled = members[0].minhash.scaled
                V[i(a[0])] = t
            else:
                names = [x.name for x in members]
                if not all(names) or len(set(names)) != len(names):
                    raise UnknownOp("domain")
                db = LCA_Database(21, members[0].minhash.scaled, "DNA")
                for x in members:
                    db.insert(x)
                V[i(a[0])] = db
    elif op == "vstandof":
        v = V[i(a[1])]
        if kind_of(v) != "standalone":
            raise UnknownOp("domain")
        td = new_tmp()
        csvp = os.path.join(td, "mf.csv")
        v.manifest.write_to_filename(csvp)
        V[i(a[0])] = StandaloneManifestIndex.load(csvp)
    elif op == "vmpath":
        v, mode = V[i(a[2])], i(a[1])
        if kind_of(v) not in ORDERED or mode > 2:
            raise UnknownOp("domain")
        sigs = list(v.signatures())
        if not sigs:
            raise UnknownOp("domain")
        td = new_tmp()
        fpath, dpath = os.path.join(td, "all.sig"), os.path.join(td, "d")
        if mode in (0, 2):
            with open(fpath, "w") as fp:
                sigmod.save_signatures_to_json(sigs, fp)
        if mode in (1, 2):
            os.mkdir(dpath)
            for n, x in enumerate(sigs):
                with open(os.path.join(dpath, f"{n:04d}.sig"), "w") as fp:    # zero-padded: directory traversal is lexicographic
                    sigmod.save_signatures_to_json([x], fp)
        if mode == 0:
            V[i(a[0])] = MultiIndex.load_from_path(fpath)
        elif mode == 1:
            V[i(a[0])] = MultiIndex.load_from_directory(dpath)
        else:
            lst = os.path.join(td, "list.txt")
            with open(lst, "w") as fp:
                fp.write(dpath + "\n" + fpath + "\n")
            V[i(a[0])] = MultiIndex.load_from_pathlist(lst)
    elif op == "vsbtload":
        sigs = [S[i(h)] for h in a[3:]]
        if not sigs or i(a[1]) > 1 or not uniform_scaled(sigs[0].minhash._max_hash, sigs) \
                or len({mins_of(x) for x in sigs}) != len(sigs):
            raise UnknownOp("domain")
        td = new_tmp()
        t = create_sbt_index()
        for x in sigs:
            t.insert(x)
        pth = os.path.join(td, "t.sbt.zip" if i(a[1]) == 0 else "t.sbt.json")
        t.save(pth)
        t2 = load_sbt_index(pth, cache_size=(i(a[2]) or None))
        t2._own_disk = True
        t2._own_scaled = sigs[0].minhash.scaled
        V[i(a[0])] = t2
    elif op == "vsqlite":
        sigs = [S[i(h)] for h in a[1:]]
        if not sigs or not uniform_scaled(sigs[0].minhash._max_hash, sigs) or len({mins_of(x) for x in sigs}) != len(sigs) \
                or any(x.minhash.track_abundance for x in sigs):
            raise UnknownOp("domain")
        td = new_tmp()
        from sourmash.sourmash_args import SaveSignaturesToLocation
        pth = os.path.join(td, "c.sqldb")
        with SaveSignaturesToLocation(pth) as sv:
            for x in sigs:
                sv.add(x)
        V[i(a[0])] = sourmash.load_file_as_index(pth)
    elif op == "vlcaload":
        sigs = [S[i(h)] for h in a[2:]]
        names = [x.name for x in sigs]
        if not sigs or i(a[1]) > 1 or not uniform_scaled(sigs[0].minhash._max_hash, sigs) \
                or not all(names) or len(set(names)) != len(names):
            raise UnknownOp("domain")
        td = new_tmp()
        db = LCA_Database(21, sigs[0].minhash.scaled, "DNA")
        for x in sigs:
            db.insert(x)
        fmt = ["json", "sql"][i(a[1])]
        pth = os.path.join(td, "l.lca.json" if fmt == "json" else "l.lca.sqldb")
        db.save(pth, format=fmt)
        V[i(a[0])] = sourmash.load_file_as_index(pth)
    elif op == "vinsert":
        v, x = V[i(a[0])], S[i(a[1])]
        k = kind_of(v)
        if k in ("sbtdisk", "sqlite"):
            raise UnknownOp("domain")
        if k == "sbt" and (x.minhash.num != 0 or x.minhash.scaled != v._own_scaled):
            raise UnknownOp("domain")
        if k == "lca" and (x.minhash.num != 0 or x.minhash.scaled != v.scaled or not x.name):
            raise UnknownOp("domain")
        v.insert(x)
    elif op == "vsel":
        v = V[i(a[1])]
        kw = parse_kw(a[2:])
        x = v.select(**kw)
        V[i(a[0])] = x
    elif op == "vselpick":
        v = V[i(a[1])]
        names = [name_tok(x) for x in a[2:]]
        if kind_of(v) not in ("sbt", "lca", "sbtdisk"):
            raise UnknownOp("domain")
        pl = SignaturePicklist("name")
        pl.init(names)
        x = v.select(picklist=pl)
        V[i(a[0])] = x
    elif op == "vget":
        v = V[i(a[1])]
        if kind_of(v) in ("sbt", "lca", "sbtdisk", "lcasql"):
            raise UnknownOp("domain")
        if kind_of(v) in ("linear", "multi", "lazy") and has_private(v, S):
            raise UnknownOp("domain")
        got = list(v.signatures())
        if route(2):
            try:       # the other route to the same objects (a MultiIndex with prepend_location and no location cannot take it)
                alt = [x for x, _ in v.signatures_with_location()]
            except TypeError:
                alt = None
            if alt is not None:
                if [sig_digest(x) for x in alt] != [sig_digest(x) for x in got]:
                    raise Differs("signatures() and signatures_with_location() hand out different signatures")
                got = alt
        if i(a[2]) >= len(got):
            return "err IndexError"
        S[i(a[0])] = got[i(a[2])]
    elif op == "vro":
        v = V[i(a[1])]
        qs = [S[i(h)] for h in a[2:]]
        if a[0] in SAVES:
            return twice(lambda: view_save(a[0], v, qs))
        if a[0] not in ("sigs", "locs", "manifest", "picklist", "search", "searchc", "prefetch", "best", "gather", "gatheri", "interleave", "cgather",
                        "searchab", "results", "results2"):
            raise UnknownOp(a[0])
        return twice(lambda: view_ro(a[0], v, qs))
    else:
        raise UnknownOp(op)
    return "ok"


OBJ_OPS = {"snew", "smh", "ssetmh", "sname", "sfile", "saddseq", "saddprot", "ssetstate", "sintofrozen", "stomut",
           "stofrozen", "scopy", "spickle", "supdflat", "supdname", "sgatherinit", "scg", "sro", "vlinear", "vlazy",
           "vzip", "vstandalone", "vmulti", "vsbt", "vlca", "vinsert", "vsel", "vselpick", "vget", "vro",
           "vsbtload", "vsqlite", "vlcaload", "vmf", "vzipg", "vmultiof", "vfrom", "vstandof", "vmpath"}


def main():
    T, S, V = {}, {}, {}
    out = sys.stdout
    for line in sys.stdin:
        w = line.split()
        if not w:
            out.write("bad-op\n")
            continue
        op, a = w[0], w[1:]
        if op == "#":
            T, S, V = {}, {}, {}
            drop_tmp()
            ROUTE[0] = 0
            del KEPT[:]
            REF_MODE.clear()
            out.write("#\n")
            continue
        res = "ok"
        try:
            if op in OBJ_OPS:
                res = obj_op(op, a, T, S, V)
            elif op == "new":
                r, num, scaled, track = map(int, a)
                T[r] = MinHash(num, 21, track_abundance=bool(track), scaled=scaled)
            elif op == "add":
                if route(2):
                    T[int(a[0])].add_hash(int(a[1]))
                else:
                    T[int(a[0])].add_many([int(a[1])])
            elif op == "addseq":
                if a[1] not in ("0", "1") or not SEQ_RE.match(a[2]):
                    raise UnknownOp("seq")
                x = T[int(a[0])]
                if a[1] == "0" and len(a[2]) == 21 and route(2):
                    x.add_kmer(a[2])
                elif route(2):
                    x.add_sequence(a[2], bool(int(a[1])))
                else:
                    x.add_sequence(a[2], force=bool(int(a[1])))
            elif op == "addprot":
                if not SEQ_RE.match(a[1]):
                    raise UnknownOp("seq")
                T[int(a[0])].add_protein(a[1])
            elif op == "addab":
                T[int(a[0])].add_hash_with_abundance(int(a[1]), int(a[2]))
            elif op == "addmany":
                vals = [int(x) for x in a[1:]]
                k = route(3)
                if k == 0:
                    T[int(a[0])].add_many(vals)
                elif k == 1:
                    T[int(a[0])].add_many(tuple(vals))
                else:
                    x = T[int(a[0])]
                    if isinstance(x, FrozenMinHash):
                        x.add_many(vals)
                    else:
                        for v_ in vals:
                            x.add_hash(v_)
            elif op == "rm":
                T[int(a[0])].remove_many([int(x) for x in a[1:]])
            elif op == "clear":
                T[int(a[0])].clear()
            elif op == "merge":
                k = route(3)
                x, y = T[int(a[0])], T[int(a[1])]
                if k == 0:
                    x.merge(y)
                elif k == 1:
                    z = x
                    z += y
                    if z is not x:
                        raise Differs("+= returned another object")
                else:
                    x.__iadd__(y)
            elif op == "setab":
                vals = {}
                for p in a[2:]:
                    k, v = p.split(":")
                    vals[int(k)] = int(v)
                T[int(a[0])].set_abundances(vals, clear=bool(int(a[1])))
            elif op == "settrack":
                T[int(a[0])].track_abundance = bool(int(a[1]))
            elif op == "intofrozen":
                T[int(a[0])].into_frozen()
            elif op == "tomut":
                src = T[int(a[1])]
                x = src.__copy__() if (not isinstance(src, FrozenMinHash) and route(2)) else src.to_mutable()
                T[int(a[0])] = x
            elif op == "tofrozen":
                x = T[int(a[1])].to_frozen(); T[int(a[0])] = x
            elif op == "copy":
                import copy as _copy
                src = T[int(a[1])]
                k = route(3)
                x = src.copy() if k == 0 else (_copy.copy(src) if k == 1 else src.__copy__())
                T[int(a[0])] = x
            elif op == "flat":
                x = T[int(a[1])].flatten(); T[int(a[0])] = x
            elif op == "down":
                x = T[int(a[1])].downsample(scaled=int(a[2])); T[int(a[0])] = x
            elif op == "sigmh":
                x = (SourmashSignature(T[int(a[1])]) if route(2) else
                     SourmashSignature(T[int(a[1])], name="n", filename="f")).minhash
                T[int(a[0])] = x
            elif op == "plus":
                x = (T[int(a[1])] + T[int(a[2])]) if route(2) else (T[int(a[1])] | T[int(a[2])])
                T[int(a[0])] = x
            elif op == "inter":
                x = (T[int(a[1])] & T[int(a[2])]) if route(2) else T[int(a[1])].intersection(T[int(a[2])])
                T[int(a[0])] = x
            elif op == "ro":
                objs = [T[int(h)] for h in a[1:]]
                if not objs:
                    raise UnknownOp("no operands")
                try:
                    r1 = canon(ro(a[0], objs))
                    r2 = canon(ro(a[0], objs))
                    if r1 != r2:
                        res = "err RepeatDiffers"
                except UnknownOp:
                    raise
                except Differs:
                    res = "err InputModified"
                except Exception as e1:  # noqa: BLE001
                    # a refusal (incompatible operands, unsupported query ...) is not C15's business,
                    # but it must be repeatable
                    try:
                        ro(a[0], objs)
                        res = "err RepeatDiffers"
                    except Differs:
                        res = "err InputModified"
                    except Exception as e2:  # noqa: BLE001
                        res = "ok" if type(e1) is type(e2) else "err RepeatDiffers"
            else:
                res = "bad-op"
        except (KeyError, UnknownOp):
            res = "bad-op"
        except BaseException as e:  # noqa: BLE001
            res = "err " + exc_name(e)
        if res == "bad-op":
            out.write("bad-op\n")
        else:
            out.write(res + " | " + (world(T, S, V) + " ").lstrip() + "A=" + agreement(T, S, V) + " K=" + kept_state() + "\n")
    out.flush()
    drop_tmp()


if __name__ == "__main__":
    main()
