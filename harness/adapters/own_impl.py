"""Real-code adapter for the `own` stream (C15).  After EVERY op it prints the whole table of
live objects: handle, alias class (by Python object identity), frozen flag, content — so that
any write the model does not predict shows up.  Read-only ops are executed twice and the two
results must agree; the signatures/collections they were given are digested before and after."""
import io
import os
import pickle
import sys

import sourmash
from sourmash import MinHash, SourmashSignature
from sourmash.minhash import FrozenMinHash
from sourmash.index import LinearIndex, MultiIndex
from sourmash.manifest import CollectionManifest
from sourmash.search import GatherDatabases, prefetch_database
from sourmash import signature as sigmod


def cell(mh):
    hs = mh.hashes
    keys = list(hs.keys())
    mins = ",".join(map(str, keys))
    ab = ",".join(str(hs[k]) for k in keys) if mh.track_abundance else "-"
    return f"{int(isinstance(mh, FrozenMinHash))}:{mh.num}:{mh._max_hash}:{mins}:{ab}"


def heap(T):
    hs = sorted(T)
    out = []
    for h in hs:
        cls = min(g for g in hs if T[g] is T[h])
        out.append(f"{h}@{cls}={cell(T[h])}")
    return " ".join(out)


def exc_name(e):
    for c in (TypeError, RuntimeError, ValueError, AssertionError, KeyError, AttributeError):
        if isinstance(e, c):
            return c.__name__
    return type(e).__name__


def sig_digest(ss):
    mh = ss.minhash
    return (ss.name, ss.filename, ss.md5sum(), tuple(mh.hashes.items()), mh.track_abundance, mh.num, mh._max_hash,
            type(ss).__name__)


class Differs(Exception):
    pass


class UnknownOp(Exception):
    pass


def canon(x):
    if isinstance(x, float):
        return x.hex()
    if isinstance(x, (list, tuple)):
        return tuple(canon(y) for y in x)
    if isinstance(x, dict):
        return tuple(sorted((canon(k), canon(v)) for k, v in x.items()))
    if isinstance(x, SourmashSignature):
        return sig_digest(x)
    if isinstance(x, MinHash):
        return cell(x)
    return x


def ro(name, objs):
    """one read-only API call over the given MinHash objects; returns a canonical result"""
    a = objs[0]
    b = objs[1] if len(objs) > 1 else objs[0]
    if name == "cc":
        return a.count_common(b, True), b.count_common(a, True)
    if name == "sim":
        return a.similarity(b, downsample=True), a.similarity(b, ignore_abundance=True, downsample=True)
    if name == "jac":
        return a.jaccard(b, downsample=True)
    if name == "cont":
        return a.contained_by(b, downsample=True), a.max_containment(b, downsample=True), a.avg_containment(b, downsample=True)
    if name == "ang":
        return a.angular_similarity(b)
    if name == "iu":
        return a.intersection_and_union_size(b)
    if name == "md5":
        return SourmashSignature(a).md5sum()
    if name == "hashes":
        return dict(a.hashes), len(a), a.scaled, a.num, a.track_abundance
    if name == "pickle":
        return pickle.dumps(a) == pickle.dumps(a)
    if name == "and":
        return a & b
    if name == "or":
        return a | b
    if name == "fds":
        from sourmash.minhash import flatten_and_downsample_scaled, flatten_and_intersect_scaled
        return flatten_and_downsample_scaled(a, b.scaled), flatten_and_intersect_scaled(a, b)
    if name == "ani":
        return str(a.containment_ani(b, downsample=True)), str(a.jaccard_ani(b, downsample=True))
    # --- signature / collection level: build signatures from the objects, digest them before and after
    sigs = [SourmashSignature(o, name=f"s{i}") for i, o in enumerate(objs)]
    if name.endswith("m"):
        # variant with a MUTABLE query signature (as built in memory by a caller); the database stays frozen
        name = name[:-1]
        for s in sigs[1:]:
            s.into_frozen()
    else:
        for s in sigs:
            s.into_frozen()       # what loaders and collections hand out
    before = [sig_digest(s) for s in sigs]
    query, db = sigs[0], sigs[1:] or sigs[:1]
    if name == "sigcopy":
        # copies of a signature share no state with it
        res = []
        for s0 in sigs:
            d0 = sig_digest(s0)
            m = s0.to_mutable()
            if m is s0:
                raise Differs("to_mutable() returned the signature itself")
            m.name = "changed"
            mm = m.minhash.to_mutable()
            mm.add_hash(12345)
            m.minhash = mm
            c = s0.copy() if hasattr(s0, "copy") else s0
            f = s0.to_frozen()
            if sig_digest(s0) != d0:
                raise Differs("mutating a to_mutable() copy changed the original signature")
            res.append((sig_digest(m)[3] != d0[3], type(f).__name__))
    elif name == "selview":
        # select() on a view is a read-only call on that view
        import tempfile, shutil
        from sourmash.index import ZipFileLinearIndex, LazyLinearIndex
        from sourmash.sourmash_args import SaveSignaturesToLocation
        td = tempfile.mkdtemp(prefix="own_", dir=os.environ.get("VERIF_TMP") or None)
        try:
            zp = os.path.join(td, "c.zip")
            with SaveSignaturesToLocation(zp) as sv:
                for s0 in sigs:
                    sv.add(s0)
            views = [
                ("linear", LinearIndex(sigs)),
                ("lazy", LazyLinearIndex(LinearIndex(sigs))),
                ("zip", ZipFileLinearIndex.load(zp)),
                ("zipnm", ZipFileLinearIndex.load(zp, use_manifest=False)),
                ("multi", MultiIndex.load([LinearIndex(sigs)], [None], parent="")),
            ]
            res = []
            for kind, base in views:
                v = base.select(ksize=21)
                before_v = sorted(sig_digest(x) for x in v.signatures())
                n_before = len(v)
                for kw in (dict(moltype="protein"), dict(moltype="DNA"), dict(scaled=True), dict(ksize=21), dict(abund=True)):
                    try:
                        w = v.select(**kw)
                        list(w.signatures())
                    except (ValueError, TypeError):
                        pass
                    after_v = sorted(sig_digest(x) for x in v.signatures())
                    if after_v != before_v or len(v) != n_before:
                        raise Differs(f"select({kw}) on a {kind} view changed the view it was called on")
                res.append((kind, n_before))
        finally:
            shutil.rmtree(td, ignore_errors=True)
    elif name == "save":
        res = sigmod.save_signatures_to_json(sigs)
        res2 = [sig_digest(x) for x in sigmod.load_signatures_from_json(res)]
        res = (res, res2)
    elif name in ("search", "searchc", "prefetch", "gather", "manifest", "compare"):
        idx = LinearIndex(db)
        fq = query
        if name == "search":
            with query.update() as fq:
                fq.minhash = fq.minhash.flatten()
            res = [(r.score, sig_digest(r.signature)) for r in idx.search(fq, threshold=0.0)]
        elif name == "searchc":
            with query.update() as fq:
                fq.minhash = fq.minhash.flatten()
            res = [(r.score, sig_digest(r.signature)) for r in idx.search(fq, threshold=0.0, do_containment=True)]
        elif name == "prefetch":
            with query.update() as fq:
                fq.minhash = fq.minhash.flatten()
            res = [(r.score, sig_digest(r.signature)) for r in idx.prefetch(fq, 0)]
        elif name == "gather":
            counters = [idx.counter_gather(query, 0)]
            res = [(g.match.md5sum(), g.intersect_bp, g.f_unique_to_query, g.remaining_bp)
                   for g in GatherDatabases(query, counters, threshold_bp=0)]
        elif name == "manifest":
            mi = MultiIndex.load([idx], [None], parent="")
            held = [sig_digest(s) for s in mi.signatures()]
            fp = io.StringIO()
            mi.manifest.write_to_csv(fp, write_header=True)
            try:
                held2 = [sig_digest(s) for s in mi.signatures()]
                fp2 = io.StringIO()
                mi.manifest.write_to_csv(fp2, write_header=True)
                found = [r.signature.md5sum() for r in mi.search(query, threshold=0.0)] if not query.minhash.track_abundance else []
            except Exception as e:  # noqa: BLE001
                raise Differs(f"collection unusable after manifest export: {type(e).__name__}: {e}")
            if held2 != held or fp2.getvalue() != fp.getvalue():
                raise Differs("manifest export changed the collection")
            res = (fp.getvalue(), held, len(mi.manifest), found)
        else:
            from sourmash.compare import compare_all_pairs
            m = compare_all_pairs(sigs, ignore_abundance=True, downsample=True)
            res = [[float(x).hex() for x in row] for row in m]
    else:
        raise UnknownOp(name)
    after = [sig_digest(s) for s in sigs]
    if before != after:
        raise Differs("a signature passed to `%s` was modified" % name)
    return res


def main():
    T = {}
    out = sys.stdout
    for line in sys.stdin:
        w = line.split()
        if not w:
            out.write("bad-op\n")
            continue
        op, a = w[0], w[1:]
        if op == "#":
            T = {}
            out.write("#\n")
            continue
        res = "ok"
        try:
            if op == "new":
                r, num, scaled, track = map(int, a)
                T[r] = MinHash(num, 21, track_abundance=bool(track), scaled=scaled)
            elif op == "add":
                T[int(a[0])].add_hash(int(a[1]))
            elif op == "addab":
                T[int(a[0])].add_hash_with_abundance(int(a[1]), int(a[2]))
            elif op == "addmany":
                T[int(a[0])].add_many([int(x) for x in a[1:]])
            elif op == "rm":
                T[int(a[0])].remove_many([int(x) for x in a[1:]])
            elif op == "clear":
                T[int(a[0])].clear()
            elif op == "merge":
                T[int(a[0])].merge(T[int(a[1])])
            elif op == "setab":
                vals = {}
                for p in a[2:]:
                    k, v = p.split(":")
                    vals[int(k)] = int(v)
                T[int(a[0])].set_abundances(vals, clear=bool(int(a[1])))
            elif op == "settrack":
                T[int(a[0])].track_abundance = bool(int(a[1]))
            elif op == "intofrozen":
                T[int(a[0])].into_frozen()
            elif op == "tomut":
                x = T[int(a[1])].to_mutable(); T[int(a[0])] = x
            elif op == "tofrozen":
                x = T[int(a[1])].to_frozen(); T[int(a[0])] = x
            elif op == "copy":
                x = T[int(a[1])].copy(); T[int(a[0])] = x
            elif op == "flat":
                x = T[int(a[1])].flatten(); T[int(a[0])] = x
            elif op == "down":
                x = T[int(a[1])].downsample(scaled=int(a[2])); T[int(a[0])] = x
            elif op == "sigmh":
                x = SourmashSignature(T[int(a[1])]).minhash; T[int(a[0])] = x
            elif op == "plus":
                x = T[int(a[1])] + T[int(a[2])]; T[int(a[0])] = x
            elif op == "inter":
                x = T[int(a[1])] & T[int(a[2])]; T[int(a[0])] = x
            elif op == "ro":
                objs = [T[int(h)] for h in a[1:]]
                if not objs:
                    raise UnknownOp("no operands")
                try:
                    r1 = canon(ro(a[0], objs))
                    r2 = canon(ro(a[0], objs))
                    if r1 != r2:
                        res = "err RepeatDiffers"
                except UnknownOp:
                    raise
                except Differs:
                    res = "err InputModified"
                except Exception as e1:  # noqa: BLE001
                    # a refusal (incompatible operands, unsupported query ...) is not C15's business,
                    # but it must be repeatable
                    try:
                        ro(a[0], objs)
                        res = "err RepeatDiffers"
                    except Differs:
                        res = "err InputModified"
                    except Exception as e2:  # noqa: BLE001
                        res = "ok" if type(e1) is type(e2) else "err RepeatDiffers"
            else:
                res = "bad-op"
        except (KeyError, UnknownOp):
            res = "bad-op"
        except BaseException as e:  # noqa: BLE001
            res = "err " + exc_name(e)
        if res == "bad-op":
            out.write("bad-op\n")
        else:
            out.write(res + " | " + heap(T) + "\n")
    out.flush()


if __name__ == "__main__":
    main()
