"""Real-code adapter for the `search` stream (C06).

One case = a table of sketches (`sk`), a database (`db`: ordered list of sketch ids), a query (`q`)
and search operations against containers built from exactly those sketches:

  lin                 LinearIndex (in memory)
  lazy                LazyLinearIndex(LinearIndex)
  dir                 MultiIndex.load_from_directory   (one .sig file per sketch)
  plist               MultiIndex.load_from_pathlist    (text file naming the .sig files)
  zip                 ZipFileLinearIndex (written with SaveSignaturesToLocation, manifest inside)
  mf                  StandaloneManifestIndex over a CSV manifest of the .sig files
  sbt-D-T-C-S         SBT, arity D, Bloom table size T, node-cache size C (0 = unbounded),
                      S=1: saved to .sbt.zip and loaded again (C applies), S=0: the in-memory tree
  lca                 LCA_Database at the database's scaled
  sql                 SqliteIndex (.sqldb file)

Every file lives under <verif>/.build/tmp/search-<pid>/ and is removed after each case.
Observations: `ok <sorted-flag> name/md5/score.hex() ...` (canonically sorted), errors `err <Class>`.
The linear family is called directly; the indexed family (sbt, lca, sql) first gets the
`select(ksize, moltype, num, scaled, containment)` call the command line issues, because that is where
these classes document which queries they refuse.
"""
import os
import shutil
import sys

import sourmash
from sourmash import MinHash, SourmashSignature
from sourmash.index import LinearIndex, LazyLinearIndex, MultiIndex, ZipFileLinearIndex, StandaloneManifestIndex
from sourmash.manifest import CollectionManifest
from sourmash.sbtmh import create_sbt_index, load_sbt_index
from sourmash.lca.lca_db import LCA_Database
from sourmash.index.sqlite_index import SqliteIndex
from sourmash.save_load import SaveSignaturesToLocation
from sourmash import signature as sigmod

import re
from sourmash.logging import set_quiet

set_quiet(True)
KSIZE = 31
SPEC_RE = re.compile(r"^(lin|lazy|dir|plist|zip|mf|lca|sql|sbt-([2-9]|\d\d+)-\d+-\d+-[01])$")
VERIF = os.path.dirname(os.path.dirname(os.path.dirname(os.path.abspath(__file__))))
TMPROOT = os.path.join(os.environ.get("VERIF_BUILD", os.path.join(VERIF, ".build")), "tmp")


def exc_name(e):
    for cls in (TypeError, RuntimeError, ValueError, AssertionError, OverflowError, NotImplementedError,
                StopIteration, KeyError, IndexError, ZeroDivisionError):
        if isinstance(e, cls):
            return cls.__name__
    return type(e).__name__


def show(mh):
    hs = mh.hashes
    keys = sorted(hs.keys())
    mins = ",".join(str(k) for k in keys)
    ab = ",".join(str(hs[k]) for k in keys) if mh.track_abundance else "-"
    return f"ok num={mh.num} mh={mh._max_hash} sc={mh.scaled} tr={int(mh.track_abundance)} mins={mins} ab={ab}"


class Case:
    def __init__(self, n):
        self.sk = {}
        self.db = []
        self.q = None
        self.cont = {}
        self.dir = os.path.join(TMPROOT, f"search-{os.getpid()}-{n}")
        self.sigfiles = None
        self.cli_files = []

    def close(self):
        for c in self.cont.values():
            try:
                if isinstance(c, SqliteIndex):
                    c.close()
            except Exception:       # noqa: BLE001
                pass
        self.cont = {}
        if os.path.isdir(self.dir):
            shutil.rmtree(self.dir, ignore_errors=True)

    def tmp(self, name):
        os.makedirs(self.dir, exist_ok=True)
        return os.path.join(self.dir, name)

    def sigs(self):
        return [self.sk[i] for i in self.db]

    def write_sigfiles(self):
        """one JSON file per database entry, names in database order"""
        if self.sigfiles is None:
            d = self.tmp("sigs")
            os.makedirs(d, exist_ok=True)
            out = []
            for n, ss in enumerate(self.sigs()):
                p = os.path.join(d, f"{n:03d}.sig")
                with open(p, "w") as fp:
                    sigmod.save_signatures_to_json([ss], fp)
                out.append(p)
            self.sigfiles = (d, out)
        return self.sigfiles

    def container(self, spec):
        if spec in self.cont:
            return self.cont[spec]
        sigs = self.sigs()
        if spec == "lin":
            c = LinearIndex(sigs)
        elif spec == "lazy":
            c = LazyLinearIndex(LinearIndex(sigs))
        elif spec == "dir":
            d, files = self.write_sigfiles()
            c = MultiIndex.load_from_directory(d) if files else MultiIndex.load([], [], None)
        elif spec == "plist":
            d, files = self.write_sigfiles()
            if files:
                p = self.tmp("pathlist.txt")
                with open(p, "w") as fp:
                    fp.write("\n".join(files) + "\n")
                c = MultiIndex.load_from_pathlist(p)
            else:
                c = MultiIndex.load([], [], None)
        elif spec == "zip":
            p = self.tmp("coll.zip")
            with SaveSignaturesToLocation(p) as save:
                for ss in sigs:
                    save.add(ss)
            c = ZipFileLinearIndex.load(p)
        elif spec == "mf":
            d, files = self.write_sigfiles()

            def it():
                for ss, f in zip(sigs, files):
                    yield ss, f
            m = CollectionManifest.create_manifest(it(), include_signature=False)
            p = self.tmp("mf.csv")
            with open(p, "w", newline="") as fp:
                m.write_to_csv(fp, write_header=True)
            c = StandaloneManifestIndex.load(p)
        elif spec.startswith("sbt-"):
            _, d, t, cs, saved = spec.split("-")
            c = create_sbt_index(bloom_filter_size=int(t), n_children=int(d))
            for ss in sigs:
                c.insert(ss)
            if int(saved) and sigs:      # an empty tree cannot be saved (C10); search the in-memory one
                p = self.tmp(f"tree-{d}-{t}.sbt.zip")
                c.save(p)
                c = load_sbt_index(p, cache_size=(int(cs) or None))
        elif spec == "lca":
            scs = {ss.minhash.scaled for ss in sigs}
            sc = max(scs) if scs else 1
            c = LCA_Database(KSIZE, sc)
            for ss in sigs:
                c.insert(ss)
        elif spec == "sql":
            p = self.tmp("idx.sqldb")
            c = SqliteIndex.create(p)
            for ss in sigs:
                c.insert(ss)
        else:
            raise AssertionError(spec)
        self.cont[spec] = c
        return c


def fmt_results(res, check_sorted):
    items = []
    scores = []
    for r in res:
        score = float(r.score)
        scores.append(score)
        items.append((r.signature.name, r.signature.md5sum(), score))
    flag = 1
    if check_sorted:
        flag = int(all(scores[i] >= scores[i + 1] for i in range(len(scores) - 1)))
    return flag, items


def line(flag, tag, items):
    if tag != "O":
        items = sorted(items)
    return " ".join(["ok", str(flag), tag] + [f"{n}/{m}/{s.hex()}" for n, m, s in items])


ORDERED = ("lin", "lazy")


def tag_for(op, spec, mode, best, query, sigs):
    """how this line is to be compared with the model's (see DriverSearch.lean)"""
    if op == "searchord":
        return "O"
    if op == "best":
        return "T"
    if best and spec not in ORDERED:
        return "B"
    return "E"


INDEXED = ("sbt", "lca", "sql")


def selected(cont, spec, query, containment):
    if spec.split("-")[0] in INDEXED:
        mh = query.minhash
        return cont.select(ksize=mh.ksize, moltype=mh.moltype, num=mh.num, scaled=mh.scaled, containment=containment)
    return cont



# --------------------------------------------------------------------------
# command-line tier: `sourmash search` / `sourmash prefetch` run through the real entry point
# (sourmash.__main__.main with an argv), compared with the in-process API on the same database files

import contextlib
import csv
import io


def run_cli(argv):
    """-> (exit code, stdout text, exception class or None)"""
    from sourmash.__main__ import main as sm_main
    out = io.StringIO()
    err = io.StringIO()
    code, exc = 0, None
    try:
        with contextlib.redirect_stdout(out), contextlib.redirect_stderr(err):
            sm_main(argv)
    except SystemExit as e:
        code = e.code if isinstance(e.code, int) else (0 if e.code is None else 1)
    except BaseException as e:          # noqa: BLE001
        if isinstance(e, KeyboardInterrupt):
            raise
        code, exc = 1, exc_name(e)
    finally:
        set_quiet(True)
    return code, out.getvalue(), exc


def build_db_file(case, n, kind, sigs):
    """write one database of the given kind holding `sigs`; -> path"""
    base = case.tmp(f"db{n}")
    if kind == "sig":
        p = base + ".sig"
        with open(p, "w") as fp:
            sigmod.save_signatures_to_json(sigs, fp)
    elif kind == "dir":
        p = base + "_dir"
        os.makedirs(p, exist_ok=True)
        for k, ss in enumerate(sigs):
            with open(os.path.join(p, f"{k:03d}.sig"), "w") as fp:
                sigmod.save_signatures_to_json([ss], fp)
    elif kind == "zip":
        p = base + ".zip"
        with SaveSignaturesToLocation(p) as save:
            for ss in sigs:
                save.add(ss)
    elif kind == "sbt":
        p = base + ".sbt.zip"
        t = create_sbt_index(bloom_filter_size=50, n_children=2)
        for ss in sigs:
            t.insert(ss)
        t.save(p)
    elif kind == "lca":
        p = base + ".lca.json"
        sc = max(ss.minhash.scaled for ss in sigs)
        db = LCA_Database(KSIZE, sc)
        for ss in sigs:
            db.insert(ss)
        db.save(p)
    elif kind == "sql":
        p = base + ".sqldb"
        db = SqliteIndex.create(p)
        for ss in sigs:
            db.insert(ss)
        db.commit()
        db.close()
    elif kind == "mf":
        d = base + "_mfdir"
        os.makedirs(d, exist_ok=True)
        files = []
        for k, ss in enumerate(sigs):
            f = os.path.join(d, f"{k:03d}.sig")
            with open(f, "w") as fp:
                sigmod.save_signatures_to_json([ss], fp)
            files.append(f)
        m = CollectionManifest.create_manifest(((ss, f) for ss, f in zip(sigs, files)), include_signature=False)
        p = base + ".manifest.csv"
        with open(p, "w", newline="") as fp:
            m.write_to_csv(fp, write_header=True)
    else:
        raise AssertionError(kind)
    return p


def parse_dbspec(case, spec):
    """'sig:0,1;zip:2' -> [(kind, path)]"""
    out = []
    for n, part in enumerate(spec.split(";")):
        kind, ids = part.split(":")
        sigs = [case.sk[int(i)] for i in ids.split(",") if i != ""]
        out.append((kind, build_db_file(case, f"{len(case.cli_files)}_{n}", kind, sigs)))
        case.cli_files.append(out[-1][1])
    return out


def fmt_rows(rows):
    return ",".join(f"{n}/{m}/{x}" for n, m, x in rows) or "-"


def read_sig_hashes(path):
    out = []
    if not os.path.exists(path) or os.path.getsize(path) < 5:      # "[]": nothing was saved
        return out
    for ss in sourmash.load_file_as_signatures(path):
        out.append((ss.name, ss.md5sum(), ss.minhash.scaled, sorted(ss.minhash.hashes)))
    return out


def cli_search(case, a):
    spec, mode, best, thrtext, nres, ignore = a[0], a[1], int(a[2]), a[3], int(a[4]), int(a[5])
    query = case.sk[case.q]
    dbs = parse_dbspec(case, spec)
    qf = case.tmp(f"query{len(case.cli_files)}.sig")
    case.cli_files.append(qf)
    with open(qf, "w") as fp:
        sigmod.save_signatures_to_json([query], fp)
    out_csv = case.tmp(f"out{len(case.cli_files)}.csv")
    out_m = case.tmp(f"matches{len(case.cli_files)}.sig")
    argv = ["search", qf] + [p for _, p in dbs] + ["--threshold", thrtext, "-o", out_csv, "--save-matches", out_m,
                                                  "-n", str(nres)]
    if mode == "c":
        argv.append("--containment")
    elif mode == "m":
        argv.append("--max-containment")
    if best:
        argv.append("--best-only")
    if ignore:
        argv.append("--ignore-abundance")
    code, stdout, exc = run_cli(argv)
    if exc:
        return f"err {exc}"
    if code != 0:
        return f"exit {code}"
    rows = []
    if os.path.exists(out_csv) and os.path.getsize(out_csv):
        with open(out_csv, newline="") as fp:
            for r in csv.DictReader(fp):
                rows.append((r["name"], r["md5"], float(r["similarity"]).hex()))
    saved = [(n, m) for n, m, _, _ in read_sig_hashes(out_m)] if os.path.exists(out_m) else []
    shown = sum(1 for l in stdout.split("\n") if re.match(r"^\s*\d+\.\d%\s", l))
    # the in-process answer on the same database files, put together as the command does
    from sourmash.search import search_databases_with_flat_query, search_databases_with_abund_query
    from sourmash import sourmash_args
    q2 = next(iter(sourmash.load_file_as_signatures(qf)))
    with contextlib.redirect_stdout(io.StringIO()):
        loaded = sourmash_args.load_dbs_and_sigs([p for _, p in dbs], q2, mode == "j")
    if q2.minhash.track_abundance and ignore:
        with q2.update() as q2:
            q2.minhash = q2.minhash.flatten()
    kw = dict(threshold=float(thrtext), do_containment=(mode == "c"), do_max_containment=(mode == "m"),
              best_only=bool(best), unload_data=True)
    if q2.minhash.track_abundance:
        api = search_databases_with_abund_query(q2, loaded, **kw)
    else:
        api = search_databases_with_flat_query(q2, loaded, **kw)
    arows = [(r.match.name, r.match.md5sum(), float(r.similarity).hex()) for r in api]
    return f"ok C={fmt_rows(rows)} A={fmt_rows(arows)} S={','.join(n + '/' + m for n, m in saved) or '-'} D={shown}"


def cli_prefetch(case, a):
    spec, bptext = a[0], a[1]
    query = case.sk[case.q]
    dbs = parse_dbspec(case, spec)
    k = len(case.cli_files)
    qf = case.tmp(f"query{k}.sig")
    case.cli_files.append(qf)
    with open(qf, "w") as fp:
        sigmod.save_signatures_to_json([query], fp)
    out_csv, out_m = case.tmp(f"pout{k}.csv"), case.tmp(f"pmatches{k}.sig")
    out_u, out_k = case.tmp(f"punmatched{k}.sig"), case.tmp(f"pmatching{k}.sig")
    argv = ["prefetch", qf] + [p for _, p in dbs] + ["--threshold-bp", bptext, "-o", out_csv, "--save-matches", out_m,
                                                    "--save-unmatched-hashes", out_u, "--save-matching-hashes", out_k]
    code, stdout, exc = run_cli(argv)
    if exc:
        return f"err {exc}"
    if code != 0:
        return f"exit {code}"
    rows = []
    if os.path.exists(out_csv) and os.path.getsize(out_csv):
        with open(out_csv, newline="") as fp:
            for r in csv.DictReader(fp):
                rows.append((r["match_name"], r["match_md5"], f"{r['intersect_bp']}:{r['scaled']}"))
    saved = [(n, m) for n, m, _, _ in read_sig_hashes(out_m)] if os.path.exists(out_m) else []
    un = read_sig_hashes(out_u)
    kn = read_sig_hashes(out_k)
    # in-process: Index.prefetch on every database file, as the command selects it
    q2 = next(iter(sourmash.load_file_as_signatures(qf)))
    if q2.minhash.track_abundance:
        with q2.update() as q2:
            q2.minhash = q2.minhash.flatten()
    arows = []
    for _, p in dbs:
        db = sourmash.load_file_as_index(p)
        db = db.select(ksize=KSIZE, moltype="DNA", containment=True)
        if not db:
            continue
        # the command's own API route: search.prefetch_database = Index.prefetch + PrefetchResult.pass_threshold
        # (since 9b4a943 a row below threshold_bp after downsampling is skipped; before, it was asserted on)
        from sourmash.search import prefetch_database
        for r in prefetch_database(q2, db, float(bptext)):
            arows.append((r.match.name, r.match.md5sum(), float(r.f_match_query).hex()))

    def hs(x):
        return (f"{x[0][2]}:" + ".".join(map(str, x[0][3]))) if x else "-"
    return (f"ok C={fmt_rows(rows)} A={fmt_rows(arows)} S={','.join(n + '/' + m for n, m in saved) or '-'} "
            f"U={hs(un)} K={hs(kn)}")


def main():
    out = sys.stdout
    case = Case(0)
    ncase = 0
    for raw in sys.stdin:
        w = raw.split()
        if not w:
            out.write("bad-op\n")
            continue
        op = w[0]
        try:
            if op == "#":
                case.close()
                ncase += 1
                case = Case(ncase)
                out.write("#\n")
                continue
            a = w[1:]
            if op == "sk":
                i, num, scaled, track = int(a[0]), int(a[1]), int(a[2]), int(a[3])
                name = a[4]
                mh = MinHash(num, KSIZE, track_abundance=bool(track), scaled=scaled)
                if track:
                    vals = {}
                    for p in a[5:]:
                        k, v = p.split(":")
                        vals[int(k)] = int(v)
                    mh.set_abundances(vals)
                else:
                    mh.add_many([int(x) for x in a[5:]])
                case.sk[i] = SourmashSignature(mh, name=name)
                res = show(mh)
            elif op == "db":
                ids = [int(x) for x in a]
                if any(i not in case.sk for i in ids):
                    out.write("bad-op\n")
                    continue
                case.db = ids
                case.cont = {}
                res = f"ok {len(ids)}"
            elif op == "q":
                if int(a[0]) not in case.sk:
                    out.write("bad-op\n")
                    continue
                case.q = int(a[0])
                res = "ok"
            elif op in ("search", "searchord", "prefetch", "best") and (case.q is None or not SPEC_RE.match(a[0])):
                res = "bad-op"
            elif op in ("search", "searchord"):
                spec, mode, best, n, d, k = a[0], a[1], int(a[2]), int(a[3]), int(a[4]), int(a[5])
                import math
                thr = n / d
                if k > 0:
                    thr = math.nextafter(thr, math.inf)
                elif k < 0:
                    thr = math.nextafter(thr, -math.inf)
                query = case.sk[case.q]
                try:
                    cont = case.container(spec)
                except Exception as e:      # noqa: BLE001
                    res = "err-build " + exc_name(e)
                else:
                    cont = selected(cont, spec, query, mode in ("c", "m"))
                    r = cont.search(query, threshold=thr, do_containment=(mode == "c"),
                                    do_max_containment=(mode == "m"), best_only=bool(best))
                    flag, items = fmt_results(r, True)
                    res = line(flag, tag_for(op, spec, mode, best, query, case.sigs()), items)
            elif op == "prefetch":
                spec, bp, best = a[0], int(a[1]), int(a[2])
                query = case.sk[case.q]
                try:
                    cont = case.container(spec)
                except Exception as e:      # noqa: BLE001
                    res = "err-build " + exc_name(e)
                else:
                    cont = selected(cont, spec, query, True)
                    r = list(cont.prefetch(query, bp, best_only=bool(best)))
                    flag, items = fmt_results(r, False)
                    res = line(flag, tag_for(op, spec, "c", best, query, case.sigs()), items)
            elif op == "best":
                spec, bp = a[0], int(a[1])
                query = case.sk[case.q]
                try:
                    cont = case.container(spec)
                except Exception as e:      # noqa: BLE001
                    res = "err-build " + exc_name(e)
                else:
                    cont = selected(cont, spec, query, True)
                    r = cont.best_containment(query, threshold_bp=bp)
                    flag, items = fmt_results([] if r is None else [r], False)
                    res = line(flag, "T", items)
            elif op == "clisearch":
                res = cli_search(case, a) if case.q is not None else "bad-op"
            elif op == "cliprefetch":
                res = cli_prefetch(case, a) if case.q is not None else "bad-op"
            else:
                res = "bad-op"
        except BaseException as e:          # noqa: BLE001
            if isinstance(e, (KeyboardInterrupt, SystemExit)):
                raise
            res = "err " + exc_name(e)
            if os.environ.get("VERIF_DEBUG"):
                import traceback
                traceback.print_exc(file=sys.stderr)
        out.write(res + "\n")
    case.close()
    out.flush()


if __name__ == "__main__":
    main()
