"""Real-code adapter for the `search` stream (C06).

One case = a table of sketches (`sk`), a database (`db`: ordered list of sketch ids), a query (`q`)
and search operations against containers built from exactly those sketches:

  lin                 LinearIndex (in memory)
  lazy                LazyLinearIndex(LinearIndex)
  dir                 MultiIndex.load_from_directory   (one .sig file per sketch)
  plist               MultiIndex.load_from_pathlist    (text file naming the .sig files)
  zip                 ZipFileLinearIndex (written with SaveSignaturesToLocation, manifest inside)
  mf                  StandaloneManifestIndex over a CSV manifest of the .sig files
  sbt-D-T-C-S         SBT, arity D, Bloom table size T, node-cache size C (0 = unbounded),
                      S=1: saved to .sbt.zip and loaded again (C applies), S=0: the in-memory tree
  lca                 LCA_Database at the database's scaled
  sql                 SqliteIndex (.sqldb file)

Every file lives under <verif>/.build/tmp/search-<pid>/ and is removed after each case.
Observations: `ok <sorted-flag> name/md5/score.hex() ...` (canonically sorted), errors `err <Class>`.
The linear family is called directly; the indexed family (sbt, lca, sql) first gets the
`select(ksize, moltype, num, scaled, containment)` call the command line issues, because that is where
these classes document which queries they refuse.
"""
import os
import shutil
import sys

import sourmash
from sourmash import MinHash, SourmashSignature
from sourmash.index import LinearIndex, LazyLinearIndex, MultiIndex, ZipFileLinearIndex, StandaloneManifestIndex
from sourmash.manifest import CollectionManifest
from sourmash.sbtmh import create_sbt_index, load_sbt_index
from sourmash.lca.lca_db import LCA_Database
from sourmash.index.sqlite_index import SqliteIndex
from sourmash.save_load import SaveSignaturesToLocation
from sourmash import signature as sigmod

import re
from sourmash.logging import set_quiet

set_quiet(True)
KSIZE = 31
SPEC_RE = re.compile(r"^(lin|lazy|dir|plist|zip|zipnm|mf|lca|lcasql|sql|sbt-([2-9]|\d\d+)-\d+-\d+-[01])$")
VERIF = os.path.dirname(os.path.dirname(os.path.dirname(os.path.abspath(__file__))))
TMPROOT = os.path.join(os.environ.get("VERIF_BUILD", os.path.join(VERIF, ".build")), "tmp")


def mh_md5(mh):
    """md5 of a sketch through the native entry point (the signature's md5sum() is another route to it)"""
    from sourmash._lowlevel import lib
    from sourmash.utils import decode_str
    return decode_str(mh._methodcall(lib.kmerminhash_md5sum))


def exc_name(e):
    for cls in (TypeError, RuntimeError, ValueError, AssertionError, OverflowError, NotImplementedError,
                StopIteration, KeyError, IndexError, ZeroDivisionError):
        if isinstance(e, cls):
            return cls.__name__
    return type(e).__name__


def show(mh):
    hs = mh.hashes
    keys = sorted(hs.keys())
    mins = ",".join(str(k) for k in keys)
    ab = ",".join(str(hs[k]) for k in keys) if mh.track_abundance else "-"
    return f"ok num={mh.num} mh={mh._max_hash} sc={mh.scaled} tr={int(mh.track_abundance)} mins={mins} ab={ab}"


class Case:
    def __init__(self, n):
        self.sk = {}
        self.db = []
        self.q = None
        self.cont = {}
        self.dir = os.path.join(TMPROOT, f"search-{os.getpid()}-{n}")
        self.sigfiles = None
        self.cli_files = []
        self.route = 0          # alternates among equivalent spellings of one operation; the model does not see it
        self.loc = {}           # spec -> expected location of every database position (None = do not check)
        self.under = {}         # spec -> the object `insert` goes to (LazyLinearIndex wraps one)
        self.whole = {}         # spec -> the location the container itself must report (file-backed kinds)
        self.history = []       # (what, [(signature object, name, md5, hashes)]) of every result handed out so far
        self.generation = 0     # bumped by `insert`
        self.snap = {}          # sketch id -> (md5, hashes) when it was defined
        self.nops = -1          # index of the current op line within the case

    def next_route(self, n):
        self.route += 1
        return self.route % n

    def close(self):
        for c in self.cont.values():
            try:
                if isinstance(c, SqliteIndex):
                    c.close()
            except Exception:       # noqa: BLE001
                pass
        self.cont = {}
        if os.path.isdir(self.dir):
            shutil.rmtree(self.dir, ignore_errors=True)

    def tmp(self, name):
        os.makedirs(self.dir, exist_ok=True)
        return os.path.join(self.dir, name)

    def sigs(self):
        return [self.sk[i] for i in self.db]

    def write_sigfiles(self):
        """one JSON file per database entry, names in database order"""
        if self.sigfiles is None:
            d = self.tmp("sigs")
            os.makedirs(d, exist_ok=True)
            out = []
            for n, ss in enumerate(self.sigs()):
                p = os.path.join(d, f"{n:03d}.sig")
                with open(p, "w") as fp:
                    sigmod.save_signatures_to_json([ss], fp)
                out.append(p)
            self.sigfiles = (d, out)
        return self.sigfiles

    def container(self, spec):
        if spec in self.cont:
            return self.cont[spec]
        sigs = self.sigs()
        n = len(sigs)
        loc = None
        whole = None
        r = self.next_route(3)
        if spec == "lin":
            if r == 0 or not sigs:
                c = LinearIndex(sigs)
                loc = [None] * n
            elif r == 1:
                c = LinearIndex()
                for ss in sigs:
                    c.insert(ss)
                loc = [None] * n
            else:
                p = self.tmp(f"lin{self.generation}.sig")
                with open(p, "w") as fp:
                    sigmod.save_signatures_to_json(sigs, fp)
                c = LinearIndex.load(p)
                loc = [p] * n
                whole = p
            self.under[spec] = c
        elif spec == "lazy":
            if r == 2 and sigs:
                # what `prefetch --linear` does: the lazy wrapper around a loaded collection that has locations
                d, files = self.write_sigfiles()
                c = LazyLinearIndex(MultiIndex.load_from_directory(d))
                self.under.pop(spec, None)
                loc = list(files)
            else:
                inner = LinearIndex(sigs)
                c = LazyLinearIndex(inner)
                if r == 1 and sigs:
                    # a chained, deferred select (the command line always selects)
                    c = c.select(ksize=KSIZE, moltype="DNA")
                self.under[spec] = inner
                loc = [None] * n
        elif spec == "dir":
            d, files = self.write_sigfiles()
            if files and r == 1:
                # the same directory named by a relative path: the locations are relative as well
                back = os.getcwd()
                os.chdir(self.dir)
                try:
                    c = MultiIndex.load_from_directory(os.path.relpath(d, self.dir))
                finally:
                    os.chdir(back)
                loc = [os.path.relpath(f, self.dir) for f in files]
                whole = os.path.relpath(d, self.dir)
            else:
                c = MultiIndex.load_from_directory(d) if files else MultiIndex.load([], [], None)
                loc = list(files)
                whole = d if files else None
        elif spec == "plist":
            d, files = self.write_sigfiles()
            if files:
                p = self.tmp(f"pathlist{self.generation}.txt")
                with open(p, "w") as fp:
                    fp.write("\n".join(files) + "\n")
                c = MultiIndex.load_from_pathlist(p) if r else sourmash.load_file_as_index(p)
                whole = p
            else:
                c = MultiIndex.load([], [], None)
            loc = list(files)
        elif spec in ("zip", "zipnm"):
            p = self.tmp(f"coll{self.generation}.zip")
            if not os.path.exists(p):
                with SaveSignaturesToLocation(p) as save:
                    for ss in sigs:
                        save.add(ss)
            if spec == "zipnm":
                c = ZipFileLinearIndex.load(p, use_manifest=False)
            else:
                c = ZipFileLinearIndex.load(p) if r else sourmash.load_file_as_index(p)
            loc = [p] * n
            whole = p
        elif spec == "mf":
            # every file also holds a sketch the manifest does NOT list (and that would match): the index must
            # pick from each file only what its manifest names
            d = self.tmp(f"mfsigs{self.generation}")
            os.makedirs(d, exist_ok=True)
            files = []
            for k, ss in enumerate(sigs):
                f = os.path.join(d, f"{k:03d}.sig")
                with open(f, "w") as fp:
                    sigmod.save_signatures_to_json([decoy_of(ss, k), ss], fp)
                files.append(f)

            def it():
                for ss, f in zip(sigs, files):
                    yield ss, f
            m = CollectionManifest.create_manifest(it(), include_signature=False)
            p = self.tmp(f"mf{self.generation}.csv")
            with open(p, "w", newline="") as fp:
                m.write_to_csv(fp, write_header=True)
            c = StandaloneManifestIndex.load(p) if r else sourmash.load_file_as_index(p)
            loc = list(files)
            whole = p
        elif spec.startswith("sbt-"):
            _, d, t, cs, saved = spec.split("-")
            c = create_sbt_index(bloom_filter_size=int(t), n_children=int(d))
            for ss in sigs:
                c.insert(ss)
            if int(saved) and sigs:      # an empty tree cannot be saved (C10); search the in-memory one
                p = self.tmp(f"tree-{d}-{t}-{self.generation}.sbt.zip")
                c.save(p)
                c = load_sbt_index(p, cache_size=(int(cs) or None))
                loc = [p] * n
            self.under[spec] = c
        elif spec in ("lca", "lcasql"):
            scs = {ss.minhash.scaled for ss in sigs}
            sc = max(scs) if scs else 1
            c = LCA_Database(KSIZE, sc)
            for ss in sigs:
                c.insert(ss)
            loc = [None] * n
            if spec == "lca" and r == 1 and sigs:
                p = self.tmp(f"db{self.generation}.lca.json")
                c.save(p)
                c = LCA_Database.load(p)
                loc = [p] * n
            if spec == "lcasql":
                p = self.tmp(f"db{self.generation}.lca.sqldb")
                c.save_to_sql(p)
                c = sourmash.load_file_as_index(p)
                loc = [p] * n
                whole = p
            self.under[spec] = c
        elif spec == "sql":
            p = self.tmp(f"idx{self.generation}.sqldb")
            if r == 1 and sigs:
                with SaveSignaturesToLocation(p) as save:
                    for ss in sigs:
                        save.add(ss)
                c = sourmash.load_file_as_index(p)
            else:
                c = SqliteIndex.create(p)
                for ss in sigs:
                    c.insert(ss)
            loc = [p] * n
            whole = p
            self.under[spec] = c
        else:
            raise AssertionError(spec)
        self.cont[spec] = c
        self.loc[spec] = loc
        self.whole[spec] = whole
        v = self.views(spec, c)
        if v:
            raise ViewFail(v)
        return c

    # ---- views must agree ---------------------------------------------------------------------------
    def expected_md5s(self, spec):
        sigs = self.sigs()
        if spec in ("lca", "lcasql") and sigs:
            sc = max(ss.minhash.scaled for ss in sigs)
            return sorted(mh_md5(ss.minhash.flatten().downsample(scaled=sc)) if ss.minhash.scaled else ss.md5sum() for ss in sigs)
        return sorted(ss.md5sum() for ss in sigs)

    def views(self, spec, c):
        """len / bool / signatures() / signatures_with_location() / manifest rows of a container agree with each other
        and with what was stored; -> '' or what disagrees"""
        sigs = self.sigs()
        kind = spec.split("-")[0]
        try:
            n = len(c)
        except (NotImplementedError, TypeError):
            n = None
        if n is not None and n != len(sigs):
            return f"len:{kind}:{n}!={len(sigs)}"
        if self.whole.get(spec) is not None and str(c.location) != str(self.whole[spec]):
            return f"container-location:{kind}:{os.path.basename(str(c.location))}"
        if not sigs:
            return ""
        if kind not in ("sbt",) and bool(c) != bool(sigs):
            return f"bool:{kind}"
        got = sorted(ss.md5sum() for ss in c.signatures())
        if got != self.expected_md5s(spec):
            return f"signatures:{kind}:{len(got)}-of-{len(sigs)}"
        wl = list(c.signatures_with_location())
        if sorted(ss.md5sum() for ss, _ in wl) != got:
            return f"signatures_with_location:{kind}"
        loc = self.loc.get(spec)
        if loc is not None and kind not in ("lca",):
            by = {}
            for pos, ss in enumerate(sigs):
                by.setdefault((ss.name, ss.md5sum()), set()).add(loc[pos])
            for ss, l in wl:
                want = by.get((ss.name, ss.md5sum()))
                if want is not None and l not in want and kind != "lcasql":
                    return f"location:{kind}:{os.path.basename(str(l))}"
        m = getattr(c, "manifest", None)
        if m is not None and kind in ("dir", "plist", "zip", "mf", "sql"):
            rows = list(m.rows)
            if len(rows) != len(sigs):
                return f"manifest-rows:{kind}:{len(rows)}"
            if sorted(r["md5"] for r in rows) != got:
                return f"manifest-md5:{kind}"
            names = sorted((r["name"] or "") for r in rows)
            if names != sorted(ss.name for ss in sigs):
                return f"manifest-names:{kind}"
            if kind in ("dir", "plist", "mf") and loc is not None:
                ml = {}
                for r in rows:
                    il = r["internal_location"]
                    if kind == "dir":
                        il = os.path.join(c.parent, il)
                    ml.setdefault((r["name"], r["md5"]), set()).add(il)
                for ss, l in wl:
                    if l not in ml.get((ss.name, ss.md5sum()), {l}):
                        return f"manifest-location:{kind}"
        return ""

    def check_results(self, spec, res):
        """every result: location, md5 of signature vs md5 of its sketch, the signature handed out is the stored one"""
        loc = self.loc.get(spec)
        kind = spec.split("-")[0]
        sigs = self.sigs()
        by = {}
        for pos, ss in enumerate(sigs):
            by.setdefault(ss.name, []).append(pos)
        for r in res:
            ss = r.signature
            if ss.md5sum() != mh_md5(ss.minhash):
                return f"md5:{kind}"
            poss = by.get(ss.name)
            if poss is None:
                return f"unknown-signature:{kind}"
            if kind not in ("lca", "lcasql"):
                if not any(sorted(sigs[p].minhash.hashes.items()) == sorted(ss.minhash.hashes.items()) and
                           sigs[p].minhash.scaled == ss.minhash.scaled and sigs[p].minhash.num == ss.minhash.num for p in poss):
                    return f"returned-sketch-differs:{kind}"
            if loc is not None:
                want = {loc[p] for p in poss}
                have = r.location
                if kind == "lca":
                    want = {getattr(self.cont[spec], "filename", None)}
                if have not in want:
                    return f"result-location:{kind}:{os.path.basename(str(have))}"
        return ""

    def remember(self, what, res):
        self.history.append((what, [(r.signature, r.signature.name, r.signature.md5sum(),
                                     sorted(r.signature.minhash.hashes.items()), float(r.score)) for r in res], res))

    def check_history(self):
        """results handed out earlier are still what they were"""
        for what, items, res in self.history:
            for (ss, name, md5, hs, score), r in zip(items, res):
                if ss.name != name or ss.md5sum() != md5 or sorted(ss.minhash.hashes.items()) != hs or float(r.score) != score \
                        or r.signature is not ss:
                    return f"history:{what.split()[0]}"
        for i, ss in self.sk.items():
            snap = self.snap.get(i)
            if snap is not None and (ss.md5sum(), sorted(ss.minhash.hashes.items())) != snap:
                return f"history:input-sketch-{i}-changed"
        return ""


class ViewFail(Exception):
    pass


def fmt_results(res, check_sorted):
    items = []
    scores = []
    for r in res:
        score = float(r.score)
        scores.append(score)
        items.append((r.signature.name, r.signature.md5sum(), score))
    flag = 1
    if check_sorted:
        flag = int(all(scores[i] >= scores[i + 1] for i in range(len(scores) - 1)))
    return flag, items


def line(flag, tag, items):
    if tag != "O":
        items = sorted(items)
    return " ".join(["ok", str(flag), tag] + [f"{n}/{m}/{s.hex()}" for n, m, s in items])


ORDERED = ("lin", "lazy")
INDEXED = ("sbt", "lca", "sql")


def tag_for(op, spec, mode, best, query, sigs):
    """how this line is to be compared with the model's (see DriverSearch.lean)"""
    if op == "searchord":
        return "O"
    if op == "best":
        return "T"
    if best and spec not in ORDERED:
        return "B"
    return "E"




def selected(cont, spec, query, containment):
    if spec.split("-")[0] in INDEXED:
        mh = query.minhash
        return cont.select(ksize=mh.ksize, moltype=mh.moltype, num=mh.num, scaled=mh.scaled, containment=containment)
    return cont



# --------------------------------------------------------------------------
# one operation, several routes (the model sees none of this)

def api_search(case, cont, spec, query, thr, mode, best):
    from sourmash.search import make_jaccard_search_query
    r = case.next_route(3)
    kind = spec.split("-")[0]
    kw = dict(do_containment=(mode == "c"), do_max_containment=(mode == "m"), best_only=bool(best))
    if r == 1:
        # what Index.search does, spelled out: the search object + find(), then a stable sort
        so = make_jaccard_search_query(threshold=thr, **kw)
        res = list(cont.find(so, query))
        res.sort(key=lambda x: -x.score)
        return res
    if r == 2 and kind == "sbt" and mode == "j" and not best:
        from sourmash.sbtmh import search_sbt_index
        from sourmash.index import IndexSearchResult
        return sorted((IndexSearchResult(sc, m, cont.location) for m, sc in search_sbt_index(cont, query, thr)),
                      key=lambda x: -x.score)
    if r == 0:
        kw = {k: v for k, v in kw.items() if v}     # the keywords left to their defaults
    return cont.search(query, threshold=thr, **kw)


def api_prefetch(case, cont, query, bp, best):
    from sourmash.search import make_containment_query
    r = case.next_route(3)
    if r == 1:
        # Index.prefetch spelled out
        if not cont:
            raise ValueError("no signatures to search")
        so = make_containment_query(query.minhash, bp, best_only=bool(best))
        return list(cont.find(so, query))
    if r == 2 and not best:
        return list(cont.prefetch(query, bp))       # the keyword left to its default (all matches)
    return list(cont.prefetch(query, bp, best_only=bool(best)))


def _angular(qmh, smh):
    """abundance-weighted similarity of two scaled sketches, computed from their hash:abundance tables"""
    import math
    top = min(qmh._max_hash, smh._max_hash)     # both at the coarser of the two scaled values
    a = {h: v for h, v in qmh.hashes.items() if h <= top}
    b = {h: v for h, v in smh.hashes.items() if h <= top}
    na, nb = math.sqrt(sum(v * v for v in a.values())), math.sqrt(sum(v * v for v in b.values()))
    if not na or not nb:
        return 0.0
    return 1.0 - 2.0 * math.acos(min(1.0, sum(v * b.get(h, 0) for h, v in a.items()) / (na * nb))) / math.pi


def abund_agrees(case, cont, spec, query, thr):
    """Index.search_abund next to Index.search: its documented refusals (a flat query, no threshold, a flat subject),
    and, where it applies, threshold 0 hands out the whole collection, a threshold filters that list, best first,
    every score is the angular similarity of exactly that stored sketch, every location is the stored one"""
    kind = spec.split("-")[0]
    sigs = case.sigs()
    if kind not in ("lin", "lazy", "dir", "plist", "zip", "zipnm", "mf") or not sigs:
        return ""
    qmh = query.minhash

    def refused(**kw):
        try:
            cont.search_abund(query, **kw)
        except TypeError:
            return True
        except Exception:       # noqa: BLE001
            return None
        return False
    if not qmh.track_abundance:
        return "" if refused(threshold=thr) is not False else "search_abund-accepts-flat-query"
    if refused() is False:
        return "search_abund-accepts-no-threshold"
    if not all(ss.minhash.track_abundance for ss in sigs):
        return "" if refused(threshold=0.0) is not False else "search_abund-accepts-flat-subject"
    if not qmh.scaled or not all(ss.minhash.scaled for ss in sigs):
        return ""
    everything = cont.search_abund(query, threshold=0.0)
    if sorted(r.signature.md5sum() for r in everything) != sorted(ss.md5sum() for ss in sigs):
        return f"search_abund-threshold-0:{kind}:{len(everything)}-of-{len(sigs)}"
    v = case.check_results(spec, everything)
    if v:
        return "search_abund-" + v
    sc = [float(r.score) for r in everything]
    if any(sc[i] < sc[i + 1] for i in range(len(sc) - 1)):
        return f"search_abund-unsorted:{kind}"
    for r in everything:
        if abs(float(r.score) - _angular(qmh, r.signature.minhash)) > 1e-9:
            return f"search_abund-score:{kind}:{r.signature.name}"
    t = min(max(thr, 0.0), 1.0)
    part = cont.search_abund(query, threshold=t)
    if [(r.signature.name, float(r.score)) for r in part] != [(r.signature.name, float(r.score)) for r in everything if r.score >= t]:
        return f"search_abund-threshold-filter:{kind}"
    return ""


def peek_agrees(cont, query, bp, r):
    """Index.peek (the CounterGather look-alike on top of best_containment) against best_containment's answer"""
    from sourmash.minhash import flatten_and_intersect_scaled
    if not query.minhash.scaled or query.minhash.track_abundance:
        return ""
    try:
        pk = cont.peek(query.minhash, threshold_bp=bp)
    except Exception as e:      # noqa: BLE001
        return f"peek-raised-{exc_name(e)}"
    if r is None:
        return "" if not pk else "peek-found-something"
    if not pk:
        return "peek-found-nothing"
    res, imh = pk
    if float(res.score) != float(r.score):
        return "peek-score"
    want = flatten_and_intersect_scaled(res.signature.minhash, query.minhash)
    if sorted(imh.hashes) != sorted(want.hashes) or imh.scaled != want.scaled:
        return "peek-intersection"
    return ""


def selected_any(case, cont, spec, query, containment):
    """the indexed containers are always select()ed first (that is where they refuse); the list-like ones
    alternately, as the command line would"""
    kind = spec.split("-")[0]
    mh = query.minhash
    if kind in INDEXED or kind == "lcasql":
        return cont.select(ksize=mh.ksize, moltype=mh.moltype, num=mh.num, scaled=mh.scaled, containment=containment)
    if case.next_route(2) == 1 and (mh.scaled or (mh.num and not containment)) and kind != "lazy":
        homog = all(bool(ss.minhash.num) == bool(mh.num) and (not mh.num or ss.minhash.num == mh.num) for ss in case.sigs())
        if homog:
            return cont.select(ksize=mh.ksize, moltype=mh.moltype, num=mh.num, scaled=mh.scaled, containment=containment)
    return cont


# --------------------------------------------------------------------------
# command-line tier: `sourmash search` / `sourmash prefetch` run through the real entry point
# (sourmash.__main__.main with an argv), compared with the in-process API on the same database files

import contextlib
import csv
import io


def run_cli(argv, cwd=None):
    """-> (exit code, stdout text, exception class or None); with `cwd`, every argument under that directory is
    handed over as a path relative to it and the command runs from there (the same files, spelled differently)"""
    from sourmash.__main__ import main as sm_main
    out = io.StringIO()
    err = io.StringIO()
    code, exc = 0, None
    back = os.getcwd()
    if cwd:
        argv = [os.path.relpath(x, cwd) + ("/" if x.endswith("/") else "")
                if isinstance(x, str) and x.startswith(cwd + os.sep) else x for x in argv]
        os.chdir(cwd)
    try:
        with contextlib.redirect_stdout(out), contextlib.redirect_stderr(err):
            sm_main(argv)
    except SystemExit as e:
        code = e.code if isinstance(e.code, int) else (0 if e.code is None else 1)
    except BaseException as e:          # noqa: BLE001
        if isinstance(e, KeyboardInterrupt):
            raise
        code, exc = 1, exc_name(e)
    finally:
        os.chdir(back)
        set_quiet(True)
    return code, out.getvalue(), exc


def decoy_of(ss, k):
    """a sketch that is NOT part of the database: the hashes of `ss` plus one (another md5)"""
    mh = ss.minhash.to_mutable()
    extra = 1000003 + k
    if mh.track_abundance:
        mh.add_hash_with_abundance(extra, 1)
    else:
        mh.add_hash(extra)
    return SourmashSignature(mh, name=f"decoy{k}")


def build_db_file(case, stem, kind, sigs):
    """write one database of the given kind holding `sigs`; -> path (names are functions of the op's position in the
    case, so that the oracle knows which location every row must report)"""
    base = case.tmp(stem)

    def sigdir(d):
        os.makedirs(d, exist_ok=True)
        files = []
        for k, ss in enumerate(sigs):
            f = os.path.join(d, f"{k:03d}.sig")
            with open(f, "w") as fp:
                sigmod.save_signatures_to_json([ss], fp)
            files.append(f)
        return files
    if kind == "sig":
        p = base + ".sig"
        with open(p, "w") as fp:
            sigmod.save_signatures_to_json(sigs, fp)
    elif kind == "dir":
        p = base + "_dir"
        sigdir(p)
    elif kind == "plist":
        files = sigdir(base + "_pl")
        p = base + ".pathlist.txt"
        with open(p, "w") as fp:
            fp.write("\n".join(files) + "\n")
    elif kind == "zip":
        p = base + ".zip"
        with SaveSignaturesToLocation(p) as save:
            for ss in sigs:
                save.add(ss)
    elif kind == "sbt":
        p = base + ".sbt.zip"
        t = create_sbt_index(bloom_filter_size=50, n_children=2)
        for ss in sigs:
            t.insert(ss)
        t.save(p)
    elif kind in ("lca", "lcasql"):
        p = base + (".lca.json" if kind == "lca" else ".lca.sqldb")
        sc = max(ss.minhash.scaled for ss in sigs)
        db = LCA_Database(KSIZE, sc)
        for ss in sigs:
            db.insert(ss)
        if kind == "lca":
            db.save(p)
        else:
            db.save_to_sql(p)
    elif kind == "sql":
        p = base + ".sqldb"
        db = SqliteIndex.create(p)
        for ss in sigs:
            db.insert(ss)
        db.commit()
        db.close()
    elif kind == "mf":
        d = base + "_mf"
        os.makedirs(d, exist_ok=True)
        files = []
        for k, ss in enumerate(sigs):
            f = os.path.join(d, f"{k:03d}.sig")
            with open(f, "w") as fp:
                sigmod.save_signatures_to_json([decoy_of(ss, k), ss], fp)
            files.append(f)
        m = CollectionManifest.create_manifest(((ss, f) for ss, f in zip(sigs, files)), include_signature=False)
        p = base + ".manifest.csv"
        with open(p, "w", newline="") as fp:
            m.write_to_csv(fp, write_header=True)
    else:
        raise AssertionError(kind)
    return p


def parse_dbspec(case, spec):
    """'sig:0,1;zip:2' -> [(kind, path)]"""
    out = []
    for n, part in enumerate(spec.split(";")):
        kind, ids = part.split(":")
        sigs = [case.sk[int(i)] for i in ids.split(",") if i != ""]
        out.append((kind, build_db_file(case, f"c{case.nops}_{n}", kind, sigs)))
    return out


def rel(case, path):
    """a location as the oracle can predict it: relative to the case's scratch directory"""
    if path is None or path == "":
        return "-"
    path = str(path)
    return os.path.relpath(path, case.dir) if path.startswith(case.dir) else path


def fmt_rows(rows):
    return ",".join("|".join(str(x) for x in r) for r in rows) or "-"


def read_sig_hashes(path):
    out = []
    if os.path.isdir(path):
        srcs = [os.path.join(path, f) for f in sorted(os.listdir(path))]
    elif not os.path.exists(path) or os.path.getsize(path) < 5:      # "[]": nothing was saved
        return out
    else:
        srcs = [path]
    for src in srcs:
        try:
            for ss in sourmash.load_file_as_signatures(src):
                out.append((ss.name, ss.md5sum(), ss.minhash.scaled, sorted(ss.minhash.hashes)))
        except ValueError:
            pass        # a collection that holds no signature (nothing matched) cannot be loaded back
    return out


def write_query(case, query, tag):
    """the query file; alternately with a second signature in it, selected with --md5"""
    qf = case.tmp(f"c{case.nops}_{tag}query.sig")
    extra = []
    if case.next_route(3) == 0:
        decoy = MinHash(0, KSIZE, scaled=(query.minhash.scaled or 1) if not query.minhash.num else 0,
                        n=query.minhash.num) if False else None
        mh = query.minhash.copy_and_clear().flatten() if query.minhash.track_abundance else query.minhash.copy_and_clear()
        mh = mh.to_mutable()
        mh.add_many([11, 12, 13])
        extra = [SourmashSignature(mh, name="decoy")]
    with open(qf, "w") as fp:
        sigmod.save_signatures_to_json(extra + [query], fp)
    return qf, (["--md5", query.md5sum()[:10]] if extra else [])


def cli_search(case, a):
    spec, mode, best, thrtext, nres, ignore = a[0], a[1], int(a[2]), a[3], int(a[4]), int(a[5])
    query = case.sk[case.q]
    dbs = parse_dbspec(case, spec)
    qf, qsel = write_query(case, query, "")
    out_csv = case.tmp(f"c{case.nops}_out.csv")
    flat_homog = all(not case.sk[int(i)].minhash.track_abundance and not case.sk[int(i)].minhash.num
                     for part in spec.split(";") for i in part.split(":")[1].split(",") if i != "")
    r = case.next_route(4)
    out_m = case.tmp(f"c{case.nops}_matches" + [".sig", ".zip", "_dir/", ".sig.gz"][r])
    argv = ["search", qf] + [p for _, p in dbs] + qsel + ["--threshold", thrtext, "-o", out_csv, "--save-matches", out_m,
                                                         "-n", str(nres)]
    if mode == "c":
        argv.append("--containment")
    elif mode == "m":
        argv.append("--max-containment")
    if best:
        argv.append("--best-only")
    if ignore:
        argv.append("--ignore-abundance")
    nofail = case.next_route(4) == 3
    if nofail:
        # a database left empty by the selection (or refusing it) is passed over instead of ending the command
        argv.append("--no-fail-on-empty-database")
    fl = " F=1" if nofail else ""

    cwd = case.dir if case.next_route(2) else None

    def once(csvp):
        av = [csvp if x == out_csv else x for x in argv]
        code, stdout, exc = run_cli(av, cwd)
        if exc:
            return f"err {exc}", None, None
        if code != 0:
            return f"exit {code}", None, None
        rows = []
        if os.path.exists(csvp) and os.path.getsize(csvp):
            with open(csvp, newline="") as fp:
                for rw in csv.DictReader(fp):
                    rows.append((rw["name"], rw["md5"], float(rw["similarity"]).hex(), rel(case, rw["filename"]),
                                 rw["query_name"], rw["query_md5"]))
        shown = sum(1 for l in stdout.split("\n") if re.match(r"^\s*\d+\.\d%\s", l))
        return None, rows, shown
    err, rows, shown = once(out_csv)
    if err:
        return err + fl
    saved = [(n, m) for n, m, _, _ in read_sig_hashes(out_m.rstrip("/"))]
    note = ""
    if case.next_route(4) == 0:
        # read-only: the same command again (the matches file is appended to / rewritten: not compared)
        if os.path.isdir(out_m.rstrip("/")):
            shutil.rmtree(out_m.rstrip("/"))
        elif os.path.exists(out_m):
            os.remove(out_m)
        err2, rows2, shown2 = once(case.tmp(f"c{case.nops}_out2.csv"))
        if err2 or rows2 != rows or shown2 != shown:
            note = " R=differs"
    # the in-process answer on the same database files, put together as the command does
    from sourmash.search import search_databases_with_flat_query, search_databases_with_abund_query
    from sourmash import sourmash_args
    q2 = [x for x in sourmash.load_file_as_signatures(qf) if x.name != "decoy"][0]
    with contextlib.redirect_stdout(io.StringIO()):
        loaded = sourmash_args.load_dbs_and_sigs([p for _, p in dbs], q2, mode == "j")
    if q2.minhash.track_abundance and ignore:
        with q2.update() as q2:
            q2.minhash = q2.minhash.flatten()
    kw = dict(threshold=float(thrtext), do_containment=(mode == "c"), do_max_containment=(mode == "m"),
              best_only=bool(best), unload_data=True)
    if q2.minhash.track_abundance:
        api = search_databases_with_abund_query(q2, loaded, **kw)
    else:
        api = search_databases_with_flat_query(q2, loaded, **kw)
    arows = [(r.match.name, r.match.md5sum(), float(r.similarity).hex()) for r in api]
    return (f"ok C={fmt_rows(rows)} A={fmt_rows(arows)} S={','.join(n + '/' + m for n, m in saved) or '-'} D={shown}"
            f" Q={query.name}/{query.md5sum()[:8]}{note}{fl}")


def cli_prefetch(case, a):
    spec, bptext = a[0], a[1]
    query = case.sk[case.q]
    dbs = parse_dbspec(case, spec)
    qf, qsel = write_query(case, query, "p")
    k = case.nops
    out_csv = case.tmp(f"c{k}_pout.csv")
    r = case.next_route(3)
    out_m = case.tmp(f"c{k}_pmatches" + [".sig", ".zip", "_dir/"][r])
    out_u, out_k = case.tmp(f"c{k}_punmatched.sig"), case.tmp(f"c{k}_pmatching.sig")
    argv = ["prefetch", qf] + [p for _, p in dbs] + qsel + ["--threshold-bp", bptext, "-o", out_csv, "--save-matches", out_m,
                                                           "--save-unmatched-hashes", out_u, "--save-matching-hashes", out_k]
    lin = case.next_route(3)
    if lin:
        # the same answer is promised with the index structures bypassed (LazyLinearIndex over each database) ...
        argv.append(["--no-linear", "--linear"][lin - 1])
    code, stdout, exc = run_cli(argv, case.dir if case.next_route(2) else None)
    if exc:
        return f"err {exc}"
    if code != 0:
        return f"exit {code}"
    rows = []
    if os.path.exists(out_csv) and os.path.getsize(out_csv):
        with open(out_csv, newline="") as fp:
            for rw in csv.DictReader(fp):
                rows.append((rw["match_name"], rw["match_md5"], f"{rw['intersect_bp']}:{rw['scaled']}",
                             f"{rw['query_bp']}:{rw['match_bp']}:{rw['query_n_hashes']}:{float(rw['jaccard']).hex()}:"
                             f"{rw['ksize']}:{rw['moltype']}:{rw['query_abundance']}",
                             rel(case, rw["match_filename"]), rw["query_name"], rw["query_md5"]))
    saved = [(n, m) for n, m, _, _ in read_sig_hashes(out_m.rstrip("/"))]
    un = read_sig_hashes(out_u)
    kn = read_sig_hashes(out_k)
    # in-process: Index.prefetch on every database file, as the command selects it
    q2 = [x for x in sourmash.load_file_as_signatures(qf) if x.name != "decoy"][0]
    if q2.minhash.track_abundance:
        with q2.update() as q2:
            q2.minhash = q2.minhash.flatten()
    arows = []
    for _, p in dbs:
        db = sourmash.load_file_as_index(p)
        db = db.select(ksize=KSIZE, moltype="DNA", containment=True)
        if not db:
            continue
        # the command's own API route: search.prefetch_database = Index.prefetch + PrefetchResult.pass_threshold
        # (since 9b4a943 a row below threshold_bp after downsampling is skipped; before, it was asserted on)
        from sourmash.search import prefetch_database
        for r in prefetch_database(q2, db, float(bptext)):
            arows.append((r.match.name, r.match.md5sum(), float(r.f_match_query).hex()))

    def hs(x):
        return (f"{x[0][2]}:" + ".".join(map(str, x[0][3]))) if x else "-"
    return (f"ok C={fmt_rows(rows)} A={fmt_rows(arows)} S={','.join(n + '/' + m for n, m in saved) or '-'} "
            f"U={hs(un)} K={hs(kn)} Q={query.name}/{query.md5sum()[:8]}")


def main():
    out = sys.stdout
    case = Case(0)
    ncase = 0
    for raw in sys.stdin:
        w = raw.split()
        if not w:
            out.write("bad-op\n")
            continue
        op = w[0]
        try:
            if op == "#":
                case.close()
                ncase += 1
                case = Case(ncase)
                out.write("#\n")
                continue
            a = w[1:]
            case.nops += 1
            if op == "sk":
                i, num, scaled, track = int(a[0]), int(a[1]), int(a[2]), int(a[3])
                name = a[4]
                mh = MinHash(num, KSIZE, track_abundance=bool(track), scaled=scaled)
                if track:
                    vals = {}
                    for p in a[5:]:
                        k, v = p.split(":")
                        vals[int(k)] = int(v)
                    mh.set_abundances(vals)
                else:
                    mh.add_many([int(x) for x in a[5:]])
                case.sk[i] = SourmashSignature(mh, name=name)
                case.snap[i] = (case.sk[i].md5sum(), sorted(mh.hashes.items()))
                res = show(mh)
            elif op == "db":
                ids = [int(x) for x in a]
                if any(i not in case.sk for i in ids):
                    out.write("bad-op\n")
                    continue
                case.db = ids
                for c in case.cont.values():
                    if isinstance(c, SqliteIndex):
                        c.close()
                case.cont = {}
                case.generation += 1
                case.sigfiles = None
                res = f"ok {len(ids)}"
            elif op == "q":
                if int(a[0]) not in case.sk:
                    out.write("bad-op\n")
                    continue
                case.q = int(a[0])
                res = "ok"
            elif op in ("search", "searchord", "prefetch", "best") and (case.q is None or len(a) < 2 or not SPEC_RE.match(a[0])):
                res = "bad-op"
            elif op in ("search", "searchord"):
                spec, mode, best, n, d, k = a[0], a[1], int(a[2]), int(a[3]), int(a[4]), int(a[5])
                import math
                thr = n / d
                if k > 0:
                    thr = math.nextafter(thr, math.inf)
                elif k < 0:
                    thr = math.nextafter(thr, -math.inf)
                query = case.sk[case.q]
                hv = case.check_history()
                try:
                    cont = case.container(spec)
                except ViewFail as e:
                    res = "viewfail " + str(e)
                except Exception as e:      # noqa: BLE001
                    res = "err-build " + exc_name(e)
                else:
                    if case.next_route(2) == 0:
                        # (first: with an abundance query the flat search below is a documented refusal)
                        av = abund_agrees(case, cont, spec, query, thr)
                        if av:
                            out.write("viewfail " + av + "\n")
                            continue
                    sel = selected_any(case, cont, spec, query, mode in ("c", "m"))
                    r = api_search(case, sel, spec, query, thr, mode, best)
                    flag, items = fmt_results(r, True)
                    res = line(flag, tag_for(op, spec, mode, best, query, case.sigs()), items)
                    v = hv or case.check_results(spec, r)
                    if not v and case.next_route(3) == 0:
                        # read-only: asking again (through whatever route comes next) gives the same answer
                        r2 = api_search(case, selected_any(case, cont, spec, query, mode in ("c", "m")), spec, query, thr, mode, best)
                        if sorted(fmt_results(r2, True)[1]) != sorted(items) and not (best and spec not in ORDERED):
                            v = f"repeat:{spec.split('-')[0]}:search"
                    if not v and case.next_route(5) == 0:
                        # the documented refusal: a search needs a threshold
                        try:
                            sel.search(query)
                            v = "search-without-threshold-accepted"
                        except TypeError:
                            pass
                        except Exception as e:      # noqa: BLE001
                            v = "search-without-threshold-" + exc_name(e)
                    case.remember(raw.strip(), r)
                    if v:
                        res = "viewfail " + v
            elif op == "prefetch":
                spec, bp, best = a[0], int(a[1]), int(a[2])
                query = case.sk[case.q]
                hv = case.check_history()
                try:
                    cont = case.container(spec)
                except ViewFail as e:
                    res = "viewfail " + str(e)
                except Exception as e:      # noqa: BLE001
                    res = "err-build " + exc_name(e)
                else:
                    sel = selected_any(case, cont, spec, query, True)
                    r = api_prefetch(case, sel, query, bp, best)
                    flag, items = fmt_results(r, False)
                    res = line(flag, tag_for(op, spec, "c", best, query, case.sigs()), items)
                    v = hv or case.check_results(spec, r)
                    if not v and case.next_route(3) == 0:
                        r2 = api_prefetch(case, selected_any(case, cont, spec, query, True), query, bp, best)
                        if sorted(fmt_results(r2, False)[1]) != sorted(items) and not (best and spec not in ORDERED):
                            v = f"repeat:{spec.split('-')[0]}:prefetch"
                    case.remember(raw.strip(), r)
                    if v:
                        res = "viewfail " + v
            elif op == "best":
                spec, bp = a[0], int(a[1])
                query = case.sk[case.q]
                hv = case.check_history()
                try:
                    cont = case.container(spec)
                except ViewFail as e:
                    res = "viewfail " + str(e)
                except Exception as e:      # noqa: BLE001
                    res = "err-build " + exc_name(e)
                else:
                    sel = selected_any(case, cont, spec, query, True)
                    try:
                        r = sel.best_containment(query, threshold_bp=bp)
                    except ValueError:
                        # (an empty collection, an unattainable threshold) peek, the look-alike, says "nothing"
                        if query.minhash.scaled and not query.minhash.track_abundance and \
                                sel.peek(query.minhash, threshold_bp=bp):
                            out.write("viewfail peek-found-something-where-best-containment-refuses\n")
                            continue
                        raise
                    flag, items = fmt_results([] if r is None else [r], False)
                    res = line(flag, "T", items)
                    v = hv or case.check_results(spec, [] if r is None else [r]) or peek_agrees(sel, query, bp, r)
                    case.remember(raw.strip(), [] if r is None else [r])
                    if v:
                        res = "viewfail " + v
            elif op == "insert":
                # the database grows: containers that can take an insert get it IN PLACE (so that anything they cached
                # must be refreshed), file-backed ones are rebuilt from the longer list
                i = int(a[0])
                if i not in case.sk:
                    out.write("bad-op\n")
                    continue
                ss = case.sk[i]
                case.db.append(i)
                case.generation += 1
                case.sigfiles = None
                keep = {}
                for spec, c in list(case.cont.items()):
                    kind = spec.split("-")[0]
                    target = case.under.get(spec)
                    inplace = kind in ("lin", "lazy", "sql") or (kind == "sbt" and case.loc.get(spec) is None) or \
                        (kind == "lca" and case.loc.get(spec) is not None and case.loc[spec][:1] == [None])
                    if inplace and target is not None:
                        try:
                            target.insert(ss)
                        except Exception:       # noqa: BLE001   (e.g. a second scaled value into a SqliteIndex): rebuild
                            if isinstance(c, SqliteIndex):
                                c.close()
                            continue
                        keep[spec] = c
                        l = case.loc.get(spec)
                        if l is not None:
                            # (an empty file-backed container has no entry to copy the location from)
                            case.loc[spec] = l + [l[0] if l else (getattr(c, "location", None) if kind == "sql" else None)]
                    elif isinstance(c, SqliteIndex):
                        c.close()
                case.cont = keep
                res = f"ok {len(case.db)}"
                for spec, c in keep.items():
                    v = case.views(spec, c)
                    if v:
                        res = "viewfail after-insert:" + v
                        break
            elif op == "clisearch":
                res = cli_search(case, a) if case.q is not None else "bad-op"
            elif op == "cliprefetch":
                res = cli_prefetch(case, a) if case.q is not None else "bad-op"
            else:
                res = "bad-op"
        except BaseException as e:          # noqa: BLE001
            if isinstance(e, (KeyboardInterrupt, SystemExit)):
                raise
            res = "err " + exc_name(e)
            if os.environ.get("VERIF_DEBUG"):
                import traceback
                traceback.print_exc(file=sys.stderr)
        out.write(res + "\n")
    case.close()
    out.flush()


if __name__ == "__main__":
    main()
