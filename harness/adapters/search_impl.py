"""Real-code adapter for the `search` stream (C06).

One case = a table of sketches (`sk`), a database (`db`: ordered list of sketch ids), a query (`q`)
and search operations against containers built from exactly those sketches:

  lin                 LinearIndex (in memory)
  lazy                LazyLinearIndex(LinearIndex)
  dir                 MultiIndex.load_from_directory   (one .sig file per sketch)
  plist               MultiIndex.load_from_pathlist    (text file naming the .sig files)
  zip                 ZipFileLinearIndex (written with SaveSignaturesToLocation, manifest inside)
  mf                  StandaloneManifestIndex over a CSV manifest of the .sig files
  sbt-D-T-C-S         SBT, arity D, Bloom table size T, node-cache size C (0 = unbounded),
                      S=1: saved to .sbt.zip and loaded again (C applies), S=0: the in-memory tree
  lca                 LCA_Database at the database's scaled
  sql                 SqliteIndex (.sqldb file)

Every file lives under <verif>/.build/tmp/search-<pid>/ and is removed after each case.
Observations: `ok <sorted-flag> name/md5/score.hex() ...` (canonically sorted), errors `err <Class>`.
The linear family is called directly; the indexed family (sbt, lca, sql) first gets the
`select(ksize, moltype, num, scaled, containment)` call the command line issues, because that is where
these classes document which queries they refuse.
"""
import os
import shutil
import sys

import sourmash
from sourmash import MinHash, SourmashSignature
from sourmash.index import LinearIndex, LazyLinearIndex, MultiIndex, ZipFileLinearIndex, StandaloneManifestIndex
from sourmash.manifest import CollectionManifest
from sourmash.sbtmh import create_sbt_index, load_sbt_index
from sourmash.lca.lca_db import LCA_Database
from sourmash.index.sqlite_index import SqliteIndex
from sourmash.save_load import SaveSignaturesToLocation
from sourmash import signature as sigmod

import re
from sourmash.logging import set_quiet

set_quiet(True)
KSIZE = 31
SPEC_RE = re.compile(r"^(lin|lazy|dir|plist|zip|mf|lca|sql|sbt-([2-9]|\d\d+)-\d+-\d+-[01])$")
VERIF = os.path.dirname(os.path.dirname(os.path.dirname(os.path.abspath(__file__))))
TMPROOT = os.path.join(os.environ.get("VERIF_BUILD", os.path.join(VERIF, ".build")), "tmp")


def exc_name(e):
    for cls in (TypeError, RuntimeError, ValueError, AssertionError, OverflowError, NotImplementedError,
                StopIteration, KeyError, IndexError, ZeroDivisionError):
        if isinstance(e, cls):
            return cls.__name__
    return type(e).__name__


def show(mh):
    hs = mh.hashes
    keys = sorted(hs.keys())
    mins = ",".join(str(k) for k in keys)
    ab = ",".join(str(hs[k]) for k in keys) if mh.track_abundance else "-"
    return f"ok num={mh.num} mh={mh._max_hash} sc={mh.scaled} tr={int(mh.track_abundance)} mins={mins} ab={ab}"


class Case:
    def __init__(self, n):
        self.sk = {}
        self.db = []
        self.q = None
        self.cont = {}
        self.dir = os.path.join(TMPROOT, f"search-{os.getpid()}-{n}")
        self.sigfiles = None

    def close(self):
        for c in self.cont.values():
            try:
                if isinstance(c, SqliteIndex):
                    c.close()
            except Exception:       # noqa: BLE001
                pass
        self.cont = {}
        if os.path.isdir(self.dir):
            shutil.rmtree(self.dir, ignore_errors=True)

    def tmp(self, name):
        os.makedirs(self.dir, exist_ok=True)
        return os.path.join(self.dir, name)

    def sigs(self):
        return [self.sk[i] for i in self.db]

    def write_sigfiles(self):
        """one JSON file per database entry, names in database order"""
        if self.sigfiles is None:
            d = self.tmp("sigs")
            os.makedirs(d, exist_ok=True)
            out = []
            for n, ss in enumerate(self.sigs()):
                p = os.path.join(d, f"{n:03d}.sig")
                with open(p, "w") as fp:
                    sigmod.save_signatures_to_json([ss], fp)
                out.append(p)
            self.sigfiles = (d, out)
        return self.sigfiles

    def container(self, spec):
        if spec in self.cont:
            return self.cont[spec]
        sigs = self.sigs()
        if spec == "lin":
            c = LinearIndex(sigs)
        elif spec == "lazy":
            c = LazyLinearIndex(LinearIndex(sigs))
        elif spec == "dir":
            d, files = self.write_sigfiles()
            c = MultiIndex.load_from_directory(d) if files else MultiIndex.load([], [], None)
        elif spec == "plist":
            d, files = self.write_sigfiles()
            if files:
                p = self.tmp("pathlist.txt")
                with open(p, "w") as fp:
                    fp.write("\n".join(files) + "\n")
                c = MultiIndex.load_from_pathlist(p)
            else:
                c = MultiIndex.load([], [], None)
        elif spec == "zip":
            p = self.tmp("coll.zip")
            with SaveSignaturesToLocation(p) as save:
                for ss in sigs:
                    save.add(ss)
            c = ZipFileLinearIndex.load(p)
        elif spec == "mf":
            d, files = self.write_sigfiles()

            def it():
                for ss, f in zip(sigs, files):
                    yield ss, f
            m = CollectionManifest.create_manifest(it(), include_signature=False)
            p = self.tmp("mf.csv")
            with open(p, "w", newline="") as fp:
                m.write_to_csv(fp, write_header=True)
            c = StandaloneManifestIndex.load(p)
        elif spec.startswith("sbt-"):
            _, d, t, cs, saved = spec.split("-")
            c = create_sbt_index(bloom_filter_size=int(t), n_children=int(d))
            for ss in sigs:
                c.insert(ss)
            if int(saved) and sigs:      # an empty tree cannot be saved (C10); search the in-memory one
                p = self.tmp(f"tree-{d}-{t}.sbt.zip")
                c.save(p)
                c = load_sbt_index(p, cache_size=(int(cs) or None))
        elif spec == "lca":
            scs = {ss.minhash.scaled for ss in sigs}
            sc = max(scs) if scs else 1
            c = LCA_Database(KSIZE, sc)
            for ss in sigs:
                c.insert(ss)
        elif spec == "sql":
            p = self.tmp("idx.sqldb")
            c = SqliteIndex.create(p)
            for ss in sigs:
                c.insert(ss)
        else:
            raise AssertionError(spec)
        self.cont[spec] = c
        return c


def fmt_results(res, check_sorted):
    items = []
    scores = []
    for r in res:
        score = float(r.score)
        scores.append(score)
        items.append((r.signature.name, r.signature.md5sum(), score))
    flag = 1
    if check_sorted:
        flag = int(all(scores[i] >= scores[i + 1] for i in range(len(scores) - 1)))
    return flag, items


def line(flag, tag, items):
    if tag != "O":
        items = sorted(items)
    return " ".join(["ok", str(flag), tag] + [f"{n}/{m}/{s.hex()}" for n, m, s in items])


ORDERED = ("lin", "lazy")


def tag_for(op, spec, mode, best, query, sigs):
    """how this line is to be compared with the model's (see DriverSearch.lean)"""
    if op == "searchord":
        return "O"
    if op == "best":
        return "T"
    if best and spec not in ORDERED:
        return "B"
    return "E"


INDEXED = ("sbt", "lca", "sql")


def selected(cont, spec, query, containment):
    if spec.split("-")[0] in INDEXED:
        mh = query.minhash
        return cont.select(ksize=mh.ksize, moltype=mh.moltype, num=mh.num, scaled=mh.scaled, containment=containment)
    return cont


def main():
    out = sys.stdout
    case = Case(0)
    ncase = 0
    for raw in sys.stdin:
        w = raw.split()
        if not w:
            out.write("bad-op\n")
            continue
        op = w[0]
        try:
            if op == "#":
                case.close()
                ncase += 1
                case = Case(ncase)
                out.write("#\n")
                continue
            a = w[1:]
            if op == "sk":
                i, num, scaled, track = int(a[0]), int(a[1]), int(a[2]), int(a[3])
                name = a[4]
                mh = MinHash(num, KSIZE, track_abundance=bool(track), scaled=scaled)
                if track:
                    vals = {}
                    for p in a[5:]:
                        k, v = p.split(":")
                        vals[int(k)] = int(v)
                    mh.set_abundances(vals)
                else:
                    mh.add_many([int(x) for x in a[5:]])
                case.sk[i] = SourmashSignature(mh, name=name)
                res = show(mh)
            elif op == "db":
                ids = [int(x) for x in a]
                if any(i not in case.sk for i in ids):
                    out.write("bad-op\n")
                    continue
                case.db = ids
                case.cont = {}
                res = f"ok {len(ids)}"
            elif op == "q":
                if int(a[0]) not in case.sk:
                    out.write("bad-op\n")
                    continue
                case.q = int(a[0])
                res = "ok"
            elif op in ("search", "searchord", "prefetch", "best") and (case.q is None or not SPEC_RE.match(a[0])):
                res = "bad-op"
            elif op in ("search", "searchord"):
                spec, mode, best, n, d, k = a[0], a[1], int(a[2]), int(a[3]), int(a[4]), int(a[5])
                import math
                thr = n / d
                if k > 0:
                    thr = math.nextafter(thr, math.inf)
                elif k < 0:
                    thr = math.nextafter(thr, -math.inf)
                query = case.sk[case.q]
                try:
                    cont = case.container(spec)
                except Exception as e:      # noqa: BLE001
                    res = "err-build " + exc_name(e)
                else:
                    cont = selected(cont, spec, query, mode in ("c", "m"))
                    r = cont.search(query, threshold=thr, do_containment=(mode == "c"),
                                    do_max_containment=(mode == "m"), best_only=bool(best))
                    flag, items = fmt_results(r, True)
                    res = line(flag, tag_for(op, spec, mode, best, query, case.sigs()), items)
            elif op == "prefetch":
                spec, bp, best = a[0], int(a[1]), int(a[2])
                query = case.sk[case.q]
                try:
                    cont = case.container(spec)
                except Exception as e:      # noqa: BLE001
                    res = "err-build " + exc_name(e)
                else:
                    cont = selected(cont, spec, query, True)
                    r = list(cont.prefetch(query, bp, best_only=bool(best)))
                    flag, items = fmt_results(r, False)
                    res = line(flag, tag_for(op, spec, "c", best, query, case.sigs()), items)
            elif op == "best":
                spec, bp = a[0], int(a[1])
                query = case.sk[case.q]
                try:
                    cont = case.container(spec)
                except Exception as e:      # noqa: BLE001
                    res = "err-build " + exc_name(e)
                else:
                    cont = selected(cont, spec, query, True)
                    r = cont.best_containment(query, threshold_bp=bp)
                    flag, items = fmt_results([] if r is None else [r], False)
                    res = line(flag, "T", items)
            else:
                res = "bad-op"
        except BaseException as e:          # noqa: BLE001
            if isinstance(e, (KeyboardInterrupt, SystemExit)):
                raise
            res = "err " + exc_name(e)
        out.write(res + "\n")
    case.close()
    out.flush()


if __name__ == "__main__":
    main()
