"""C12, command-line pass (quick tier): `sig extract`, `sig check`, `sig grep`, `search --picklist`, `gather --picklist`
run IN PROCESS (sourmash.__main__.main(argv)) over every container kind a file name can load, with every selector;
the outcome is compared with the reference meaning of each selector (harness/streams/select.py: `sat`, `pick_key`).

usage: select_cli.py <seed> <n_cases> <tmp root>      -> one JSON list on the last stdout line
Each entry: {case, kind, cmd, argv, status: ok|mismatch|crash, signature, got, expect, detail}
"""
import contextlib
import csv
import io
import json
import os
import random
import re
import shutil
import sys

sys.path.insert(0, os.path.dirname(os.path.dirname(os.path.abspath(__file__))))

import sourmash  # noqa: E402
from sourmash import MinHash, SourmashSignature  # noqa: E402
from sourmash.__main__ import main as sourmash_main  # noqa: E402
from sourmash.index.sqlite_index import SqliteIndex  # noqa: E402
from sourmash.lca.lca_db import LCA_Database  # noqa: E402
from sourmash.manifest import CollectionManifest  # noqa: E402
from sourmash.sbtmh import create_sbt_index  # noqa: E402
from sourmash.signature import save_signatures_to_json  # noqa: E402
from sourmash.sourmash_args import SaveSignaturesToLocation  # noqa: E402

from streams import select as S  # noqa: E402

KINDS = ["sig", "dir", "zip", "smi", "sqlmf", "sbtz", "lca", "sqlite", "pathlist"]
MOLFLAG = {"DNA": "--dna", "protein": "--protein", "dayhoff": "--dayhoff", "hp": "--hp"}


def real_sig(s):
    mh = MinHash(s.num, s.ksize, scaled=s.scaled, track_abundance=s.abund, is_protein=(s.mol == "protein"),
                 dayhoff=(s.mol == "dayhoff"), hp=(s.mol == "hp"))
    mh.add_many(s.hashes)
    ss = SourmashSignature(mh, name=s.name)
    assert ss.md5sum() == s.md5
    return ss


def run_cli(argv):
    """-> (exit code, stdout, stderr); exceptions other than SystemExit are reported as ('crash', ...)"""
    out, err = io.StringIO(), io.StringIO()
    code = 0
    try:
        with contextlib.redirect_stdout(out), contextlib.redirect_stderr(err):
            try:
                sourmash_main(argv)
            except SystemExit as e:
                code = e.code if isinstance(e.code, int) else (0 if e.code is None else 1)
    except Exception as e:  # noqa: BLE001
        return "crash", out.getvalue(), err.getvalue() + f"\n{type(e).__name__}: {e}"
    return code, out.getvalue(), err.getvalue()


def write_sigfile(path, sigs):
    with open(path, "w") as fp:
        save_signatures_to_json(sigs, fp)


def build(kind, d, members):
    """write the collection, return the path the command line is given"""
    sigs = [real_sig(s) for s in members]
    if kind == "sig":
        p = os.path.join(d, "db.sig")
        write_sigfile(p, sigs)
        return p
    if kind == "dir":
        p = os.path.join(d, "dbdir")
        os.makedirs(p)
        half = (len(sigs) + 1) // 2
        write_sigfile(os.path.join(p, "a.sig"), sigs[:half])
        if sigs[half:]:
            write_sigfile(os.path.join(p, "b.sig"), sigs[half:])
        return p
    if kind == "pathlist":
        half = (len(sigs) + 1) // 2
        p1 = os.path.join(d, "pl_a.sig")
        write_sigfile(p1, sigs[:half])
        paths = [p1]
        if sigs[half:]:
            p2 = os.path.join(d, "pl_b.zip")
            with SaveSignaturesToLocation(p2) as save:
                for x in sigs[half:]:
                    save.add(x)
            paths.append(p2)
        p = os.path.join(d, "paths.txt")
        with open(p, "w") as fp:
            fp.write("\n".join(paths) + "\n")
        return p
    if kind == "zip":
        p = os.path.join(d, "db.zip")
        with SaveSignaturesToLocation(p) as save:
            for x in sigs:
                save.add(x)
        return p
    if kind in ("smi", "sqlmf"):
        sub = os.path.join(d, "files")
        os.makedirs(sub)
        half = (len(sigs) + 1) // 2
        rows = []
        for name, part in (("p0.sig", sigs[:half]), ("p1.sig", sigs[half:])):
            if part:
                write_sigfile(os.path.join(sub, name), part)
                rows += [CollectionManifest.make_manifest_row(x, name, include_signature=False) for x in part]
        mf = CollectionManifest(rows)
        if kind == "smi":
            p = os.path.join(sub, "mf.csv")
            with open(p, "w", newline="") as fp:
                mf.write_to_csv(fp, write_header=True)
        else:
            p = os.path.join(sub, "mf.sqlmf")
            mf.write_to_filename(p, database_format="sql")
        return p
    if kind == "sbtz":
        t = create_sbt_index()
        for x in sigs:
            t.insert(x)
        p = os.path.join(d, "db.sbt.zip")
        with contextlib.redirect_stderr(io.StringIO()):
            t.save(p)
        return p
    if kind == "lca":
        m0 = members[0]
        db = LCA_Database(m0.ksize, max(s.scaled for s in members), m0.mol)
        for x in sigs:
            db.insert(x)
        p = os.path.join(d, "db.lca.json")
        with contextlib.redirect_stderr(io.StringIO()):
            db.save(p)
        return p
    if kind == "sqlite":
        p = os.path.join(d, "db.sqldb")
        db = SqliteIndex.create(p)
        for x in sigs:
            db.insert(x)
        db.conn.commit()
        db.conn.close()
        return p
    raise ValueError(kind)


def gen_pool(rng, kind, twins):
    """signatures the container kind accepts; `twins`: add same-hash / different-name pairs"""
    pool = []
    n = rng.randint(4, 7)
    if kind in ("sbtz", "lca", "sqlite"):
        classes = [(rng.choice([21, 31]), "DNA", 0, 1000)]
        if kind == "sqlite":
            classes.append((7, "protein", 0, 1000))
    else:
        classes = [S.rand_class(rng) for _ in range(rng.randint(1, 3))]
    names = list(S.NAMES)
    rng.shuffle(names)
    for i in range(n):
        k, m, nn, sc = rng.choice(classes)
        ab = rng.random() < 0.2 and kind not in ("sqlite",)
        name = names[i % len(names)] if kind == "lca" else S.rand_name(rng, 0.12)
        pool.append(S.Sig(i, k, m, nn, sc, ab, name, S.rand_hashes(rng, i)))
    if twins:
        t = rng.choice(pool)
        other = [x for x in S.NAMES if x != t.name and x not in [p.name for p in pool]] or ["twin name"]
        if t.name and rng.random() < 0.5:
            # same identifier, different description: the twin shares (identifier, md5[:8]) with the original
            other = [S.ident_of(t.name) + " twin strain"]
        pool.append(S.Sig(len(pool), t.ksize, t.mol, t.num, t.scaled, t.abund, rng.choice(other), t.hashes))
    if kind == "lca":
        seen, keep = set(), []
        for s in pool:
            key = s.name or "noname" + s.md5[:8]
            if key not in seen and (s.ksize, s.mol) == (pool[0].ksize, pool[0].mol) and s.scaled:
                seen.add(key)
                keep.append(s)
        pool = keep
    if kind == "sqlmf":
        pool = list({s.md5: s for s in pool}.values())     # UNIQUE(internal_location, md5sum) (storage, C10)
    return pool


def keys_of(path, code=0):
    # a command that exits through sys.exit(-1) leaves its output zip unfinished: nothing was extracted
    if code != 0 or not os.path.exists(path):
        return []
    return sorted(S.key(_as_sig(ss)) for ss in sourmash.load_file_as_signatures(path))


class _as_sig:
    def __init__(self, ss):
        self.md5 = ss.md5sum()
        self.name = ss.name


def write_picklist(rng, d, pool, coltype, style, with_missing=True):
    """hand-written picklist CSV; -> (argument string, coltype, exclude, pickset as the coltype defines it, raw rows)"""
    path = os.path.join(d, f"pick-{coltype}.csv")
    picks = rng.sample(pool, k=min(len(pool), rng.randint(1, 3)))
    rows = []
    for s in picks:
        if coltype in S.META:
            rows.append((s.name, s.md5))
        elif coltype in ("name", "ident", "identprefix"):
            if not s.name:
                continue
            rows.append((S.pick_key(coltype, s.name, s.md5) if coltype != "name" else s.name,))
        elif coltype == "md5":
            rows.append((s.md5,))
        else:
            rows.append((s.md5[:8],))
    if with_missing:
        rows.append(("no such name", "0" * 32) if coltype in S.META else
                    (("nosuch" if coltype not in ("md5", "md5prefix8", "md5short") else "f" * (32 if coltype == "md5" else 8)),))
    rng.shuffle(rows)
    with open(path, "w", newline="") as fp:
        w = csv.writer(fp)
        if coltype in S.META:
            w.writerow(["match_name", "match_md5"] if coltype == "prefetch" else ["name", "md5"])
        else:
            w.writerow(["col"])
        for r in rows:
            w.writerow(list(r))
    col = "" if coltype in S.META else "col"
    arg = f"{path}:{col}:{coltype}:{'exclude' if style == 'exc' else 'include'}"
    if coltype in S.META:
        pickset = {S.pick_key(coltype, r[0], r[1]) for r in rows}
    else:
        pickset = {S.pick_key(coltype, r[0], r[0]) for r in rows if r[0]}
    return arg, coltype, style == "exc", pickset, rows, path


def pattern_match(pat, s, flags, invert):
    vals = [s.name, "", s.md5]
    hit = any(re.search(pat, v, flags) for v in vals)
    return (not hit) if invert else hit


def closure_by_key(members, chosen):
    """what re-selecting through manifest.to_picklist() returns: everything sharing (ident, md5[:8]) with a chosen row"""
    keys = {(S.ident_of(s.name), s.md5[:8]) for s in chosen}
    return [s for s in members if (S.ident_of(s.name), s.md5[:8]) in keys]


def main():
    seed, n, root = int(sys.argv[1]), int(sys.argv[2]), sys.argv[3]
    rng = random.Random(f"C12-cli-{seed}")
    os.makedirs(root, exist_ok=True)
    out = []
    cmds = ["extract-k-mol", "extract-picklist", "extract-name", "extract-md5", "extract-pattern", "check", "grep",
            "grep-count", "extract-picklist", "check", "grep", "search-picklist", "gather-picklist",
            "extract-name-twin", "grep-twin"]
    for it in range(n):
        kind = KINDS[it % len(KINDS)]
        cmd = cmds[it % len(cmds)]
        if cmd in ("search-picklist", "gather-picklist"):
            kind = rng.choice(["zip", "sig", "sqlite", "sbtz"])
        twins = rng.random() < 0.35 and kind not in ("sqlite", "sqlmf")
        force_twin = cmd.endswith("-twin")
        if force_twin:
            # two sketches with identical hashes and the same identifier, told apart only by the rest of the name
            cmd = cmd[:-5]
            kind = rng.choice(["sig", "zip", "dir", "smi", "sbtz", "lca", "pathlist"])
            twins = False
        d = os.path.join(root, f"c{it}")
        os.makedirs(d)
        pool = gen_pool(rng, kind, twins)
        if not pool:
            continue
        twin_word = None
        if force_twin:
            t = pool[0]
            t.name = "GCF_777.1 Escherichia coli"
            pool.append(S.Sig(len(pool), t.ksize, t.mol, t.num, t.scaled, t.abund, "GCF_777.1 twin strain", t.hashes))
            twin_word = rng.choice(["Escherichia", "twin"])
        try:
            with contextlib.redirect_stderr(io.StringIO()):
                dbpath = build(kind, d, pool)
        except Exception as e:  # noqa: BLE001
            out.append({"case": it, "kind": kind, "cmd": cmd, "status": "crash", "signature": f"C12:cli-build:{kind}",
                        "detail": f"{type(e).__name__}: {e}"})
            continue
        entry = {"case": it, "kind": kind, "cmd": cmd, "twins": twins}
        outp = os.path.join(d, "out.zip")
        manifest_free = kind in ("lca",)        # containers without a manifest: sig check / grep need --no-require-manifest
        try:
            if cmd.startswith("extract"):
                argv = ["sig", "extract", dbpath, "-o", outp]
                expect = list(pool)
                via_picklist = False
                if cmd == "extract-k-mol":
                    t = rng.choice(pool)
                    if rng.random() < 0.8:
                        argv += ["-k", str(t.ksize)]
                        expect = [s for s in expect if s.ksize == t.ksize]
                    if rng.random() < 0.7:
                        argv += [MOLFLAG[t.mol]]
                        expect = [s for s in expect if s.mol == t.mol]
                elif cmd == "extract-picklist":
                    ct = rng.choice(S.META + S.SIMPLE)
                    arg, ct, exc, pickset, rows, _ = write_picklist(rng, d, pool, ct, rng.choice(["inc", "inc", "exc"]))
                    argv += ["--picklist", arg]
                    expect = [s for s in expect if (S.pick_key(ct, s.name, s.md5) in pickset) != exc]
                elif cmd == "extract-name":
                    t = rng.choice([s for s in pool if s.name] or pool)
                    frag = (t.name.split(" ")[-1] or t.name) if t.name else "zz"
                    if twin_word:
                        frag = twin_word
                    argv += ["--name", frag]
                    expect = [s for s in expect if frag in s.name]
                    via_picklist = True
                elif cmd == "extract-md5":
                    t = rng.choice(pool)
                    frag = t.md5[: rng.choice([6, 10, 32])]
                    argv += ["--md5", frag]
                    expect = [s for s in expect if frag in s.md5]
                    via_picklist = True
                else:
                    t = rng.choice([s for s in pool if s.name] or pool)
                    pat = re.escape((t.name.split(" ")[0] or "zz").lower()) if t.name else "zz"
                    inv = rng.random() < 0.4
                    argv += ["--exclude-db-pattern" if inv else "--include-db-pattern", pat]
                    expect = [s for s in expect if pattern_match(pat, s, re.IGNORECASE, inv)]
                    via_picklist = True
                code, so, se = run_cli(argv)
                got = keys_of(outp, code)
                exp = sorted(S.key(s) for s in expect)
                entry.update(argv=argv[2:], got=got, expect=exp, code=code)
                if code == "crash":
                    entry.update(status="crash", signature=f"C12:cli-crash:sig-extract:{kind}", detail=se[-400:])
                elif got == exp and ((code == 0) == bool(exp)):
                    entry["status"] = "ok"
                elif via_picklist and got == sorted(S.key(s) for s in closure_by_key(pool, expect)):
                    entry.update(status="mismatch", signature="C12:cli-name-md5-pattern-filter-reselects-by-ident-md5short",
                                 detail="sig extract --name/--md5/--include-db-pattern picks manifest rows, then re-selects the collection through "
                                        "manifest.to_picklist(), i.e. by (identifier, md5[:8]): a signature sharing both with a picked row is extracted too")
                elif code != 0 and ("doesn't support" in se or "cannot" in se.lower()) and exp:
                    entry["status"] = "ok"          # an announced refusal
                    entry["refused"] = se[-200:]
                else:
                    entry.update(status="mismatch", signature=f"C12:cli-extract:{cmd}:{kind}", detail=se[-300:])
            elif cmd == "check":
                ct = rng.choice(S.META + S.SIMPLE)
                arg, ct, exc, pickset, rows, pickpath = write_picklist(rng, d, pool, ct, "inc")
                missing = os.path.join(d, "missing.csv")
                mfout = os.path.join(d, "matching.csv")
                # a second database: `found` accumulates over all of them
                second = None
                if rng.random() < 0.5 and len(pool) >= 4 and kind in ("sig", "zip"):
                    half = len(pool) // 2
                    d1, d2 = os.path.join(d, "first"), os.path.join(d, "second")
                    os.makedirs(d1)
                    os.makedirs(d2)
                    with contextlib.redirect_stderr(io.StringIO()):
                        dbpath = build(kind, d1, pool[:half])
                        second = build("zip", d2, pool[half:])
                argv = ["sig", "check", dbpath] + ([second] if second else []) + \
                       ["--picklist", arg, "-o", missing, "--save-manifest-matching", mfout]
                if manifest_free:
                    argv.append("--no-require-manifest")
                code, so, se = run_cli(argv)
                matched = [s for s in pool if S.pick_key(ct, s.name, s.md5) in pickset]
                matched_keys = {S.pick_key(ct, s.name, s.md5) for s in matched}
                if ct in S.META:
                    exp_missing = sorted(r for r in rows if S.pick_key(ct, r[0], r[1]) not in matched_keys)
                else:
                    exp_missing = sorted(r for r in rows if S.pick_key(ct, r[0], r[0]) not in matched_keys)
                got_missing = []
                if os.path.exists(missing):
                    with open(missing, newline="") as fp:
                        rd = csv.reader(fp)
                        next(rd, None)
                        got_missing = sorted(tuple(r) for r in rd)
                exp_rows = sorted(S.key(s) for s in matched)
                got_rows = []
                if os.path.exists(mfout):
                    with open(mfout, newline="") as fp:
                        fp.readline()
                        got_rows = sorted(f"{r['md5']}:{S.hx(r['name'])}" for r in csv.DictReader(fp))
                entry.update(argv=argv[2:], got={"missing": got_missing, "matching": got_rows},
                             expect={"missing": [list(x) for x in exp_missing], "matching": exp_rows}, code=code)
                if code == "crash":
                    entry.update(status="crash", signature=f"C12:cli-crash:sig-check:{kind}", detail=se[-400:])
                elif [list(x) for x in got_missing] == [list(x) for x in exp_missing] and got_rows == exp_rows and code == 0:
                    entry["status"] = "ok"
                else:
                    entry.update(status="mismatch", signature=f"C12:cli-check:{ct}:{kind}", detail=se[-300:])
            elif cmd in ("grep", "grep-count"):
                t = rng.choice([s for s in pool if s.name] or pool)
                word = (t.name.split(" ")[0] or "zz") if t.name else "zz"
                if twin_word:
                    word = twin_word
                icase = rng.random() < 0.5
                inv = rng.random() < 0.35
                pat = re.escape(word.lower() if icase else word)
                argv = ["sig", "grep", pat, dbpath]
                if icase:
                    argv.append("-i")
                if inv:
                    argv.append("-v")
                if manifest_free:
                    argv.append("--no-require-manifest")
                expect = [s for s in pool if pattern_match(pat, s, re.IGNORECASE if icase else 0, inv)]
                csvout = os.path.join(d, "grep.csv")
                if cmd == "grep-count":
                    argv += [rng.choice(["--count", "-c"]), "--csv", csvout]
                    code, so, se = run_cli(argv)
                    m = re.search(r"(\d+) matches", so + se)
                    got_n = int(m.group(1)) if m else None
                    got_rows = []
                    if os.path.exists(csvout):
                        with open(csvout, newline="") as fp:
                            fp.readline()
                            got_rows = sorted(f"{r['md5']}:{S.hx(r['name'])}" for r in csv.DictReader(fp))
                    exp = sorted(S.key(s) for s in expect)
                    entry.update(argv=argv[2:], got={"count": got_n, "csv": got_rows}, expect={"count": len(exp), "csv": exp}, code=code)
                    if code == "crash":
                        entry.update(status="crash", signature=f"C12:cli-crash:sig-grep:{kind}", detail=se[-400:])
                    elif got_n == len(exp) and got_rows == exp and not os.path.exists(outp):
                        entry["status"] = "ok"
                    else:
                        entry.update(status="mismatch", signature=f"C12:cli-grep-count:{kind}", detail=(so + se)[-300:])
                else:
                    silent = rng.random() < 0.25
                    argv += ["--silent"] if silent else ["-o", outp]
                    code, so, se = run_cli(argv)
                    got = keys_of(outp, code)
                    exp = [] if silent else sorted(S.key(s) for s in expect)
                    entry.update(argv=argv[2:], got=got, expect=exp, code=code)
                    if code == "crash":
                        entry.update(status="crash", signature=f"C12:cli-crash:sig-grep:{kind}", detail=se[-400:])
                    elif silent:
                        entry["status"] = "ok" if (got == [] and code == 0) else "mismatch"
                        if entry["status"] != "ok":
                            entry.update(signature=f"C12:cli-grep-silent:{kind}", detail=se[-300:])
                    elif got == exp and ((code == 0) == bool(exp)):
                        entry["status"] = "ok"
                    elif got == sorted(S.key(s) for s in closure_by_key(pool, expect)):
                        entry.update(status="mismatch", signature="C12:cli-name-md5-pattern-filter-reselects-by-ident-md5short",
                                     detail="sig grep picks manifest rows, then re-selects the collection through manifest.to_picklist(), i.e. by "
                                            "(identifier, md5[:8]): a signature sharing both with a matching row is output too")
                    elif code != 0 and "doesn't support" in se and exp:
                        entry["status"] = "ok"
                        entry["refused"] = se[-200:]
                    else:
                        entry.update(status="mismatch", signature=f"C12:cli-grep:{kind}", detail=se[-300:])
            else:
                # search / gather --picklist: every database sketch has a private hash; the query holds private hashes only
                dna = [s for s in pool if (s.ksize, s.mol, s.num) == (pool[0].ksize, pool[0].mol, 0) and s.scaled == pool[0].scaled]
                if kind == "sqlite":
                    dna = [s for s in pool if s.scaled and not s.abund]
                if pool[0].num or not dna:
                    shutil.rmtree(d, ignore_errors=True)
                    continue
                qh = [max(s.hashes) for s in dna if rng.random() < 0.7] or [max(dna[0].hashes)]      # private hashes only
                q = S.Sig(90, pool[0].ksize, pool[0].mol, 0, pool[0].scaled, False, "cli query", qh)
                qp = os.path.join(d, "q.sig")
                write_sigfile(qp, [real_sig(q)])
                ct = rng.choice(["name", "ident", "md5", "md5short", "manifest"])
                arg, ct, exc, pickset, rows, _ = write_picklist(rng, d, dna, ct, rng.choice(["inc", "exc"]))
                csvout = os.path.join(d, "res.csv")
                if cmd == "search-picklist":
                    argv = ["search", qp, dbpath, "--picklist", arg, "-o", csvout, "--threshold", "0", "-n", "0",
                            "-k", str(q.ksize), MOLFLAG[q.mol]]
                else:
                    argv = ["gather", qp, dbpath, "--picklist", arg, "-o", csvout, "--threshold-bp", "0",
                            "-k", str(q.ksize), MOLFLAG[q.mol]]
                code, so, se = run_cli(argv)
                comparable = [s for s in pool if S.comparable(q, s)]
                expect = [s for s in comparable if S.overlaps(q, s) and (S.pick_key(ct, s.name, s.md5) in pickset) != exc]
                # same-md5 results are reported once
                exp = sorted({s.md5 for s in expect})
                got = []
                if os.path.exists(csvout):
                    with open(csvout, newline="") as fp:
                        got = sorted({r["md5"] for r in csv.DictReader(fp)})
                entry.update(argv=argv, got=got, expect=exp, code=code)
                if code == "crash":
                    entry.update(status="crash", signature=f"C12:cli-crash:{cmd}:{kind}", detail=se[-400:])
                elif got == exp:
                    entry["status"] = "ok"
                else:
                    entry.update(status="mismatch", signature=f"C12:cli-{cmd}:{kind}", detail=se[-300:])
        except Exception as e:  # noqa: BLE001
            import traceback
            entry.update(status="crash", signature=f"C12:cli-driver:{cmd}:{kind}", detail=traceback.format_exc()[-600:])
        out.append(entry)
        shutil.rmtree(d, ignore_errors=True)
    shutil.rmtree(root, ignore_errors=True)
    print(json.dumps(out))


if __name__ == "__main__":
    main()
