"""Real-code adapter for the `setops` stream (C04): every op line is one set
operation on a table of MinHash objects, through a Python operator, an API
method, or a `sourmash sig` sub-command.

Sub-commands: operands are written as .sig files under .build/tmp, the
sub-command runs (in-process through `sourmash.__main__.main`, the exact entry
point of the `sourmash` console script; or, with SETOPS_CLI=subprocess, as
`python -m sourmash sig ...` in a fresh interpreter), the written signature is
read back and its sketch stored.

Route suffixes of the sub-command ops (`u.cli+k`, `d cli+kf`, ...): `k` = every operand file additionally
holds decoy signatures (DNA k=31, protein k=7, dayhoff k=7, each with hashes of its own) and the sub-command is
given `-k 21 --dna` (without the selection the decoys would be merged in or make the command fail); `f` = the
operands (for merge / intersect: all but the first, which fixes the template) are handed over through
`--from-file <list>`.

Periphery (invisible to the model):
* ROUTES: API operations alternate between operator and dunder / argument spellings under a per-case counter; the
  per-signature sub-commands (flatten / downsample / filter / inflate) are, every third time, run as a BATCH: the
  operand together with up to three other live sketches of the case, in rotating order, in ONE invocation; every output
  is matched to its input by name and compared with the API result for that input (a sub-command that carries state from
  one input to the next gives a wrong sketch for a later input even when the operand itself comes out right);
  alternately the operand is picked out of the batch with `--md5 <md5>` / `--name <name>` (flatten, filter), and the batch
  is also passed through `sig rename` and `sig cat`, which must leave every sketch as it is.
* HISTORIES: every object stored under a handle keeps its observation until the end of the case: the operands of an
  operation are re-verified after it, all stored objects every eighth operation.
* VIEWS: `show` (mh_impl) asserts the agreement of all views of a sketch; a signature read back from a sub-command's
  output must carry the md5 of its own content."""
import atexit
import contextlib
import io
import os
import shutil
import subprocess
import sys
import tempfile

import sourmash
from sourmash import MinHash, SourmashSignature

from mh_impl import show, exc_name          # same observation format as the `mh` stream

VERIF = os.path.dirname(os.path.dirname(os.path.dirname(os.path.abspath(__file__))))
CLI_MODE = os.environ.get("SETOPS_CLI", "inproc")
_TMP = None
_N = [0]


def tmpdir():
    global _TMP
    if _TMP is None:
        base = os.path.join(os.environ.get("VERIF_BUILD", os.path.join(VERIF, ".build")), "tmp")
        os.makedirs(base, exist_ok=True)
        _TMP = tempfile.mkdtemp(prefix="setops-", dir=base)
        atexit.register(shutil.rmtree, _TMP, True)
    return _TMP


DECOYS = [False]      # set per op line from the route suffix


def decoys_for(mh):
    """signatures of other k-mer sizes / molecule types with the same num / scaled and other hashes"""
    out = []
    for ksize, kw, hs in ((31, {}, (1, 2, 3, 5)), (7, {"is_protein": True}, (2, 3, 4)), (7, {"dayhoff": True}, (1, 7))):
        d = MinHash(mh.num, ksize, track_abundance=mh.track_abundance, seed=mh.seed, scaled=mh.scaled, **kw)
        for h in hs:
            d.add_hash(h)
        out.append(SourmashSignature(d, name=f"decoy-k{ksize}-{d.moltype}"))
    return out


_SAME = {}             # per op line: object id -> path already written (`sig merge f.sig f.sig`)


def write_sig(mh, tag):
    if id(mh) in _SAME:
        return _SAME[id(mh)]
    p = _write_sig(mh, tag)
    _SAME[id(mh)] = p
    return p


def _write_sig(mh, tag):
    _N[0] += 1
    p = os.path.join(tmpdir(), f"s{_N[0]}-{tag}.sig")
    ss = SourmashSignature(mh, name=f"{tag}-{_N[0]}")
    sigs = [ss]
    if DECOYS[0]:
        d = decoys_for(mh)
        sigs = d[:1] + [ss] + d[1:]
    with open(p, "w") as fp:
        sourmash.save_signatures_to_json(sigs, fp)
    return p


def select_args():
    return ["-k", "21", "--dna"] if DECOYS[0] else []


def positional(paths, from_file, keep_first):
    """argv tail for the operand files: positional, or (route `f`) through --from-file"""
    if not from_file:
        return list(paths), []
    _N[0] += 1
    lst = os.path.join(tmpdir(), f"list{_N[0]}.txt")
    head = list(paths[:1]) if keep_first and len(paths) > 1 else []
    rest = paths[len(head):]
    if len(set(rest)) < len(rest):
        # the path list is read into a `set`: a file named twice would be loaded once; keep such operands positional
        return list(paths), []
    with open(lst, "w") as fp:
        fp.write("".join(x + "\n" for x in rest))
    return head + ["--from-file", lst], [lst]


class CliFailed(Exception):
    def __init__(self, name):
        self.name = name


def run_cli(argv):
    """run `sourmash <argv>`; raises CliFailed(<exception class name>) when it does not end with status 0"""
    if CLI_MODE == "subprocess":
        env = dict(os.environ)
        r = subprocess.run([sys.executable, "-m", "sourmash"] + argv, stdout=subprocess.PIPE,
                           stderr=subprocess.PIPE, text=True, env=env, timeout=600)
        if r.returncode != 0:
            raise CliFailed("CLI")
        return
    from sourmash.__main__ import main
    buf = io.StringIO()
    try:
        with contextlib.redirect_stdout(buf), contextlib.redirect_stderr(buf):
            main(argv)
    except SystemExit as e:
        if e.code not in (None, 0):
            raise CliFailed("SystemExit")
    except BaseException as e:      # noqa: BLE001
        raise CliFailed(exc_name(e))


def cli_result(argv, out, expect_one=True):
    """run, load what was written; -> list of frozen MinHash"""
    run_cli(argv + ["-o", out])
    if not os.path.exists(out) or open(out).read().strip() in ("", "[]"):
        sigs = []           # nothing was saved (e.g. `sig filter` skipped a flat signature)
    else:
        sigs = list(sourmash.load_file_as_signatures(out))
    res = [s.minhash for s in sigs]
    for p in [out]:
        with contextlib.suppress(OSError):
            os.remove(p)
    return res


from mh_impl import NROUTE, route, new_case      # per-case pseudo-random route choices


def content(mh):
    hs = mh.hashes
    return (mh.num, mh._max_hash, bool(mh.track_abundance), mh.ksize, mh.moltype, dict(hs))


def md5_of(mh):
    import hashlib
    h = hashlib.md5()
    h.update(str(mh.ksize if mh.is_dna else mh.ksize * 3).encode())
    for k in mh.hashes:
        h.update(str(k).encode())
    return h.hexdigest()


def load_named(out):
    """signatures written by a sub-command -> list of (name, frozen MinHash); each must carry the md5 of its content"""
    if not os.path.exists(out) or open(out).read().strip() in ("", "[]"):
        return []
    res = []
    for ss in sourmash.load_file_as_signatures(out):
        assert ss.md5sum() == md5_of(ss.minhash), "a written signature does not carry the md5 of its own content"
        res.append((ss.name, ss.minhash))
    with contextlib.suppress(OSError):
        os.remove(out)
    return res


def batch_cli(argv, target, api, T, selectors=False):
    """run a per-signature sub-command over the operand AND other live sketches in one invocation.
    api(mh) -> expected MinHash, or None when the sub-command writes nothing for that input; raising = not usable
    as a co-operand.  Returns the list of MinHash written for the operand (as the single-input run would)."""
    others = []
    seen = {id(target)}
    cands = [T[k] for k in sorted(T)]
    if cands:
        start = route(len(cands))
        cands = cands[start:] + cands[:start]
    for mh in cands:
        if id(mh) in seen or len(others) >= 3:
            continue
        seen.add(id(mh))
        try:
            exp = api(mh)
        except BaseException:       # noqa: BLE001
            continue
        others.append((mh, exp))
    if not others:
        return None
    pos = route(len(others) + 1)
    items = [(mh, exp, False) for mh, exp in others]
    items.insert(pos, (target, None, True))
    paths, names = [], []
    one_file = route(2) == 0        # all inputs as ONE multi-signature file, or one file each
    allsigs = []
    for i, (mh, _, is_t) in enumerate(items):
        _N[0] += 1
        nm = f"{'t' if is_t else 'o'}{i}-{_N[0]}x"
        sigs = [SourmashSignature(mh, name=nm)]
        if DECOYS[0]:
            d = decoys_for(mh)
            sigs = d[:1] + sigs + d[1:]
        names.append(nm)
        if one_file:
            allsigs += sigs
            continue
        pth = os.path.join(tmpdir(), f"b{_N[0]}.sig")
        with open(pth, "w") as fp:
            sourmash.save_signatures_to_json(sigs, fp)
        paths.append(pth)
    if one_file:
        _N[0] += 1
        pth = os.path.join(tmpdir(), f"b{_N[0]}.sig")
        with open(pth, "w") as fp:
            sourmash.save_signatures_to_json(allsigs, fp)
        paths.append(pth)
    tname = names[pos]
    try:
        sel = max(0, route(4) - 1) if selectors else 0      # 0: no selector (half of the time), 1: --md5, 2: --name
        extra = []
        if sel == 1:
            extra = ["--md5", md5_of(target)]
        elif sel == 2:
            extra = ["--name", tname]
        out = outpath()
        run_cli(argv + extra + select_args() + paths + ["-o", out])
        got = load_named(out)
        by_name = {}
        for nm, mh in got:
            by_name.setdefault(nm, []).append(mh)
        assert sum(len(v) for v in by_name.values()) == len(got)
        for (mh, exp, is_t), nm in zip(items, names):
            if is_t:
                continue
            if sel == 2 or (sel == 1 and md5_of(mh) != md5_of(target)):
                assert nm not in by_name, f"batch: `{extra[0]}` selected another signature too"
                continue
            if exp is None:
                assert nm not in by_name, "batch: a signature the sub-command skips was written"
                continue
            w = by_name.get(nm, [])
            assert len(w) == 1, f"batch: {len(w)} outputs for one input"
            assert content(w[0]) == content(exp), \
                f"batch: input #{names.index(nm)} of {len(names)} came out as {show(w[0])[:90]} instead of {show(exp)[:90]}"
        # identity sub-commands over the same files
        if route(4) == 0:
            out2 = outpath()
            run_cli(["sig", "rename", "-q"] + select_args() + paths + ["renamed", "-o", out2])
            got2 = load_named(out2)
            assert [n for n, _ in got2] == ["renamed"] * len(items), "sig rename: names"
            assert [content(m) for _, m in got2] == [content(mh) for mh, _, _ in items], "sig rename changed a sketch"
            # `sig manifest`: one row per signature of the file, md5 / md5short / n_hashes of ITS content
            import csv
            mfp = outpath() + ".csv"
            run_cli(["sig", "manifest", "-q", paths[0], "-o", mfp])
            with open(mfp, newline="") as fp:
                fp.readline()
                rows = list(csv.DictReader(fp))
            os.remove(mfp)
            want = [(md5_of(mh), md5_of(mh)[:8], str(len(mh))) for mh, _, _ in (items if one_file else items[:1])]
            rows = [r for r in rows if r["ksize"] == "21" and r["moltype"] == "DNA"]
            assert [(r["md5"], r["md5short"], r["n_hashes"]) for r in rows] == want, "sig manifest: md5 / n_hashes of a row"
            out3 = outpath()
            run_cli(["sig", "cat", "-q"] + select_args() + paths + ["-o", out3])
            got3 = load_named(out3)
            assert [(n, content(m)) for n, m in got3] == [(n, content(mh)) for n, (mh, _, _) in zip(names, items)], \
                "sig cat changed a signature"
        return by_name.get(tname, [])
    finally:
        cleanup(paths)


class History:
    """every object ever stored under a handle, with the observation it had then"""

    def __init__(self):
        self.items = {}
        self.n = 0

    def note(self, mh):
        if id(mh) not in self.items:
            try:
                self.items[id(mh)] = (mh, show(mh))
            except BaseException:       # noqa: BLE001
                pass

    def verify(self, objs=None):
        for mh, was in ([self.items[id(o)] for o in objs if id(o) in self.items] if objs is not None
                        else list(self.items.values())):
            now = show(mh)
            assert now == was, f"a stored sketch changed: {was[:70]} -> {now[:70]}"


def cleanup(paths):
    for p in paths:
        with contextlib.suppress(OSError):
            os.remove(p)


def outpath():
    _N[0] += 1
    return os.path.join(tmpdir(), f"out{_N[0]}.sig")


def opt(T, w):
    return None if w == "-" else T[int(w)]


def with_batch(single, argv, target, api, T, selectors=False):
    """every third time: the batch route; its result must be what the single-input run gives"""
    if route(3) != 0:
        return single()
    try:
        rs = batch_cli(argv, target, api, T, selectors)
    except CliFailed:
        rs = single()           # raises the same way when the operand itself is refused
        raise AssertionError("the sub-command fails on several inputs although it accepts each of them alone")
    if rs is None:
        return single()
    return rs


def main():
    T = {}
    H = History()
    out = sys.stdout
    for line in sys.stdin:
        w = line.split()
        if not w:
            out.write("bad-op\n")
            continue
        op = w[0]
        paths = []
        rsuf = ""
        if op == "d" and len(w) > 1 and "+" in w[1]:
            w[1], rsuf = w[1].split("+", 1)
        elif "+" in op:
            op, rsuf = op.split("+", 1)
        DECOYS[0] = "k" in rsuf
        from_file = "f" in rsuf
        _SAME.clear()
        try:
            if op == "#":
                T = {}
                H = History()
                new_case()
                out.write("#\n")
                continue
            a = w[1:]
            if op == "leaf":
                r, num, scaled, track = map(int, a[:4])
                mh = MinHash(num, 21, track_abundance=bool(track), seed=42, scaled=scaled)
                for h in a[4:]:
                    mh.add_hash(int(h))
                T[r] = mh
            elif op == "leafab":
                r, num, scaled = map(int, a[:3])
                mh = MinHash(num, 21, track_abundance=True, seed=42, scaled=scaled)
                for p in a[3:]:
                    k, v = p.split(":")
                    mh.add_hash_with_abundance(int(k), int(v))
                T[r] = mh
            elif op == "freeze":
                r, x = map(int, a)
                T[r] = T[x].to_frozen()
            elif op in ("u.add", "u.or", "u.iadd", "u.merge", "u.addmany", "i.and", "i.meth",
                        "s.rm", "s.rmlist", "n.meth", "n.cli"):
                if len(a) != 3:
                    raise KeyError
                r, x, y = map(int, a)
                A, B = T[x], T[y]
                c = route(2)
                if op == "u.add":
                    res = (A + B) if c else A.__add__(B)
                elif op == "u.or":
                    res = (A | B) if c else A.__or__(B)
                elif op == "u.iadd":
                    res = A.to_mutable()
                    if c:
                        res += B
                    else:
                        r2 = res.__iadd__(B)
                        assert r2 is res, "__iadd__ returned another object"
                elif op == "u.merge":
                    res = A.to_mutable()
                    res.merge(B)
                elif op == "u.addmany":
                    res = A.to_mutable()
                    if c:
                        res.add_many(B)
                    else:
                        res.add_many(B.hashes)          # the mapping view of the other sketch: its keys
                elif op == "i.and":
                    res = (A & B) if c else A.__and__(B)
                elif op == "i.meth":
                    res = A.intersection(B)
                    assert A.num != B.num or content(res) == content(B.intersection(A)), "intersection is not symmetric"
                elif op == "s.rm":
                    res = A.to_mutable()
                    if c:
                        res.remove_many(B)
                    else:
                        res.remove_many(B.hashes)
                elif op == "s.rmlist":
                    res = A.to_mutable()
                    hs_ = list(B.hashes)
                    res.remove_many(hs_ if c else set(hs_))
                elif op == "n.meth":
                    res = A.inflate(B)
                else:   # n.cli: sig inflate <from> <other>
                    paths = [write_sig(A, "from"), write_sig(B, "other")]

                    def single_inflate():
                        return cli_result(["sig", "inflate", "-q"] + select_args() + [paths[0], paths[1]], outpath())
                    rs = with_batch(single_inflate, ["sig", "inflate", "-q", paths[0]], B,
                                    lambda m: m.inflate(A), T)
                    if len(rs) != 1:
                        raise CliFailed("SystemExit")
                    res = rs[0]
                T[r] = res
            elif op in ("u.merge.self", "u.iadd.self", "u.addmany.self", "s.rm.self"):
                # the receiver object is ALSO the operand (one Python object, one Rust object behind both pointers)
                if len(a) != 2:
                    raise KeyError
                r, x = map(int, a)
                res = T[x].to_mutable()
                if op == "u.merge.self":
                    res.merge(res)
                elif op == "u.iadd.self":
                    res += res
                elif op == "u.addmany.self":
                    res.add_many(res)
                else:
                    res.remove_many(res)
                T[r] = res
            elif op in ("f.meth", "f.cli"):
                if len(a) != 2:
                    raise KeyError
                r, x = map(int, a)
                if op == "f.meth":
                    T[r] = T[x].flatten()
                else:
                    paths = [write_sig(T[x], "a")]
                    tail, more = positional(paths, from_file, False)
                    paths += more

                    def single_flatten():
                        return cli_result(["sig", "flatten", "-q"] + select_args() + tail, outpath())
                    rs = with_batch(single_flatten, ["sig", "flatten", "-q"], T[x], lambda m: m.flatten(), T,
                                    selectors=True)
                    if len(rs) != 1:
                        raise CliFailed("SystemExit")
                    T[r] = rs[0]
            elif op == "d":
                kind = a[0]
                r, x, v = map(int, a[1:])
                if len(a) != 4:
                    raise KeyError
                if kind == "meth":
                    T[r] = T[x].downsample(scaled=v)
                elif kind == "nmeth":
                    T[r] = T[x].downsample(num=v)
                elif kind in ("cli", "ncli"):
                    paths = [write_sig(T[x], "a")]
                    flag = ["--scaled", str(v)] if kind == "cli" else ["--num", str(v)]
                    tail, more = positional(paths, from_file, False)
                    paths += more

                    def single_down():
                        return cli_result(["sig", "downsample", "-q"] + flag + select_args() + tail, outpath())

                    def api_down(m):
                        # only same-kind inputs (num <-> scaled conversion has conditions of its own)
                        if kind == "cli":
                            if not m.scaled:
                                raise ValueError
                            return m.downsample(scaled=v)
                        if not m.num:
                            raise ValueError
                        return m.downsample(num=v)
                    rs = with_batch(single_down, ["sig", "downsample", "-q"] + flag, T[x], api_down, T)
                    if len(rs) != 1:
                        raise CliFailed("SystemExit")
                    T[r] = rs[0]
                else:
                    raise KeyError
            elif op == "t.cli":
                r, x, mn = map(int, a[:3])
                mx = a[3]
                if len(a) != 4:
                    raise KeyError
                paths = [write_sig(T[x], "a")]
                argv = ["sig", "filter", "-q", "-m", str(mn)]
                if mx != "-":
                    argv += ["-M", str(int(mx))]
                mxv = None if mx == "-" else int(mx)

                def single_filter():
                    return cli_result(argv + select_args() + [paths[0]], outpath())

                def api_filter(m):
                    if not m.track_abundance:
                        return None
                    f = m.copy_and_clear()
                    f.set_abundances({k_: v_ for k_, v_ in m.hashes.items() if v_ >= mn and (mxv is None or v_ <= mxv)})
                    return f
                rs = with_batch(single_filter, list(argv), T[x], api_filter, T, selectors=True)
                if len(rs) == 0:
                    cleanup(paths)
                    out.write("ok skipped\n")
                    continue
                T[r] = rs[0]
            elif op == "u.cli":
                r, fl = int(a[0]), int(a[1])
                hs = [T[int(x)] for x in a[2:]]
                paths = [write_sig(m, f"m{i}") for i, m in enumerate(hs)]
                tail, more = positional(paths, from_file, True)
                paths += more
                argv = ["sig", "merge", "-q"] + (["--flatten"] if fl else []) + select_args() + tail
                rs = cli_result(argv, outpath())
                if len(rs) != 1:
                    raise CliFailed("SystemExit")
                T[r] = rs[0]
            elif op == "i.cli":
                r = int(a[0])
                ab = opt(T, a[1])
                hs = [T[int(x)] for x in a[2:]]
                paths = [write_sig(m, f"m{i}") for i, m in enumerate(hs)]
                argv = ["sig", "intersect", "-q"] + select_args()
                if ab is not None:
                    paths.append(write_sig(ab, "abund"))
                    argv += ["-A", paths[-1]]
                tail, more = positional(paths[:len(hs)], from_file, True)
                paths += more
                rs = cli_result(argv + tail, outpath())
                if len(rs) != 1:
                    raise CliFailed("SystemExit")
                T[r] = rs[0]
            elif op == "s.cli":
                r, fl = int(a[0]), int(a[1])
                ab = opt(T, a[2])
                frm = T[int(a[3])]
                hs = [T[int(x)] for x in a[4:]]
                paths = [write_sig(frm, "from")] + [write_sig(m, f"m{i}") for i, m in enumerate(hs)]
                argv = ["sig", "subtract", "-q"] + (["--flatten"] if fl else []) + select_args()
                if ab is not None:
                    paths.append(write_sig(ab, "abund"))
                    argv += ["-A", paths[-1]]
                rs = cli_result(argv + paths[:1 + len(hs)], outpath())
                if len(rs) != 1:
                    raise CliFailed("SystemExit")
                T[r] = rs[0]
            else:
                out.write("bad-op\n")
                continue
            rkey = int(a[1] if op == "d" else a[0])
            res = show(T[rkey])
            H.note(T[rkey])
            H.n += 1
            # whatever was stored earlier must still read the same (operands now, everything every eighth operation)
            H.verify(None if H.n % 8 == 0 else [T[int(x)] for x in a if x.isdigit() and int(x) in T])
        except KeyError:
            res = "bad-op"
        except CliFailed as e:
            res = "err " + e.name
        except BaseException as e:          # noqa: BLE001
            res = "err " + exc_name(e)
        cleanup(paths)
        out.write(res + "\n")
    out.flush()


if __name__ == "__main__":
    main()
