"""Real-code adapter for the `setops` stream (C04): every op line is one set
operation on a table of MinHash objects, through a Python operator, an API
method, or a `sourmash sig` sub-command.

Sub-commands: operands are written as .sig files under .build/tmp, the
sub-command runs (in-process through `sourmash.__main__.main`, the exact entry
point of the `sourmash` console script; or, with SETOPS_CLI=subprocess, as
`python -m sourmash sig ...` in a fresh interpreter), the written signature is
read back and its sketch stored.

Route suffixes of the sub-command ops (`u.cli+k`, `d cli+kf`, ...): `k` = every operand file additionally
holds decoy signatures (DNA k=31, protein k=7, dayhoff k=7, each with hashes of its own) and the sub-command is
given `-k 21 --dna` (without the selection the decoys would be merged in or make the command fail); `f` = the
operands (for merge / intersect: all but the first, which fixes the template) are handed over through
`--from-file <list>`."""
import atexit
import contextlib
import io
import os
import shutil
import subprocess
import sys
import tempfile

import sourmash
from sourmash import MinHash, SourmashSignature

from mh_impl import show, exc_name          # same observation format as the `mh` stream

VERIF = os.path.dirname(os.path.dirname(os.path.dirname(os.path.abspath(__file__))))
CLI_MODE = os.environ.get("SETOPS_CLI", "inproc")
_TMP = None
_N = [0]


def tmpdir():
    global _TMP
    if _TMP is None:
        base = os.path.join(os.environ.get("VERIF_BUILD", os.path.join(VERIF, ".build")), "tmp")
        os.makedirs(base, exist_ok=True)
        _TMP = tempfile.mkdtemp(prefix="setops-", dir=base)
        atexit.register(shutil.rmtree, _TMP, True)
    return _TMP


DECOYS = [False]      # set per op line from the route suffix


def decoys_for(mh):
    """signatures of other k-mer sizes / molecule types with the same num / scaled and other hashes"""
    out = []
    for ksize, kw, hs in ((31, {}, (1, 2, 3, 5)), (7, {"is_protein": True}, (2, 3, 4)), (7, {"dayhoff": True}, (1, 7))):
        d = MinHash(mh.num, ksize, track_abundance=mh.track_abundance, seed=mh.seed, scaled=mh.scaled, **kw)
        for h in hs:
            d.add_hash(h)
        out.append(SourmashSignature(d, name=f"decoy-k{ksize}-{d.moltype}"))
    return out


_SAME = {}             # per op line: object id -> path already written (`sig merge f.sig f.sig`)


def write_sig(mh, tag):
    if id(mh) in _SAME:
        return _SAME[id(mh)]
    p = _write_sig(mh, tag)
    _SAME[id(mh)] = p
    return p


def _write_sig(mh, tag):
    _N[0] += 1
    p = os.path.join(tmpdir(), f"s{_N[0]}-{tag}.sig")
    ss = SourmashSignature(mh, name=f"{tag}-{_N[0]}")
    sigs = [ss]
    if DECOYS[0]:
        d = decoys_for(mh)
        sigs = d[:1] + [ss] + d[1:]
    with open(p, "w") as fp:
        sourmash.save_signatures_to_json(sigs, fp)
    return p


def select_args():
    return ["-k", "21", "--dna"] if DECOYS[0] else []


def positional(paths, from_file, keep_first):
    """argv tail for the operand files: positional, or (route `f`) through --from-file"""
    if not from_file:
        return list(paths), []
    _N[0] += 1
    lst = os.path.join(tmpdir(), f"list{_N[0]}.txt")
    head = list(paths[:1]) if keep_first and len(paths) > 1 else []
    rest = paths[len(head):]
    if len(set(rest)) < len(rest):
        # the path list is read into a `set`: a file named twice would be loaded once; keep such operands positional
        return list(paths), []
    with open(lst, "w") as fp:
        fp.write("".join(x + "\n" for x in rest))
    return head + ["--from-file", lst], [lst]


class CliFailed(Exception):
    def __init__(self, name):
        self.name = name


def run_cli(argv):
    """run `sourmash <argv>`; raises CliFailed(<exception class name>) when it does not end with status 0"""
    if CLI_MODE == "subprocess":
        env = dict(os.environ)
        r = subprocess.run([sys.executable, "-m", "sourmash"] + argv, stdout=subprocess.PIPE,
                           stderr=subprocess.PIPE, text=True, env=env, timeout=600)
        if r.returncode != 0:
            raise CliFailed("CLI")
        return
    from sourmash.__main__ import main
    buf = io.StringIO()
    try:
        with contextlib.redirect_stdout(buf), contextlib.redirect_stderr(buf):
            main(argv)
    except SystemExit as e:
        if e.code not in (None, 0):
            raise CliFailed("SystemExit")
    except BaseException as e:      # noqa: BLE001
        raise CliFailed(exc_name(e))


def cli_result(argv, out, expect_one=True):
    """run, load what was written; -> list of frozen MinHash"""
    run_cli(argv + ["-o", out])
    if not os.path.exists(out) or open(out).read().strip() in ("", "[]"):
        sigs = []           # nothing was saved (e.g. `sig filter` skipped a flat signature)
    else:
        sigs = list(sourmash.load_file_as_signatures(out))
    res = [s.minhash for s in sigs]
    for p in [out]:
        with contextlib.suppress(OSError):
            os.remove(p)
    return res


def cleanup(paths):
    for p in paths:
        with contextlib.suppress(OSError):
            os.remove(p)


def outpath():
    _N[0] += 1
    return os.path.join(tmpdir(), f"out{_N[0]}.sig")


def opt(T, w):
    return None if w == "-" else T[int(w)]


def main():
    T = {}
    out = sys.stdout
    for line in sys.stdin:
        w = line.split()
        if not w:
            out.write("bad-op\n")
            continue
        op = w[0]
        paths = []
        route = ""
        if op == "d" and len(w) > 1 and "+" in w[1]:
            w[1], route = w[1].split("+", 1)
        elif "+" in op:
            op, route = op.split("+", 1)
        DECOYS[0] = "k" in route
        from_file = "f" in route
        _SAME.clear()
        try:
            if op == "#":
                T = {}
                out.write("#\n")
                continue
            a = w[1:]
            if op == "leaf":
                r, num, scaled, track = map(int, a[:4])
                mh = MinHash(num, 21, track_abundance=bool(track), seed=42, scaled=scaled)
                for h in a[4:]:
                    mh.add_hash(int(h))
                T[r] = mh
            elif op == "leafab":
                r, num, scaled = map(int, a[:3])
                mh = MinHash(num, 21, track_abundance=True, seed=42, scaled=scaled)
                for p in a[3:]:
                    k, v = p.split(":")
                    mh.add_hash_with_abundance(int(k), int(v))
                T[r] = mh
            elif op == "freeze":
                r, x = map(int, a)
                T[r] = T[x].to_frozen()
            elif op in ("u.add", "u.or", "u.iadd", "u.merge", "u.addmany", "i.and", "i.meth",
                        "s.rm", "s.rmlist", "n.meth", "n.cli"):
                if len(a) != 3:
                    raise KeyError
                r, x, y = map(int, a)
                A, B = T[x], T[y]
                if op == "u.add":
                    res = A + B
                elif op == "u.or":
                    res = A | B
                elif op == "u.iadd":
                    res = A.to_mutable()
                    res += B
                elif op == "u.merge":
                    res = A.to_mutable()
                    res.merge(B)
                elif op == "u.addmany":
                    res = A.to_mutable()
                    res.add_many(B)
                elif op == "i.and":
                    res = A & B
                elif op == "i.meth":
                    res = A.intersection(B)
                elif op == "s.rm":
                    res = A.to_mutable()
                    res.remove_many(B)
                elif op == "s.rmlist":
                    res = A.to_mutable()
                    res.remove_many(list(B.hashes))
                elif op == "n.meth":
                    res = A.inflate(B)
                else:   # n.cli: sig inflate <from> <other>
                    paths = [write_sig(A, "from"), write_sig(B, "other")]
                    rs = cli_result(["sig", "inflate", "-q"] + select_args() + [paths[0], paths[1]], outpath())
                    if len(rs) != 1:
                        raise CliFailed("SystemExit")
                    res = rs[0]
                T[r] = res
            elif op in ("u.merge.self", "u.iadd.self", "u.addmany.self", "s.rm.self"):
                # the receiver object is ALSO the operand (one Python object, one Rust object behind both pointers)
                if len(a) != 2:
                    raise KeyError
                r, x = map(int, a)
                res = T[x].to_mutable()
                if op == "u.merge.self":
                    res.merge(res)
                elif op == "u.iadd.self":
                    res += res
                elif op == "u.addmany.self":
                    res.add_many(res)
                else:
                    res.remove_many(res)
                T[r] = res
            elif op in ("f.meth", "f.cli"):
                if len(a) != 2:
                    raise KeyError
                r, x = map(int, a)
                if op == "f.meth":
                    T[r] = T[x].flatten()
                else:
                    paths = [write_sig(T[x], "a")]
                    tail, more = positional(paths, from_file, False)
                    paths += more
                    rs = cli_result(["sig", "flatten", "-q"] + select_args() + tail, outpath())
                    if len(rs) != 1:
                        raise CliFailed("SystemExit")
                    T[r] = rs[0]
            elif op == "d":
                kind = a[0]
                r, x, v = map(int, a[1:])
                if len(a) != 4:
                    raise KeyError
                if kind == "meth":
                    T[r] = T[x].downsample(scaled=v)
                elif kind == "nmeth":
                    T[r] = T[x].downsample(num=v)
                elif kind in ("cli", "ncli"):
                    paths = [write_sig(T[x], "a")]
                    flag = ["--scaled", str(v)] if kind == "cli" else ["--num", str(v)]
                    tail, more = positional(paths, from_file, False)
                    paths += more
                    rs = cli_result(["sig", "downsample", "-q"] + flag + select_args() + tail, outpath())
                    if len(rs) != 1:
                        raise CliFailed("SystemExit")
                    T[r] = rs[0]
                else:
                    raise KeyError
            elif op == "t.cli":
                r, x, mn = map(int, a[:3])
                mx = a[3]
                if len(a) != 4:
                    raise KeyError
                paths = [write_sig(T[x], "a")]
                argv = ["sig", "filter", "-q", "-m", str(mn)]
                if mx != "-":
                    argv += ["-M", str(int(mx))]
                rs = cli_result(argv + select_args() + [paths[0]], outpath())
                if len(rs) == 0:
                    cleanup(paths)
                    out.write("ok skipped\n")
                    continue
                T[r] = rs[0]
            elif op == "u.cli":
                r, fl = int(a[0]), int(a[1])
                hs = [T[int(x)] for x in a[2:]]
                paths = [write_sig(m, f"m{i}") for i, m in enumerate(hs)]
                tail, more = positional(paths, from_file, True)
                paths += more
                argv = ["sig", "merge", "-q"] + (["--flatten"] if fl else []) + select_args() + tail
                rs = cli_result(argv, outpath())
                if len(rs) != 1:
                    raise CliFailed("SystemExit")
                T[r] = rs[0]
            elif op == "i.cli":
                r = int(a[0])
                ab = opt(T, a[1])
                hs = [T[int(x)] for x in a[2:]]
                paths = [write_sig(m, f"m{i}") for i, m in enumerate(hs)]
                argv = ["sig", "intersect", "-q"] + select_args()
                if ab is not None:
                    paths.append(write_sig(ab, "abund"))
                    argv += ["-A", paths[-1]]
                tail, more = positional(paths[:len(hs)], from_file, True)
                paths += more
                rs = cli_result(argv + tail, outpath())
                if len(rs) != 1:
                    raise CliFailed("SystemExit")
                T[r] = rs[0]
            elif op == "s.cli":
                r, fl = int(a[0]), int(a[1])
                ab = opt(T, a[2])
                frm = T[int(a[3])]
                hs = [T[int(x)] for x in a[4:]]
                paths = [write_sig(frm, "from")] + [write_sig(m, f"m{i}") for i, m in enumerate(hs)]
                argv = ["sig", "subtract", "-q"] + (["--flatten"] if fl else []) + select_args()
                if ab is not None:
                    paths.append(write_sig(ab, "abund"))
                    argv += ["-A", paths[-1]]
                rs = cli_result(argv + paths[:1 + len(hs)], outpath())
                if len(rs) != 1:
                    raise CliFailed("SystemExit")
                T[r] = rs[0]
            else:
                out.write("bad-op\n")
                continue
            res = show(T[int(a[1] if op == "d" else a[0])])
        except KeyError:
            res = "bad-op"
        except CliFailed as e:
            res = "err " + e.name
        except BaseException as e:          # noqa: BLE001
            res = "err " + exc_name(e)
        cleanup(paths)
        out.write(res + "\n")
    out.flush()


if __name__ == "__main__":
    main()
