"""In-process command-line runner for the QUICK tiers of C07 / C08 (run under /venv/bin/python with the package
built from /repo's working tree on PYTHONPATH).

One interpreter, many invocations: every request line on stdin is a JSON object, every answer one JSON line.
  {"op": "write", "spec": {...}}                  -> {"ok": true} | {"ok": false, "err": "..."}   (cli_files.write_spec)
  {"op": "run", "argv": [...]}                    -> {"rc": int, "exc": name | null, "out": "...", "err": "..."}
The command runs through the real entry point `sourmash.__main__.main(argv)` (argument parsing, commands.py,
sourmash_args loading) with stdout / stderr captured; SystemExit is turned into the exit code."""
import contextlib
import io
import json
import os
import sys
import traceback

sys.path.insert(0, os.path.dirname(os.path.abspath(__file__)))
import cli_files  # noqa: E402


def run(argv):
    from sourmash.__main__ import main as sm_main
    from sourmash.logging import set_quiet
    out, err = io.StringIO(), io.StringIO()
    code, exc = 0, None
    try:
        with contextlib.redirect_stdout(out), contextlib.redirect_stderr(err):
            sm_main(list(argv))
    except SystemExit as e:
        code = e.code if isinstance(e.code, int) else (0 if e.code is None else 1)
    except KeyboardInterrupt:
        raise
    except BaseException as e:          # noqa: BLE001
        code, exc = 1, type(e).__name__
        err.write(traceback.format_exc())
    finally:
        set_quiet(False)
    return {"rc": code, "exc": exc, "out": out.getvalue()[-4000:], "err": err.getvalue()[-4000:]}


def main():
    for line in sys.stdin:
        line = line.strip()
        if not line:
            continue
        try:
            req = json.loads(line)
            if req["op"] == "write":
                cli_files.write_spec(req["spec"])
                ans = {"ok": True}
            elif req["op"] == "run":
                ans = run(req["argv"])
            else:
                ans = {"ok": False, "err": "bad op"}
        except BaseException as e:      # noqa: BLE001
            if isinstance(e, KeyboardInterrupt):
                raise
            ans = {"ok": False, "rc": 1, "exc": type(e).__name__, "out": "", "err": traceback.format_exc()[-2000:]}
        sys.__stdout__.write(json.dumps(ans) + "\n")
        sys.__stdout__.flush()


if __name__ == "__main__":
    main()
