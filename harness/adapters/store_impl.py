"""Real-code adapter for the `store` stream (C10): saves sets of signatures to real files under
<build>/tmp/<case> with the public savers of the sourmash package assembled from /repo's working tree,
reloads them with the public loaders, and prints one canonical observation per op line."""
import contextlib
import io
import json
import os
import re
import shutil
import sys
import tempfile
import zipfile

import sourmash
from sourmash import MinHash, SourmashSignature, sourmash_args
from sourmash.exceptions import IndexNotLoaded
from sourmash.index import LazyLinearIndex, LinearIndex, MultiIndex, StandaloneManifestIndex, ZipFileLinearIndex
from sourmash.index.sqlite_index import convert_hash_from, convert_hash_to
from sourmash.lca.lca_db import LCA_Database
from sourmash._lowlevel import lib
from sourmash.utils import decode_str
from sourmash.logging import set_quiet
from sourmash.manifest import CollectionManifest
from sourmash.save_load import SaveSignaturesToLocation, _loader_functions
from sourmash.sbtmh import create_sbt_index

set_quiet(True)

HARNESS = os.path.dirname(os.path.dirname(os.path.abspath(__file__)))
BUILD = os.environ.get("VERIF_BUILD", os.path.join(os.path.dirname(HARNESS), ".build"))
TMPROOT = os.path.join(BUILD, "tmp")
MOLS = ["DNA", "protein", "dayhoff", "hp"]


def nm(i):
    return "" if i == 0 else f"s{i}"


def fnm(i):
    return "" if i == 0 else f"f{i}.fa"


def un_nm(s):
    if s == "" or s is None:
        return 0
    m = re.fullmatch(r"s(\d+)", s)
    return int(m.group(1)) if m else f"?{s}"


def un_fnm(s):
    if s == "" or s is None:
        return 0
    m = re.fullmatch(r"f(\d+)\.fa", s)
    return int(m.group(1)) if m else f"?{s}"


def exc_name(e):
    for cls in (FileNotFoundError, KeyError, NotImplementedError, ValueError):
        if isinstance(e, cls):
            return cls.__name__
    return "Exception" if type(e) is Exception else type(e).__name__


def show_member(name):
    """zip member / file name -> the model's rendering"""
    base = name.split("/")[-1]
    if base == "SOURMASH-MANIFEST.csv":
        return "MANIFEST"
    m = re.fullmatch(r"([0-9a-f]{32})(?:\.sig\.gz)?(?:_(\d+))?", base)          # zip / sbt leaf
    if m:
        return f"m{int(m.group(1), 16)}" + (f"_{m.group(2)}" if m.group(2) is not None else "")
    m = re.fullmatch(r"([0-9a-f]{32})(?:_(\d+))?\.sig\.gz", base)                # directory saver
    if m:
        return f"m{int(m.group(1), 16)}" + (f"_{m.group(2)}" if m.group(2) is not None else "")
    return f"?{name}"


def show_sig(ss, with_md5=True):
    mh = ss.minhash
    hs = mh.hashes
    keys = sorted(hs.keys())
    hh = ",".join(f"{k}:{hs[k]}" for k in keys)
    md5 = str(int(ss.md5sum(), 16)) if with_md5 else "-"
    return (f"{un_nm(ss.name)}/{un_fnm(ss.filename)}/{md5}/{mh.ksize}/{MOLS.index(mh.moltype)}/{mh.num}/"
            f"{mh.scaled}/{mh.seed}/{int(mh.track_abundance)}/{hh}")


class State:
    def __init__(self):
        self.sigs = {}
        self.kind = None
        self.path = None
        self.dir = None
        self.n = 0
        self.slots = {}
        self.cwd = None
        self.route = 0            # per-case counter the model does not see: alternates equivalent routes
        self.history = []         # (description, index object, cwd, first observation) of the current collection
        self.kept = []            # (signature object, first rendering): every signature any call returned
        self.sig_shows = {}       # rendering of the input signatures when they were made

    def reset(self):
        self.cleanup()
        self.sigs = {}
        self.kind = None
        self.path = None
        self.slots = {}
        self.cwd = None
        self.route = 0
        self.history = []
        self.kept = []
        self.sig_shows = {}

    def next_route(self, n):
        self.route += 1
        return self.route % n

    def new_collection(self):
        self.history = []
        self.kept = []

    def workspace(self):
        """the command-line workspace of this case: <dir>/a/b<slot>/..., <dir>/mf/, <dir>/out/, <dir>/else/"""
        if not self.dir or not os.path.isdir(os.path.join(self.dir, "else")):
            self.fresh()
            for sub in ("a", "mf", "out", "else"):
                os.makedirs(os.path.join(self.dir, sub))
        return self.dir

    def cleanup(self):
        if self.dir and os.path.isdir(self.dir):
            shutil.rmtree(self.dir, ignore_errors=True)
        self.dir = None

    def fresh(self):
        """a fresh directory for a new collection"""
        self.cleanup()
        self.cwd = None
        self.slots = {}
        os.makedirs(TMPROOT, exist_ok=True)
        self.dir = tempfile.mkdtemp(prefix="c10_", dir=TMPROOT)
        return self.dir


def parse_sessions(s):
    out = []
    for part in s.split("|"):
        out.append([] if part == "-" else [int(x) for x in part.split(",")])
    return out


def run_sessions(S, path, sessions):
    """the same saves through alternating spellings: context manager / explicit open+close / add_many;
    for an uncompressed .sig also LinearIndex.save and save_signatures_to_json"""
    refused = []
    for si, sess in enumerate(sessions):
        route = S.next_route(4)
        if path.endswith(".sig") and len(sessions) == 1 and route >= 2:
            if route == 2:
                LinearIndex([S.sigs[i] for i in sess], path).save(path)
            else:
                with open(path, "wt") as fp:
                    sourmash.save_signatures_to_json([S.sigs[i] for i in sess], fp)
            continue
        if route == 1:
            save = SaveSignaturesToLocation(path)
            save.open()
        else:
            save = SaveSignaturesToLocation(path).__enter__()
        n_ok = 0
        try:
            if route == 3 and not path.endswith(".sqldb"):
                save.add_many([S.sigs[i] for i in sess])
                n_ok = len(sess)
            else:
                for j, i in enumerate(sess):
                    try:
                        save.add(S.sigs[i])
                        n_ok += 1
                    except ValueError as e:
                        refused.append(f"{si}.{j}:{exc_name(e)}")
        finally:
            if route == 1:
                save.close()
            else:
                save.__exit__(None, None, None)
        # (SaveSignatures_SqliteIndex counts an add before the insert that may refuse it)
        if (len(save) != n_ok and not path.endswith(".sqldb")) or path.rstrip("/") not in repr(save).replace("//", "/"):
            return f"VIEW:saver-count-or-repr len={len(save)} adds={n_ok} {save!r}"
    for i, shown in S.sig_shows.items():
        if show_sig(S.sigs[i]) != shown:
            return f"HIST:input-signature-{i}-changed-by-saving"
    return "ok refused=" + ",".join(refused)


def row_fields(row, loc):
    return "|".join(str(x) for x in (
        loc, int(row["md5"], 16), int(row["md5short"], 16), row["ksize"], MOLS.index(row["moltype"]),
        row["num"], row["scaled"], row["n_hashes"], int(bool(row["with_abundance"])), un_nm(row["name"]),
        un_fnm(row["filename"])))


@contextlib.contextmanager
def in_dir(d):
    old = os.getcwd()
    try:
        if d:
            os.chdir(d)
        yield
    finally:
        os.chdir(old)


def generic(S):
    """the generic loader, through alternating entry points (and, now and then, the class's own loader)"""
    from sourmash import save_load
    from sourmash.index.sqlite_index import SqliteIndex
    route = S.next_route(6)
    with in_dir(S.cwd):
        if route == 1:
            return sourmash_args.load_file_as_index(S.path)
        if route == 2:
            return save_load._load_database(S.path, False)
        if route == 3:
            return save_load.load_file_as_index(S.path, yield_all_files=False)
        if route == 4:
            if S.kind == "zip":
                return ZipFileLinearIndex.load(S.path)
            if S.kind == "sqldb":
                return SqliteIndex.load(S.path)
            if S.kind in ("sigfile", "dir", "split"):
                return MultiIndex.load_from_path(S.path)
        return sourmash.load_file_as_index(S.path)


def check_views(S, idx, sigs):
    """everything that can be read about the collection through two routes must agree -> None or a complaint"""
    m = idx.manifest
    shown = sorted(show_sig(x) for x in sigs)
    for ss in sigs:
        if ss.md5sum() != decode_str(ss.minhash._methodcall(lib.kmerminhash_md5sum)):
            return "md5-of-signature-vs-sketch"
        if m is not None and ss not in m:
            return "returned-signature-not-in-manifest"
    try:
        swl = list(idx.signatures_with_location())
    except NotImplementedError:
        swl = None
    if swl is not None:
        if sorted(show_sig(x) for x, _ in swl) != shown:
            return "signatures_with_location-vs-signatures"
        for _, loc in swl:
            if not loc or not os.path.exists(loc):
                return f"location-does-not-exist:{loc}"
    if not idx.location or not os.path.exists(idx.location):
        return f"index-location:{idx.location}"
    if sorted(show_sig(x) for x in LazyLinearIndex(idx).signatures()) != shown:
        return "LazyLinearIndex-vs-signatures"
    if isinstance(idx, ZipFileLinearIndex) and bool(idx) != bool(sigs):
        return "zip-bool-vs-signatures"
    if m is not None:
        rows = list(m.rows)
        have = {}
        for r in rows:
            key = (r["md5"], r["name"], r["filename"] or "", r["ksize"], r["moltype"], r["num"], r["scaled"], r["n_hashes"],
                   bool(r["with_abundance"]))
            have[key] = have.get(key, 0) + 1
        for ss in sigs:
            mh = ss.minhash
            key = (ss.md5sum(), ss.name, ss.filename or "", mh.ksize, mh.moltype, mh.num, mh.scaled, len(mh),
                   bool(mh.track_abundance))
            if not have.get(key) and not (S.kind == "mf" and not isinstance(m, CollectionManifest)):   # C10.5
                return "no-manifest-row-with-the-attributes-of-a-returned-signature"
        if len(idx) != len(rows) and S.kind != "lcasql":
            return "len-vs-manifest-rows"
        if isinstance(m, CollectionManifest):
            m.write_to_csv(io.StringIO(), write_header=True)          # a read-only call on the index's own manifest ...
            if sorted(show_sig(x) for x in idx.signatures()) != shown:    # ... must not disturb the index
                return "signatures-after-manifest.write_to_csv"
            if not (CollectionManifest.load_from_manifest(m) == m) or len(m + m) != 2 * len(m) \
                    or not (m.filter_rows(lambda r: True) == m):
                return "manifest-algebra"
            fp = io.StringIO()
            CollectionManifest(dict(r) for r in m.rows).write_to_csv(fp, write_header=True)
            back = CollectionManifest.load_from_csv(io.StringIO(fp.getvalue()))
            if len(back) != len(m) or any(str(a[k2] if a[k2] is not None else "") != str(b[k2] if b[k2] is not None else "")
                                         for a, b in zip(back.rows, m.rows) for k2 in CollectionManifest.required_keys):
                return "manifest-csv-roundtrip"
    return None


def recheck_history(S):
    """every index object and every signature an earlier call returned must still say what it said"""
    for desc, idx, cwd, first in S.history:
        with in_dir(cwd):
            now = sorted(show_sig(x) for x in idx.signatures())
        if now != first:
            return f"HIST:{desc}-answers-differently-later"
    for ss, shown in S.kept:
        if show_sig(ss) != shown:
            return "HIST:a-returned-signature-changed-later"
    return None


def cli(argv, cwd):
    """run `sourmash <argv>` in-process from directory cwd -> (return code, stdout)"""
    from sourmash.__main__ import main as sourmash_main
    out, err = io.StringIO(), io.StringIO()
    rc = 0
    with in_dir(cwd), contextlib.redirect_stdout(out), contextlib.redirect_stderr(err):
        try:
            sourmash_main(argv)
        except SystemExit as e:
            rc = e.code
        finally:
            set_quiet(True)
    return (0 if rc is None else rc), out.getvalue()


SLOT_EXT = {"zip": "c.zip", "dir": "cdir/", "sig": "c.sig", "siggz": "c.sig.gz", "sqldb": "c.sqldb"}
SLOT_KIND = {"zip": "zip", "dir": "dir", "sig": "sigfile", "siggz": "sigfile", "sqldb": "sqldb"}


def slot_rel(S, k):
    return S.slots[k][1]


def slot_of_location(S, iloc, mfdir):
    """which workspace slot a manifest's internal_location names (resolved like StandaloneManifestIndex does)"""
    cands = [iloc] if iloc.startswith("/") else [os.path.join(mfdir, iloc), os.path.join(S.dir, iloc)]
    for p in cands:
        p = os.path.realpath(p)
        for k, (_, rel) in S.slots.items():
            if os.path.realpath(os.path.join(S.dir, rel)) == p:
                return f"o{k}"
    return "?" + iloc


def build_standalone(S, fmt="csv"):
    """the `sig collect` recipe: the collection's manifest with internal_location := the collection"""
    idx = generic(S)
    mf = sourmash_args.get_manifest(idx)
    rows = []
    for row in mf.rows:
        row = dict(row)
        row["internal_location"] = S.path
        rows.append(row)
    out = os.path.join(S.dir, "standalone.mf.csv" if fmt == "csv" else "standalone.mf.sqlmf")
    if os.path.exists(out):
        os.unlink(out)
    CollectionManifest(rows).write_to_filename(out, database_format=fmt)
    return out


def load_how(S, how):
    if how == "generic":
        idx = generic(S)
        with in_dir(S.cwd):
            sigs = list(idx.signatures())
            again = list(idx.signatures())                       # read-only entry point, twice
            # the other generic entry point must agree
            other = list(sourmash_args.load_file_as_signatures(S.path))
            if sorted(show_sig(x) for x in other) != sorted(show_sig(x) for x in sigs):
                return None, "VIEW:load_file_as_signatures-vs-index"
            if [show_sig(x) for x in again] != [show_sig(x) for x in sigs]:
                return None, "HIST:second-iteration-differs"
            complaint = check_views(S, idx, sigs)
        if complaint:
            return None, "VIEW:" + complaint
        S.history.append((f"{type(idx).__name__}", idx, S.cwd, sorted(show_sig(x) for x in sigs)))
        S.kept += [(x, show_sig(x)) for x in sigs]
        return sigs, None
    if how == "standalone":
        out = build_standalone(S)
        idx = sourmash.load_file_as_index(out)
        if not isinstance(idx, StandaloneManifestIndex):
            return None, "MISMATCH standalone manifest loaded as " + type(idx).__name__
        return list(idx.signatures()), None
    if how == "standalone-sql":
        out = build_standalone(S, "sql")
        idx = sourmash.load_file_as_index(out)
        if not isinstance(idx, StandaloneManifestIndex):
            return None, "MISMATCH sql standalone manifest loaded as " + type(idx).__name__
        return list(idx.signatures()), None
    if how == "pathlist":
        out = os.path.join(S.dir, "pathlist.txt")
        with open(out, "w") as f:
            f.write(S.path + "\n")
        idx = sourmash.load_file_as_index(out)
        return list(idx.signatures()), None
    if how == "directory":
        if S.kind == "dir":
            idx = sourmash.load_file_as_index(S.path)
        else:
            idx = sourmash.load_file_as_index(os.path.dirname(S.path))
        return list(idx.signatures()), None
    raise KeyError(how)


KIND_FILES = {}


def make_kind(S, k):
    """create one real file of the given kind, return its path"""
    d = S.fresh()
    mh = MinHash(n=0, ksize=21, scaled=1)
    mh.add_many([1, 2, 3])
    A = SourmashSignature(mh, name="s1")

    def save(p):
        with SaveSignaturesToLocation(p) as s:
            s.add(A)
        return p
    if k == "sigJson":
        return save(d + "/c.sig")
    if k == "sigGz":
        return save(d + "/c.sig.gz")
    if k == "directory":
        save(d + "/cdir/")
        return d + "/cdir"
    if k == "zipColl":
        return save(d + "/c.zip")
    if k == "sqldbIndex":
        return save(d + "/c.sqldb")
    if k in ("csvManifest", "sqlManifest"):
        z = save(d + "/c.zip")
        idx = sourmash.load_file_as_index(z)
        rows = []
        for r in idx.manifest.rows:
            r = dict(r)
            r["internal_location"] = z
            rows.append(r)
        if k == "csvManifest":
            CollectionManifest(rows).write_to_filename(d + "/c.mf.csv")
            return d + "/c.mf.csv"
        CollectionManifest(rows).write_to_filename(d + "/c.mf.sqlmf", database_format="sql")
        return d + "/c.mf.sqlmf"
    if k == "pathlist":
        p = save(d + "/c.sig")
        with open(d + "/c.txt", "w") as f:
            f.write(p + "\n")
        return d + "/c.txt"
    if k in ("sbtZip", "sbtJson"):
        t = create_sbt_index()
        t.insert(A)
        p = d + ("/c.sbt.zip" if k == "sbtZip" else "/c.sbt.json")
        t.save(p)
        return p
    if k in ("lcaJson", "lcaSqldb"):
        db = LCA_Database(21, 1)
        db.insert(A)
        if k == "lcaJson":
            db.save(d + "/c.lca.json")
            return d + "/c.lca.json"
        db.save(d + "/c.lca.sqldb", format="sql")
        return d + "/c.lca.sqldb"
    if k == "fasta":
        with open(d + "/c.fa", "w") as f:
            f.write(">a\nACGTACGTACGT\n")
        return d + "/c.fa"
    if k == "emptyText":
        open(d + "/empty.txt", "w").close()
        return d + "/empty.txt"
    if k == "missing":
        return d + "/does-not-exist"
    raise KeyError(k)


def do_kind(S, k):
    p = make_kind(S, k)
    acc = []
    for prio, desc, fn in sorted(_loader_functions, key=lambda t: t[0]):
        try:
            r = fn(p, traverse_yield_all=False, cache_size=None)
            acc.append(f"{prio}:{type(r).__name__ if r is not None else 'None'}")
        except (ValueError, IndexNotLoaded):
            acc.append(f"{prio}:rej")
        except Exception:
            acc.append(f"{prio}:EXC")
    try:
        w = type(sourmash.load_file_as_index(p)).__name__
    except Exception as e:
        w = "ERR:" + exc_name(e)
    return "ok accept=" + ",".join(acc) + " winner=" + w


def main():
    S = State()
    out = sys.stdout
    for line in sys.stdin:
        w = line.split()
        if not w:
            out.write("bad-op\n")
            continue
        op, a = w[0], w[1:]
        try:
            if op == "#":
                S.reset()
                out.write("#\n")
                continue
            if op == "sig":
                i, name, filename, ksize, mol, num, scaled, seed, track, md5 = [int(x) for x in a[:10]]
                hs = [tuple(int(v) for v in x.split(":")) for x in a[10:]]
                mh = MinHash(n=num, ksize=ksize, scaled=scaled, seed=seed, track_abundance=bool(track),
                             is_protein=(mol == 1), dayhoff=(mol == 2), hp=(mol == 3))
                if track:
                    mh.set_abundances(dict(hs))
                else:
                    mh.add_many([h for h, _ in hs])
                S.sigs[i] = SourmashSignature(mh, name=nm(name), filename=fnm(filename))
                S.sig_shows[i] = show_sig(S.sigs[i])
                res = f"ok md5={int(S.sigs[i].md5sum(), 16)} n={len(mh)}"
            elif op in ("zip", "dir", "sqldb", "sigfile", "sbt", "lca") and any(
                    i not in S.sigs for sess in parse_sessions(a[-1]) for i in sess):
                res = "bad-op"
            elif op in ("zip", "dir", "sqldb", "sigfile"):
                d = S.fresh()
                if op == "sigfile":
                    path = d + ("/c.sig.gz" if a[0] == "1" else "/c.sig")
                    sess = a[1]
                else:
                    path = d + {"zip": "/c.zip", "dir": "/cdir/", "sqldb": "/c.sqldb"}[op]
                    sess = a[0]
                S.kind, S.path = op, path
                S.new_collection()
                res = run_sessions(S, path, parse_sessions(sess))
                if op == "dir":
                    S.path = path.rstrip("/")
                    if not os.path.isdir(S.path):
                        os.mkdir(S.path)
            elif op == "sbt":
                d = S.fresh()
                S.kind, S.path = "sbt", d + "/c.sbt.zip"
                S.new_collection()
                t = create_sbt_index()
                for i in parse_sessions(a[0])[0]:
                    t.insert(S.sigs[i])
                t.save(S.path)
                res = "ok refused="
            elif op == "lca":
                ksize, mol, scaled, maxhash = [int(x) for x in a[:4]]
                d = S.fresh()
                S.kind, S.path = "lca", d + "/c.lca.json"
                S.new_collection()
                db = LCA_Database(ksize, scaled, MOLS[mol])
                refused = []
                for j, i in enumerate(parse_sessions(a[4])[0]):
                    try:
                        db.insert(S.sigs[i])
                    except ValueError as e:
                        refused.append(f"0.{j}:{exc_name(e)}")
                    if S.next_route(2):
                        _ = len(db), list(db.signatures())       # a reader between two writes
                db.save(S.path)
                res = "ok refused=" + ",".join(refused)
                # the database in memory (read between the inserts) and the one read back must agree
                back = LCA_Database.load(S.path)
                if sorted(show_sig(x) for x in db.signatures()) != sorted(show_sig(x) for x in back.signatures()) \
                        or len(db) != len(back):
                    res = "VIEW:lca-in-memory-vs-reloaded"
            elif op in ("noout", "stdio", "sbtjson", "lcasql") and any(
                    i not in S.sigs for i in parse_sessions(a[-1])[0]):
                res = "bad-op"
            elif op == "noout":
                ids = parse_sessions(a[0])[0]
                save = SaveSignaturesToLocation(None)
                before = set(os.listdir(os.getcwd()))
                if S.next_route(2):
                    with save:
                        for i in ids:
                            save.add(S.sigs[i])
                else:
                    save.open()
                    save.add_many([S.sigs[i] for i in ids])
                    save.close()
                ok = type(save).__name__ == "SaveSignatures_NoOutput" and set(os.listdir(os.getcwd())) == before
                res = f"ok n={len(save)}" if ok else "VIEW:no-output-saver"
            elif op == "stdio":
                ids = parse_sessions(a[0])[0]
                buf = io.StringIO()
                with contextlib.redirect_stdout(buf):
                    with SaveSignaturesToLocation("-") as save:
                        for i in ids:
                            save.add(S.sigs[i])
                text = buf.getvalue()
                from_text = list(sourmash.load_signatures_from_json(text))
                old_stdin = sys.stdin
                try:
                    sys.stdin = io.StringIO(text)
                    from_stdin = list(sourmash.load_file_as_index("-").signatures())
                finally:
                    sys.stdin = old_stdin
                if [show_sig(x) for x in from_text] != [show_sig(x) for x in from_stdin]:
                    res = "VIEW:stdout-json-vs-stdin-loader"
                else:
                    res = "ok " + ";".join(show_sig(x) for x in from_stdin)
            elif op == "sbtjson":
                d = S.fresh()
                S.kind, S.path = "sbtjson", d + "/c.sbt.json"
                S.new_collection()
                t = create_sbt_index()
                for i in parse_sessions(a[0])[0]:
                    t.insert(S.sigs[i])
                t.save(S.path)
                res = "ok refused="
            elif op == "sbtresave":
                from sourmash.sbtmh import load_sbt_index
                src, dst = a[0], a[1]
                ids, extra = parse_sessions(a[2])[0], parse_sessions(a[3])[0]
                if any(i not in S.sigs for i in ids + extra):
                    res = "bad-op"
                else:
                    d = S.fresh()
                    S.new_collection()
                    S.kind = None
                    os.makedirs(d + "/A")
                    os.makedirs(d + "/B")
                    src_path = d + ("/A/c.sbt.json" if src == "json" else "/A/c.sbt.zip")
                    t = create_sbt_index()
                    for i in ids:
                        t.insert(S.sigs[i])
                    t.save(src_path)
                    t2 = load_sbt_index(src_path) if S.next_route(2) else sourmash.load_file_as_index(src_path)
                    for i in extra:
                        t2.insert(S.sigs[i])
                    target = {"samename": d + "/B/c.sbt.json", "othername": d + "/A/d.sbt.json",
                              "otherdir": d + "/B/d.sbt.json", "zip": d + "/B/c.sbt.zip"}[dst]
                    t2.save(target)
                    del t2, t
                    # the copy must be self-contained: remove the source
                    if src == "json":
                        os.unlink(src_path)
                        shutil.rmtree(d + "/A/.sbt.c", ignore_errors=True)
                    else:
                        os.unlink(src_path)
                    S.kind, S.path = ("sbt" if dst == "zip" else "sbtjson"), target
                    res = "ok refused="
            elif op == "lcasql":
                ksize, mol, scaled, maxhash = [int(x) for x in a[:4]]
                d = S.fresh()
                S.kind, S.path = None, d + "/c.lca.sqldb"
                S.new_collection()
                db = LCA_Database(ksize, scaled, MOLS[mol])
                refused = []
                for j, i in enumerate(parse_sessions(a[4])[0]):
                    try:
                        db.insert(S.sigs[i])
                    except ValueError as e:
                        refused.append(f"0.{j}:{exc_name(e)}")
                db.save(S.path, format="sql")
                S.kind = "lcasql"
                res = "ok refused=" + ",".join(refused)
            elif op == "derive":
                j, i, how = int(a[0]), int(a[1]), a[2]
                if i not in S.sigs:
                    res = "bad-op"
                else:
                    src = S.sigs[i]
                    route = S.next_route(3)
                    if how == "down":
                        mh = src.minhash.downsample(scaled=int(a[3]))
                    elif how == "flat":
                        mh = src.minhash.flatten()
                    else:
                        mh = src.minhash
                    name = nm(int(a[3])) if how == "rename" else src.name
                    filename = fnm(int(a[4])) if how == "rename" else src.filename
                    if route == 0:
                        new = SourmashSignature(mh, name=name, filename=filename)
                    elif route == 1:
                        new = src.to_mutable()
                        new.minhash = mh
                        if how == "rename":
                            new.name = name
                            new.filename = filename
                        new = new.to_frozen()
                    else:
                        with src.to_frozen().update() as new:
                            new.minhash = mh
                            if how == "rename":
                                new.name = name
                                new.filename = filename
                    S.sigs[j] = new
                    S.sig_shows[j] = show_sig(new)
                    if show_sig(src) != S.sig_shows[i]:
                        res = "HIST:deriving-changed-the-source-signature"
                    else:
                        res = f"ok md5={int(new.md5sum(), 16)} n={len(new.minhash)}"
            elif op == "load" and a[0] == "nomanifest":
                if S.kind != "zip":
                    res = "ok -"
                else:
                    idx = ZipFileLinearIndex.load(S.path, use_manifest=False)
                    sigs = list(idx.signatures())
                    swi = [x for x, _ in idx._signatures_with_internal()]
                    if sorted(show_sig(x) for x in swi) != sorted(show_sig(x) for x in sigs) or len(idx) != len(sigs):
                        res = "VIEW:manifest-less-zip-views"
                    else:
                        res = "ok~ " + ";".join(show_sig(x) for x in sigs)
            elif op == "nested":
                l1, l2, l3 = (parse_sessions(x)[0] for x in a[:3])
                junk, force = a[3] == "1", a[4] == "1"
                if any(i not in S.sigs for l in (l1, l2, l3) for i in l):
                    res = "bad-op"
                else:
                    d = S.fresh()
                    S.kind = None
                    root = os.path.join(d, "n")
                    os.makedirs(os.path.join(root, "sub", "deep"))
                    for rel, ids in (("a.sig", l1), ("sub/b.sig.gz", l2), ("sub/deep/c.zip", l3)):
                        with SaveSignaturesToLocation(os.path.join(root, rel)) as save:
                            for i in ids:
                                save.add(S.sigs[i])
                    with open(os.path.join(root, "sub", "readme.txt"), "w") as f:
                        f.write("not a signature\n")
                    if junk:
                        with open(os.path.join(root, "junk.sig"), "w") as f:
                            f.write("this is not JSON")
                    if force:
                        idx = MultiIndex.load_from_directory(root, force=True)
                    elif S.next_route(2):
                        idx = sourmash.load_file_as_index(root)
                    else:
                        idx = MultiIndex.load_from_path(root)
                    sigs = list(idx.signatures())
                    locs = {r["internal_location"] for r in idx.manifest.rows}
                    swl = list(idx.signatures_with_location())
                    if not locs <= {"a.sig", "sub/b.sig.gz"} or any(not os.path.isfile(loc) for _, loc in swl) \
                            or len(idx) != len(sigs):
                        res = f"VIEW:directory-locations {sorted(locs)}"
                    else:
                        res = "ok~ " + ";".join(show_sig(x) for x in sigs)
            elif op == "lateadd":
                fmt, ids, extra = a[0], parse_sessions(a[1])[0], int(a[2])
                if any(i not in S.sigs for i in ids + [extra]):
                    res = "bad-op"
                else:
                    d = S.fresh()
                    S.new_collection()
                    S.kind = None
                    path = os.path.join(d, {"zip": "c.zip", "sqldb": "c.sqldb", "sig": "c.sig", "dir": "cdir/"}[fmt])
                    save = SaveSignaturesToLocation(path)
                    save.open()
                    for i in ids:
                        save.add(S.sigs[i])            # a refusal (sqldb) propagates: `err ValueError`
                    save.close()
                    raised = 0
                    try:
                        save.add(S.sigs[extra])
                    except Exception:
                        raised = 1
                    S.kind, S.path = {"sig": "sigfile"}.get(fmt, fmt), path.rstrip("/")
                    res = f"ok raised={raised}"
            elif op == "sqlapi":
                from sourmash.index.sqlite_index import SqliteIndex
                ids, extra = parse_sessions(a[0])[0], int(a[1])
                if any(i not in S.sigs for i in ids + [extra]):
                    res = "bad-op"
                else:
                    d = S.fresh()
                    S.new_collection()
                    S.kind, S.path = "sqldb", d + "/c.sqldb"
                    res = run_sessions(S, S.path, [ids])
                    idx = SqliteIndex.create(S.path, append=True)
                    n0, before = len(idx), sorted(show_sig(x) for x in idx.signatures())
                    raised = False
                    try:
                        idx.insert(S.sigs[extra])
                    except ValueError:
                        raised = True
                    n1, after = len(idx), sorted(show_sig(x) for x in idx.signatures())
                    idx.commit()
                    idx.close()
                    if n1 != n0 + (0 if raised else 1) or len(after) != n1 or (raised and after != before):
                        res = f"VIEW:sqlite-len-after-insert {n0}->{n1} returned={len(after)} raised={raised}"
                    elif res.startswith("ok refused="):
                        res = res + ("," if res != "ok refused=" and raised else "") + ("1.0:ValueError" if raised else "")
            elif op == "mk":
                k, fmt, sess = int(a[0]), a[1], parse_sessions(a[2])
                if any(i not in S.sigs for x in sess for i in x):
                    res = "bad-op"
                else:
                    ws = S.workspace()
                    rel = f"a/b{k}/" + SLOT_EXT[fmt]
                    os.makedirs(os.path.join(ws, f"a/b{k}"), exist_ok=True)
                    S.slots[k] = (SLOT_KIND[fmt], rel.rstrip("/"))
                    res = run_sessions(S, os.path.join(ws, rel), sess)
                    if fmt == "dir" and not os.path.isdir(os.path.join(ws, rel)):
                        os.mkdir(os.path.join(ws, rel))
            elif op in ("cat", "split", "collect", "sigmanifest", "fileinfo") and any(
                    int(x) not in S.slots for x in (a[-1] if op in ("cat", "split", "collect") else a[0]).split(",")):
                res = "bad-op"
            elif op == "cat":
                S.kind = None
                S.new_collection()
                outfmt, unique, fromfile = a[0], a[1] == "1", a[2] == "1"
                ks = [int(x) for x in a[3].split(",")]
                ws = S.workspace()
                shutil.rmtree(os.path.join(ws, "out"), ignore_errors=True)
                os.makedirs(os.path.join(ws, "out"))
                paths = [slot_rel(S, k) for k in ks]
                argv = ["sig", "cat"]
                if fromfile and len(paths) >= 2:
                    # load_pathlist_from_file returns a SET: only one listed path keeps the order defined
                    with open(os.path.join(ws, "out", "list.txt"), "w") as f:
                        f.write(paths[-1] + "\n")
                    argv += paths[:-1] + ["--from-file", "out/list.txt"]
                else:
                    argv += paths
                out_rel = "out/" + SLOT_EXT[outfmt]
                argv += ["-o", out_rel] + (["--unique"] if unique else [])
                rc, _ = cli(argv, ws)
                if rc != 0:
                    S.kind = None
                    res = f"err SystemExit"
                else:
                    S.kind, S.path, S.cwd = SLOT_KIND[outfmt], os.path.join(ws, out_rel).rstrip("/"), None
                    res = "ok refused="
            elif op == "split":
                S.kind = None
                S.new_collection()
                ks = [int(x) for x in a[0].split(",")]
                ws = S.workspace()
                shutil.rmtree(os.path.join(ws, "out"), ignore_errors=True)
                rc, _ = cli(["sig", "split"] + [slot_rel(S, k) for k in ks] + ["--output-dir", "out"], ws)
                if rc != 0:
                    S.kind = None
                    res = "err SystemExit"
                else:
                    S.kind, S.path, S.cwd = "split", os.path.join(ws, "out"), None
                    res = "ok refused="
            elif op == "collect":
                S.kind = None
                S.new_collection()
                fmt, mode = a[0], a[1]
                ks = [int(x) for x in a[2].split(",")]
                ws = S.workspace()
                name = "m.csv" if fmt == "csv" else "m.sqlmf"
                out_rel = name if mode == "cwd" else "mf/" + name
                if os.path.exists(os.path.join(ws, out_rel)):
                    os.unlink(os.path.join(ws, out_rel))
                argv = ["sig", "collect"] + [slot_rel(S, k) for k in ks] + ["-o", out_rel, "-F", fmt]
                argv += {"abs": ["--abspath"], "rel": ["--relpath"]}.get(mode, [])
                rc, _ = cli(argv, ws)
                if rc != 0:
                    S.kind = None
                    res = "err SystemExit"
                else:
                    # the manifest is loaded by its absolute path from an unrelated working directory
                    S.kind, S.path, S.cwd = "mf", os.path.join(ws, out_rel), os.path.join(ws, "else")
                    res = "ok refused="
            elif op == "sigmanifest":
                k, rebuild, fmt = int(a[0]), a[1] == "1", a[2]
                ws = S.workspace()
                out_rel = "mf/sm.csv" if fmt == "csv" else "mf/sm.sqlmf"
                if os.path.exists(os.path.join(ws, out_rel)):
                    os.unlink(os.path.join(ws, out_rel))
                argv = ["sig", "manifest", slot_rel(S, k), "-o", out_rel, "-F", fmt]
                argv += [] if rebuild else ["--no-rebuild-manifest"]
                rc, _ = cli(argv, ws)
                if rc != 0:
                    res = "err SystemExit"
                else:
                    mf = CollectionManifest.load_from_filename(os.path.join(ws, out_rel))
                    res = "ok~ " + ";".join(row_fields(r, show_member(r["internal_location"])) for r in mf.rows)
            elif op == "fileinfo":
                k = int(a[0])
                ws = S.workspace()
                rc, text = cli(["sig", "fileinfo", slot_rel(S, k), "--json-out"], ws)
                if rc != 0:
                    res = "err SystemExit"
                else:
                    d = json.loads(text)
                    items = [f"n={d['num_sketches']}", f"total={d['total_hashes']}"]
                    for g in d["sketch_info"]:
                        items.append(f"g:{g['ksize']}/{MOLS.index(g['moltype'])}/{g['scaled']}/{g['num']}/"
                                     f"{int(bool(g['abund']))}/{g['count']}/{g['n_hashes']}")
                    res = "ok~ " + ";".join(items)
            elif op == "load" and a[0] == "partial":
                if S.kind not in ("zip", "sigfile", "sqldb"):
                    res = "ok -"
                else:
                    idx = generic(S)
                    rows = [dict(r) for r in sourmash_args.get_manifest(idx).rows]
                    want = [int(x) for x in a[1].split(",")] if a[1] != "-" else []
                    sel = []
                    for i in (want if rows else []):
                        r = dict(rows[i % len(rows)])
                        r["internal_location"] = S.path
                        sel.append(r)
                    out_mf = os.path.join(S.dir, "partial.mf.csv")
                    if os.path.exists(out_mf):
                        os.unlink(out_mf)
                    CollectionManifest(sel).write_to_filename(out_mf)
                    pidx = sourmash.load_file_as_index(out_mf)
                    res = "ok " + ";".join([f"len={len(pidx)}"] + [show_sig(x) for x in pidx.signatures()])
            elif op in ("members", "manifest", "locs", "load", "len", "rebuild") and S.kind is None:
                res = "ok -"
            elif op == "members":
                if S.kind == "zip":
                    res = "ok~ " + ";".join(show_member(n) for n in zipfile.ZipFile(S.path).namelist())
                elif S.kind == "sbt":
                    ns = [n for n in zipfile.ZipFile(S.path).namelist()
                          if not n.endswith("/") and "/internal." not in n and not n.endswith(".csv")
                          and not n.endswith(".sbt.json")]
                    res = "ok~ " + ";".join(show_member(n) for n in ns)
                elif S.kind == "dir":
                    res = "ok~ " + ";".join(show_member(n) for n in os.listdir(S.path))
                elif S.kind == "sbtjson":
                    sub = os.path.join(os.path.dirname(S.path), ".sbt." + os.path.basename(S.path)[:-len(".sbt.json")])
                    res = "ok~ " + ";".join(show_member(n) for n in os.listdir(sub)
                                            if not n.startswith("internal.") and not n.endswith(".csv"))
                else:
                    res = "ok -"
            elif op == "manifest":
                idx = generic(S)
                m = idx.manifest
                if m is None:
                    res = "ok none"
                elif S.kind == "zip":
                    res = "ok " + ";".join(row_fields(r, show_member(r["internal_location"])) for r in m.rows)
                elif S.kind in ("sbt", "sbtjson"):
                    res = "ok~ " + ";".join(row_fields(r, "*") for r in m.rows)
                elif S.kind == "lcasql":
                    res = "ok~ " + ";".join(f"{un_nm(r['name'])}|{r['n_hashes']}|{r['scaled']}|{r['ksize']}|{MOLS.index(r['moltype'])}"
                                            for r in m.rows)
                elif S.kind == "dir":
                    res = "ok~ " + ";".join(row_fields(r, show_member(r["internal_location"])) for r in m.rows)
                elif S.kind == "split":
                    res = "ok~ " + ";".join(row_fields(r, "*") for r in m.rows)
                elif S.kind == "mf":
                    res = "ok~ " + ";".join(row_fields(r, slot_of_location(S, r["internal_location"], os.path.dirname(S.path)))
                                            for r in m.rows)
                elif S.kind == "sigfile":
                    res = "ok " + ";".join(row_fields(r, "o0" if r["internal_location"] == S.path else "?" + str(r["internal_location"])) for r in m.rows)
                else:
                    res = "ok " + ";".join(row_fields(r, str(r["internal_location"])) for r in m.rows)
            elif op == "rebuild":
                if S.kind == "zip":
                    mf = sourmash_args.get_manifest(generic(S), rebuild=True)
                    res = "ok~ " + ";".join(row_fields(r, show_member(r["internal_location"])) for r in mf.rows)
                else:
                    res = "ok -"
            elif op == "locs":
                idx = generic(S)
                if S.kind in ("sbt", "sbtjson") and idx.manifest is not None:
                    locs = [r["internal_location"] for r in idx.manifest.rows]
                    res = f"ok {len(locs)} {len(set(locs))}"
                else:
                    res = "ok -"
            elif op == "load":
                sigs, bad = load_how(S, a[0])
                bad = bad or recheck_history(S)
                if bad:
                    res = bad
                elif S.kind in ("zip", "sigfile", "sqldb") :
                    res = "ok " + ";".join(show_sig(x) for x in sigs)
                else:
                    res = "ok~ " + ";".join(show_sig(x) for x in sigs)
            elif op == "len":
                idx = generic(S)
                n1 = len(idx)
                with in_dir(S.cwd):
                    _ = sum(1 for _ in idx.signatures()) if S.kind != "mf" else 0
                res = f"ok {n1}" if len(idx) == n1 else "HIST:len-changes-after-iteration"
                res = recheck_history(S) or res
            elif op == "kind":
                res = do_kind(S, a[0])
            elif op == "conv":
                x = int(a[0])
                res = f"ok {convert_hash_to(x)} {convert_hash_from(convert_hash_to(x))}"
            else:
                res = "bad-op"
        except (ValueError, KeyError, FileNotFoundError, NotImplementedError, IndexError, AssertionError, Exception) as e:
            res = "err " + exc_name(e)
        out.write(res + "\n")
        out.flush()
    S.cleanup()


if __name__ == "__main__":
    main()
